#!/bin/sh
# MANIFEST.setup_cmd: build both fact extractors offline from the files on disk.
set -e
cd "$(dirname "$0")"
export CARGO_NET_OFFLINE=true
(cd engines/mirfacts && cargo +nightly build --release --offline 2>&1 | tail -2)
test -x engines/mirfacts/target/release/mirfacts
# specscan embeds the generator (a2lmacros/src) of the tree under analysis: it is built per generator version into the cache
python3 -c "import sys; sys.path.insert(0, '.'); from rules import common; print(common.specscan_bin())"
echo "setup ok"
