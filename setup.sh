#!/bin/sh
# MANIFEST.setup_cmd: build both fact extractors offline from the files on disk.
set -e
cd "$(dirname "$0")"
export CARGO_NET_OFFLINE=true
(cd engines/mirfacts && cargo +nightly build --release --offline 2>&1 | tail -2)
(cd engines/specscan && REPO=${REPO:-/repo} ./sync_generator.sh && cargo build --release --offline 2>&1 | tail -2)
test -x engines/mirfacts/target/release/mirfacts
test -x engines/specscan/target/release/specscan
echo "setup ok"
