#!/usr/bin/env python3
"""mutest.py <patch.diff> <PID>[,<PID>..]  -- apply a seeded change to /repo, run the quick checks, undo it straight afterwards.
prints per property: exit code and VIOLATION keys.  Never leaves /repo modified."""
import os, subprocess, sys
V = os.path.dirname(os.path.dirname(os.path.abspath(__file__)))


def sh(cmd, **kw):
    return subprocess.run(cmd, stdout=subprocess.PIPE, stderr=subprocess.STDOUT, text=True, **kw)


def main():
    patch = os.path.abspath(sys.argv[1])
    pids = sys.argv[2].split(",")
    verbose = "-v" in sys.argv
    st = sh(["git", "-C", "/repo", "status", "--porcelain"]).stdout.strip()
    if st:
        print("refusing: /repo is not clean:\n" + st)
        return 2
    r = sh(["git", "-C", "/repo", "apply", patch])
    if r.returncode != 0:
        print("patch does not apply:", r.stdout)
        return 2
    res = {}
    try:
        for pid in pids:
            try:
                r = sh(["python3", os.path.join(V, "bin/vcheck"), pid], cwd=V, timeout=900)
            except subprocess.TimeoutExpired:
                res[pid] = (99, ["TIMEOUT after 900 s"])
                continue
            keys = [l.strip()[5:] for l in r.stdout.splitlines() if l.strip().startswith("key: ")]
            res[pid] = (r.returncode, keys)
            if verbose or r.returncode == 2:
                print(r.stdout[-3000:])
    finally:
        sh(["git", "-C", "/repo", "checkout", "--", "."])
        sh(["git", "-C", "/repo", "clean", "-fdq", "a2lfile/src", "a2lmacros/src", "a2lfile/tests"])
    for pid, (rc, keys) in res.items():
        print("%s exit=%d %s" % (pid, rc, "; ".join(keys[:6]) if keys else ""))
    return 0


if __name__ == "__main__":
    sys.exit(main())
