#!/usr/bin/env python3
"""seedmatrix.py [seed ids...]: apply each seeded change to a scratch worktree of /repo (never to /repo itself), run the quick
check of the property it breaks (plus any extra properties given with --also), undo, and print which checks fire."""
import json, os, subprocess, sys
V = os.path.dirname(os.path.dirname(os.path.abspath(__file__)))
WT = "/tmp/seedrepo"


def sh(cmd, **kw):
    return subprocess.run(cmd, stdout=subprocess.PIPE, stderr=subprocess.STDOUT, text=True, **kw)


def main():
    args = [a for a in sys.argv[1:] if not a.startswith("--")]
    also = [a.split("=", 1)[1].split(",") for a in sys.argv[1:] if a.startswith("--also=")]
    also = also[0] if also else []
    sh(["git", "-C", "/repo", "worktree", "remove", "--force", WT])
    r = sh(["git", "-C", "/repo", "worktree", "add", "--detach", WT, "HEAD"])
    if r.returncode != 0:
        print(r.stdout); return 2
    root = [a.split("=", 1)[1] for a in sys.argv[1:] if a.startswith("--root=")]
    root = root[0] if root else None
    if root:
        import glob
        allseeds = {os.path.relpath(d, root).replace("/out/", ""): d for d in glob.glob(root + "/C*/out/[a-e]")}
        seeds = args or sorted(allseeds)
    else:
        seeds = args or sorted(os.listdir(os.path.join(V, "seeded")))
    env = dict(os.environ, VERIF_REPO=WT, VERIF_OUT="/tmp/seedmatrix_out")
    res = {}
    claimed = {c["property_id"] for c in json.load(open(os.path.join(V, "MANIFEST.json")))["checks"]}
    try:
        for sid in seeds:
            sdir = allseeds[sid] if root else os.path.join(V, "seeded", sid)
            patch = os.path.join(sdir, "patch.diff")
            if not (os.path.exists(patch) and os.path.exists(os.path.join(sdir, "meta.json"))):
                continue
            meta = json.load(open(os.path.join(sdir, "meta.json")))
            pid = meta["property"]
            r = sh(["git", "-C", WT, "apply", patch])
            if r.returncode != 0:
                res[sid] = "patch does not apply"
                continue
            out = {}
            for p in [pid] + [a for a in also if a != pid]:
                if not os.path.exists(os.path.join(V, "rules", p.lower() + ".py")):
                    out[p] = "no check"
                    continue
                r = sh(["python3", os.path.join(V, "bin/vcheck"), p], cwd=V, env=env)
                keys = [l.strip()[5:] for l in r.stdout.splitlines() if l.strip().startswith("key: ")]
                out[p] = "exit=%d %s" % (r.returncode, " ; ".join(k[:110] for k in keys[:3]))
            res[sid] = out
            sh(["git", "-C", WT, "checkout", "--", "."])
            sh(["git", "-C", WT, "clean", "-fdq"])
            print(sid, json.dumps(out), flush=True)
    finally:
        sh(["git", "-C", "/repo", "worktree", "remove", "--force", WT])
    json.dump(res, open("/tmp/seedmatrix.json", "w"), indent=1)


if __name__ == "__main__":
    sys.exit(main())
