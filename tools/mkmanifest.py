#!/usr/bin/env python3
"""regenerates MANIFEST.json from tools/claims.json (the per-property claim texts) and validates it"""
import json, os, sys
V = os.path.dirname(os.path.dirname(os.path.abspath(__file__)))
props = [json.loads(l) for l in open(os.path.join(V, "properties.jsonl"))]
claims = json.load(open(os.path.join(V, "tools/claims.json")))
checks, na = [], []
for p in props:
    c = claims.get(p["id"])
    if c and c.get("claimed") and os.path.exists(os.path.join(V, "rules", p["id"].lower() + ".py")):
        checks.append({
            "property_id": p["id"],
            "quick_cmd": "python3 bin/vcheck %s --tier quick" % p["id"],
            "thorough_cmd": "python3 bin/vcheck %s --tier thorough" % p["id"],
            "evidence_file": "evidence/%s.json" % p["id"],
            "replay_cmd_template": "python3 bin/vcheck %s --explain {path}" % p["id"],
            "engine": c.get("engine", "mirfacts+specscan"),
            "level_claimed": {"category": c.get("category", "other"), "text": c["text"], "design_ref": "DESIGN.md section 3, " + p["id"]},
            "level_note": c["note"],
            "technique": c["technique"],
        })
    else:
        na.append({"property_id": p["id"], "reason": (c or {}).get("na_reason", "check not built yet (work in progress, see DESIGN.md order of work)")})
m = {
    "version": 1,
    "setup_cmd": "sh setup.sh",
    "hooks": {"guard": "danielt_a2lfile_verif", "enable": "none needed: static analysis reads /repo's tree as it is (no hook commits)",
              "baseline_off_cmd": "cd /repo && cargo test --workspace --no-fail-fast --offline", "source_commits": [], "add_only": True},
    "engines": [
        {"name": "mirfacts", "path": "engines/mirfacts", "serves_properties": sorted(k for k, c in claims.items() if "mirfacts" in c.get("engine", "mirfacts+specscan")),
         "kind_free_text": "rustc_private driver (nightly) injected with RUSTC_WORKSPACE_WRAPPER under cargo +nightly check; exports type-resolved MIR of a2lfile as JSON facts"},
        {"name": "specscan", "path": "engines/specscan", "serves_properties": sorted(k for k, c in claims.items() if "specscan" in c.get("engine", "mirfacts+specscan")),
         "kind_free_text": "syn based extractor: AST dump of all sources, DSL token tree, and fresh expansion of the in-tree DSL by the in-tree generator (compiled in as ordinary code) with canonical item diff"},
        {"name": "rules", "path": "rules", "serves_properties": sorted(claims), "kind_free_text": "python3 (stdlib) rule layer: call graph, dominators, access-path provenance, panic obligations, frozen oracles in oracle/"},
    ],
    "checks": checks,
    "notes": "Technique family: static analysis only. Each check decides structural necessary conditions of its property from MIR/AST facts of /repo's current tree; the undecided (runtime value) part of each property is stated in level_note and DESIGN.md.",
    "not_applicable": na,
}
json.dump(m, open(os.path.join(V, "MANIFEST.json"), "w"), indent=1)
print("checks:", [c["property_id"] for c in checks], "na:", [n["property_id"] for n in na])
