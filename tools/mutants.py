#!/usr/bin/env python3
"""mutants.py --n N --workers W [--seed S] [--files a,b]: developer tool (never run by a check).

Generates simple syntactic mutants of the hand-written sources (relational operator replacement, && <-> ||, integer literal
+1, true <-> false, deletion of a statement-call line), and for each one, in a scratch worktree of /repo under /tmp/mutants:
  1. cargo check  (mutants that do not compile are dropped),
  2. cargo test --workspace  (mutants the suite catches are recorded as 'killed by tests'),
  3. for the survivors: all 20 quick checks with VERIF_REPO pointing at the worktree (own cache / output directory).
Result lines (JSON) go to /tmp/mutants/results.jsonl.  Survivors that no check reports are candidates for blind spots: they are
looked at by hand (many are equivalent mutants or outside every property)."""
import json, os, random, re, subprocess, sys, shutil, threading, queue

V = os.path.dirname(os.path.dirname(os.path.abspath(__file__)))
ROOT = "/tmp/mutants"
FILES = ["tokenizer.rs", "parser.rs", "writer.rs", "ifdata.rs", "a2ml.rs", "loader.rs", "merge.rs", "cleanup.rs", "cleanup/compu_methods.rs",
         "cleanup/functions.rs", "cleanup/groups.rs", "cleanup/record_layouts.rs", "checker.rs", "sort.rs", "itemlist.rs", "module.rs", "lib.rs"]
REL = {"<=": "<", ">=": ">", "==": "!=", "!=": "=="}


def candidates(path, rel):
    src = open(path).read().split("\n")
    out = []
    intest = False
    for i, line in enumerate(src):
        if "#[cfg(test)]" in line:
            intest = True
        if intest:
            continue
        s = line.strip()
        if not s or s.startswith("//") or s.startswith("#[") or s.startswith("///"):
            continue
        code = line.split("//")[0]
        for m in re.finditer(r"(?<![<>=!\-])(<=|>=|==|!=)(?![=>])", code):
            out.append((rel, i, "rel", m.start(), m.group(1), REL[m.group(1)]))
        for m in re.finditer(r"(?<![<>=!\-\w:]) (<|>) (?![=<>])", code):
            if re.search(r"\b(if|while|&&|\|\||let \w+ =|return|=>)\b", code) and "->" not in code and "fn " not in code and "impl" not in code:
                out.append((rel, i, "rel", m.start(1), m.group(1), m.group(1) + "="))
        for m in re.finditer(r"&&|\|\|", code):
            if "|" in code and re.search(r"\|\w*\|", code):
                continue
            out.append((rel, i, "logic", m.start(), m.group(0), "||" if m.group(0) == "&&" else "&&"))
        for m in re.finditer(r"(?<![\w.'\"])(\d+)(?![\w.'\"])", code):
            if re.search(r"\b(if|while|let|=|\+|-|return)\b", code) and "0x" not in code and "[" not in code.split("=")[0]:
                out.append((rel, i, "int", m.start(1), m.group(1), str(int(m.group(1)) + 1)))
        for m in re.finditer(r"\b(true|false)\b", code):
            out.append((rel, i, "bool", m.start(), m.group(1), "false" if m.group(1) == "true" else "true"))
        if re.fullmatch(r"\s*[\w.\[\]*&()]+\.\w+\([^;{}]*\);\s*", code) and not s.startswith(("let ", "return", "assert", "debug_assert")):
            out.append((rel, i, "del", 0, s, ""))
    return out


def sh(cmd, cwd, env=None, timeout=1800):
    e = dict(os.environ)
    e.update(env or {})
    try:
        p = subprocess.run(cmd, cwd=cwd, env=e, stdout=subprocess.PIPE, stderr=subprocess.STDOUT, text=True, timeout=timeout)
        return p.returncode, p.stdout
    except subprocess.TimeoutExpired:
        return 124, "timeout"


def worker(wid, q, lock, resf):
    wt = "%s/wt%d" % (ROOT, wid)
    tg = "%s/target%d" % (ROOT, wid)
    subprocess.run(["git", "-C", "/repo", "worktree", "remove", "--force", wt], stdout=subprocess.DEVNULL, stderr=subprocess.DEVNULL)
    subprocess.run(["git", "-C", "/repo", "worktree", "add", "--detach", wt, "HEAD"], check=True, stdout=subprocess.DEVNULL, stderr=subprocess.DEVNULL)
    env = {"CARGO_TARGET_DIR": tg, "CARGO_NET_OFFLINE": "true"}
    while True:
        try:
            mid, (rel, i, kind, col, old, new) = q.get_nowait()
        except queue.Empty:
            break
        path = os.path.join(wt, "a2lfile/src", rel)
        lines = open(path).read().split("\n")
        orig = lines[i]
        if kind == "del":
            lines[i] = re.sub(r"\S.*$", "// mutant: deleted", orig)
        else:
            lines[i] = orig[:col] + new + orig[col + len(old):]
        open(path, "w").write("\n".join(lines))
        res = {"id": mid, "file": rel, "line": i + 1, "kind": kind, "old": orig.strip()[:160], "new": lines[i].strip()[:160]}
        rc, out = sh(["cargo", "check", "-p", "a2lfile", "--offline", "--lib"], wt, env, 600)
        if rc != 0:
            res["status"] = "does not compile"
        else:
            rc, out = sh(["cargo", "test", "--workspace", "--offline"], wt, env, 900)
            if rc != 0:
                res["status"] = "killed by tests"
            else:
                res["status"] = "survives tests"
                cenv = {"VERIF_REPO": wt, "VERIF_CACHE": "%s/cache%d" % (ROOT, wid), "VERIF_OUT": "%s/out%d" % (ROOT, wid)}
                fired = {}
                # first call builds the facts; then the remaining checks in parallel
                ids = ["C%02d" % k for k in range(1, 21)]
                rc, out = sh(["python3", os.path.join(V, "bin/vcheck"), ids[0]], V, cenv, 1200)
                outs = {ids[0]: (rc, out)}
                procs = []
                for pid in ids[1:]:
                    e = dict(os.environ); e.update(cenv)
                    procs.append((pid, subprocess.Popen(["python3", os.path.join(V, "bin/vcheck"), pid], cwd=V, env=e, stdout=subprocess.PIPE, stderr=subprocess.STDOUT, text=True)))
                    if len(procs) >= 5:
                        for pid2, p in procs:
                            o, _ = p.communicate()
                            outs[pid2] = (p.returncode, o)
                        procs = []
                for pid2, p in procs:
                    o, _ = p.communicate()
                    outs[pid2] = (p.returncode, o)
                for pid, (rc, o) in outs.items():
                    if rc != 0:
                        keys = [l.strip()[5:] for l in o.splitlines() if l.strip().startswith("key: ")]
                        fired[pid] = {"exit": rc, "keys": [k[:140] for k in keys[:3]], "tail": o[-200:] if rc == 2 else ""}
                res["fired"] = fired
        sh(["git", "checkout", "--", "."], wt)
        with lock:
            with open(resf, "a") as fh:
                fh.write(json.dumps(res) + "\n")
            print(mid, res["status"], rel, i + 1, kind, sorted(res.get("fired", {})), flush=True)
    subprocess.run(["git", "-C", "/repo", "worktree", "remove", "--force", wt], stdout=subprocess.DEVNULL, stderr=subprocess.DEVNULL)
    shutil.rmtree(tg, ignore_errors=True)
    shutil.rmtree("%s/cache%d" % (ROOT, wid), ignore_errors=True)


def main():
    n, workers, seed, files = 100, 4, 1, FILES
    a = sys.argv[1:]
    for k in range(len(a)):
        if a[k] == "--n": n = int(a[k + 1])
        if a[k] == "--workers": workers = int(a[k + 1])
        if a[k] == "--seed": seed = int(a[k + 1])
        if a[k] == "--files": files = a[k + 1].split(",")
    os.makedirs(ROOT, exist_ok=True)
    cands = []
    for rel in files:
        cands += candidates(os.path.join("/repo/a2lfile/src", rel), rel)
    random.Random(seed).shuffle(cands)
    # spread over kinds
    pick = cands[:n]
    print("candidates", len(cands), "picked", len(pick), flush=True)
    q = queue.Queue()
    for k, c in enumerate(pick):
        q.put(("s%d-%d" % (seed, k), c))
    lock = threading.Lock()
    resf = os.path.join(ROOT, "results.jsonl")
    ts = [threading.Thread(target=worker, args=(w, q, lock, resf)) for w in range(workers)]
    for t in ts: t.start()
    for t in ts: t.join()


if __name__ == "__main__":
    main()
