#!/usr/bin/env python3
"""inventory.py [--write]: the rule inventory lines of DESIGN.md 5.3 (rule instances/floor per property) from evidence/*.json"""
import json, os, re, sys
V = os.path.dirname(os.path.dirname(os.path.abspath(__file__)))
lines = {}
for i in range(1, 21):
    pid = "C%02d" % i
    e = json.load(open(os.path.join(V, "evidence", pid + ".json")))
    rules = [r for r in e["coverage"]["rules"] if not r["rule"].startswith("R00-")]
    lines[pid] = "**%s** — %s." % (pid, "; ".join("%s %d/%d" % (r["rule"], r["instances"], r.get("floor") or 0) for r in rules))
if "--write" in sys.argv:
    p = os.path.join(V, "DESIGN.md")
    s = open(p).read()
    for pid, ln in lines.items():
        s, n = re.subn(r"^\*\*%s\*\* — .*$" % pid, lambda m: ln, s, count=1, flags=re.M)
        assert n == 1, pid
    open(p, "w").write(s)
    print("inventory written")
else:
    print("\n\n".join(lines[k] for k in sorted(lines)))
