#!/usr/bin/env python3
"""(re)generates oracle/audited_sites.json from the human-reviewed reasons below.

Run by hand when the reviewed table has to change (never by a check).  For every panic obligation in the listed scopes
that the zone analysis cannot discharge, a reason must match its key; obligations without a reason are printed and NOT
written, so they stay violations until somebody has looked at them."""
import json, os, re, sys
V = os.path.dirname(os.path.dirname(os.path.abspath(__file__)))
sys.path.insert(0, V)
from rules import mir, panics, scopes

# (regex on the obligation key "fn | kind | operands | #n",  one-line proof,  optional requirements)
# data-structure invariants that hold wherever the operands occur (not tied to the control flow of one function): these are also
# written as regular expressions ("classes") so that moving such an access into a new helper function does not create an
# unreviewed site.  Everything else is accepted for its exact key only.
CLASSES = [
    (r"[^|]* \| BoundsCheck \| len=len\((arg\d+|local:[^|]*?)\.(filenames|filedata)\) index=[^|]*fileid[^|]* \| #\d+",
     "file-id invariant: tokenize() gives the k-th file id k and appends exactly one entry per file to filenames/filedata before any token with that id exists; every ParseContext.fileid is copied from a token (producer side checked by R16-fileid)"),
]

REASONS = [
    # ---------------------------------------------------------------- classes (data-structure invariants)
    (r".* \| BoundsCheck \| len=len\((arg\d+|local:[^|]*?)\.(filenames|filedata)\) index=.*fileid.*",
     "file-id invariant: tokenize() gives the k-th file id k and appends exactly one entry per file to filenames/filedata before any token with that id exists; every ParseContext.fileid is copied from a token (producer side checked by R16-fileid)", None),
    (r".* \| Overflow:Add \| .* Add tokenizer::count_newlines\(\.\.\) \(u32\) \| .*",
     "u32 line counter grows by at most one per input byte: stated assumption inputs < 4 GiB", None),
    (r"parser::ParserState::<'a>::get_next_id \| Overflow:Add \| arg1\.sequential_id Add 1 \(u32\) \| #0",
     "one id per element/comment: stated assumption < 2^32 elements per load", None),
    # ---------------------------------------------------------------- a2ml.rs scanner
    (r"a2ml::make_errtxt \| Overflow:Add \| arg1 Add 16 \(usize\) \| #0", "pos is a scan position <= input length <= isize::MAX at all three call sites", None),
    (r"a2ml::make_errtxt \| Slice:seq \| arg2\[arg1\.\.local:usize\] \| #0", "callers pass the start position of the current token, which is < datalen, and endpos = min(pos+16, datalen) >= pos", None),
    (r"a2ml::tokenize_a2ml \| Slice:str \| arg2\[local:usize\.\.local:usize\] \| #0", "copypos is 0 or the position after an /include directive (ASCII quote/whitespace/end), startpos is the position of the ASCII '/' of the next /include and copypos <= startpos because the scan only moves forward", None),
    (r"a2ml::tokenize_a2ml \| Slice:str \| arg2\[local:usize\.\.len\(arg2\)\] \| #0", "copypos <= bytepos <= datalen, both on ASCII boundaries (see #0)", None),
    (r"a2ml::tokenize_include \| Overflow:Add \| arg3 Add 8 \(usize\) \| #0", "called only when input[bytepos..] starts with \"/include\": bytepos + 8 <= datalen", None),
    (r"a2ml::tokenize_include \| Overflow:Add \| arg3 Add 1 \(usize\) \| #[01]", "the state machine returns Err as soon as it reads the virtual NUL at bytepos >= datalen in states 0,2,3 and breaks in state 1, so bytepos <= datalen + 1", None),
    (r"a2ml::tokenize_include \| Slice:str \| arg2\[local:usize\.\.local:usize\] \| #0", "fname_idx_start is set at the first path character after ASCII whitespace/quote, fname_idx_end at the ASCII terminator (or datalen); start <= end because end is assigned later in the same forward scan", None),
    (r"a2ml::tokenize_(keyword_ident|number) \| Slice:str \| arg1\[arg2\.\.arg2\] \| #0", "startpos is the position of an ASCII letter/digit, *bytepos stops at the first byte that is not ASCII alphanumeric/underscore (a char boundary) or at datalen", None),
    (r"a2ml::tokenize_tag \| Slice:str \| arg1\[\(arg2 Add 1\)\.\.arg2\] \| #0", "startpos is the opening ASCII quote, *bytepos the closing ASCII quote found by the forward scan: startpos + 1 <= *bytepos < datalen", None),
    # ---------------------------------------------------------------- ifdata.rs
    (r"ifdata::parse_unknown_ifdata \| Unwrap \| unwrap\(parser::ParserState::peek_token\(\.\.\)\) \| #0", "guarded by the is_none() early return two lines above", None),
    (r"ifdata::parse_unknown_taggedstruct \| Unwrap \| unwrap\(std::collections::HashMap::get_mut\(\.\.\)\) \| #0", "the key was inserted on the line above when it was missing", None),
    # ---------------------------------------------------------------- loader.rs
    (r"loader::decode_raw_bytes \| (BoundsCheck|Overflow:Mul|Overflow:Add) \| .*Mul 4.*", "i < len/4 inside `if len % 4 == 0 && len > 3`: i*4+3 <= len-1 (congruence argument, not expressible as a difference bound); len <= isize::MAX so i*4 cannot overflow", None),
    (r"loader::decode_raw_bytes \| (BoundsCheck|Overflow:Mul|Overflow:Add) \| .*Mul 2.*", "i < len/2 inside `if len % 2 == 0 && len > 1`: i*2+1 <= len-1", None),
    (r"loader::load \| Slice:str \| loader::decode_raw_bytes\(\.\.\)\[3\.\.\] \| #0", "guarded by starts_with('\\u{feff}'): the BOM is exactly 3 bytes of UTF-8, so byte 3 is a char boundary and len > 2", None),
    # ---------------------------------------------------------------- parser.rs
    (r"parser::ParserState::<'a>::get_(double|float) \| Slice:str \| parser::ParserState::get_token_text\(\.\.\)\[2\.\.\] \| #0", "guarded by starts_with(\"0x\"/\"0X\"): two ASCII bytes", None),
    (r"parser::ParserState::<'a>::get_integer \| Slice:str \| parser::ParserState::get_token_text\(\.\.\)\[2\.\.\] \| #0", "guarded by len > 2 && starts_with(\"0x\"/\"0X\")", None),
    (r"parser::ParserState::<'a>::get_identifier \| BoundsCheck \| len=len\(parser::ParserState::get_token_text\(\.\.\)\) index=0 \| #0", "Identifier tokens are never empty: every branch of tokenize_core that pushes one has consumed at least its first character", {"dominating_calls": ["parser::ParserState::<'a>::expect_token"]}),
    (r"parser::ParserState::<'a>::get_string \| Slice:str \| local:&str\[1\.\.\(len\(local:&str\) Sub 1\)\] \| #0", "guarded in the same function by len >= 2 && starts_with('\"') && ends_with('\"'): 1 <= len-1 and both cut points are next to a one-byte ASCII quote, hence char boundaries (before fix 6cfdbd8 the guard was starts_with only and an A2ML-block String token consisting of one quote panicked here)",
     {"implied": [[r"starts_with\(.*, '\"'\)", True], [r"ends_with\(.*, '\"'\)", True], [r"len\(.*\) < 2_usize", False]]}),
    (r"parser::ParserState::<'a>::get_line_offset \| Overflow:Sub \| arg1\.token_cursor\.tokens\[\]\.line Sub arg1\.token_cursor\.tokens\[\]\.line \(u32\) \| #0", "only evaluated when both tokens come from the same file id; within one file tokenize_core assigns non-decreasing line numbers", None),
    (r"parser::ParserState::<'a>::get_line_offset \| BoundsCheck \| len=len\(arg1\.token_cursor\.tokens\) index=0 \| #0", "get_line_offset is only called after a token was consumed, so the token list is not empty", None),
    (r"parser::ParserState::<'a>::get_line_offset \| Overflow:Sub \| arg1\.token_cursor\.tokens\[\]\.line Sub 1 \(u32\) \| #0", "line numbers start at 1 in tokenize_core", None),
    (r"parser::ParserState::<'a>::get_token_text \| Slice:str \| arg1\.filedata\[\]\[arg2\.startpos\.\.arg2\.endpos\] \| #0", "token positions are produced by tokenize_core on the same text: startpos <= endpos <= len, every token starts and ends next to an ASCII byte", None),
    (r"parser::ParserState::<'a>::handle_unknown_taggedstruct_tag \| BoundsCheck \| len=len\(arg1\.token_cursor\.tokens\) index=parser::ParserState::get_tokenpos\(\.\.\) \| #0",
     "the get_token()? + undo_get_token() pair directly before proves that a token exists at the cursor position; the index is read after the undo",
     {"dominating_calls": ["parser::ParserState::<'a>::get_token"], "sequence": ["parser::ParserState::<'a>::get_token", "parser::ParserState::<'a>::undo_get_token", "parser::ParserState::<'a>::get_tokenpos"]}),
    (r"parser::ParserState::<'a>::handle_unknown_taggedstruct_tag \| Overflow:(Add|Sub) \| local:i32 (Add|Sub) 1 \(i32\) \| #0", "balance changes by one per token: stated assumption < 2^31 tokens", None),
    (r"parser::TokenIter::<'a>::back \| Overflow:Sub \| arg1\.pos Sub 1 \(usize\) \| #0", "back() is only called to undo a next()/get_token() that succeeded (undo_get_token, stop-list rewind)", None),
    # ---------------------------------------------------------------- tokenizer.rs
    (r"tokenizer::count_newlines \| Std:sum \| .*", "sums at most len(text) ones into a u32: stated assumption inputs < 4 GiB", None),
    (r"tokenizer::find_string_end \| Overflow:Sub \| arg2 Sub 1 \(usize\) \| #0", "if the loop ran bytepos >= 1; if it did not run and bytepos == datalen the function has returned Err (prev_quote is false initially); if bytepos > datalen then bytepos >= 1", None),
    (r"tokenizer::handle_a2ml \| Slice:str \| arg1\[.*index\(\.\.\)\.startpos\.\..*index\(\.\.\)\.endpos\] \| #0", "positions of the Identifier token pushed by the caller immediately before the call (ASCII identifier characters)", None),
    (r"tokenizer::handle_a2ml \| Overflow:Sub \| arg2 Sub [12] \(usize\) \| #0", "bytepos >= startpos >= 4: the bytes before startpos are the identifier \"A2ML\", which is not whitespace, so the backwards trim stops there", None),
    (r"tokenizer::tokenize \| Overflow:Add \| arg2 Add 1 \(usize\) \| #0", "file ids count files: far below usize::MAX", None),
    (r"tokenizer::tokenize \| Slice:seq \| .*\[0\.\..*index\(\.\.\)\] \| #0", "include_directives holds indices into input_tokens and is non-empty in this branch", None),
    (r"tokenizer::tokenize \| Overflow:Add \| <std::vec::Vec as std::ops::Index>::index\(\.\.\) Add 1 \(usize\) \| #0", "an index into input_tokens, < len <= isize::MAX", None),
    (r"tokenizer::tokenize \| Slice:seq \| .*\[\(.*index\(\.\.\) Add 1\)\.\..*index\(\.\.\)\] \| #0", "consecutive entries of include_directives are strictly increasing token indices and the last one is input_tokens.len()", None),
    (r"tokenizer::tokenize \| BoundsCheck \| len=len\(arg3\) index=\(local:usize Sub 1\) \| #0", "endpos of a String/Identifier token: 1 <= endpos <= len", None),
    (r"tokenizer::tokenize \| BoundsCheck \| len=len\(arg3\) index=local:usize \| #0", "startpos of a token: < len", None),
    (r"tokenizer::tokenize \| Overflow:Sub \| local:usize Sub 1 \(usize\) \| #0", "token end positions are >= 1 (tokens are not empty)", None),
    (r"tokenizer::tokenize \| Slice:str \| arg3\[local:usize\.\.local:usize\] \| #0", "token boundaries, moved inwards by one ASCII quote on each side only when both quotes are present", None),
    (r"tokenizer::tokenize \| Overflow:Add \| local:usize Add len\(.*filenames\) \(usize\) \| #0", "counts files", None),
    (r"tokenizer::tokenize \| Index:seq \| .* \| #0", "include_directives[idx-1] is an index of an Include token in input_tokens", None),
    (r"tokenizer::tokenize_core \| Slice:seq \| arg3\[local:usize\.\.local:usize\] \| #[01]", "bytepos was returned by find_block_comment_end / find_string_end for the same buffer: startpos < bytepos <= datalen", None),
    (r"tokenizer::tokenize_core \| Unwrap \| unwrap\(core::slice::last\(\.\.\)\) \| #0", "guarded by !tokens.is_empty() in the same && chain", None),
    # ---------------------------------------------------------------- checker.rs
    (r"checker::check_axis_descr_refs \| Unwrap \| unwrap\(core::str::strip_prefix\(\.\.\)\) \| #[01]", "guarded by starts_with(\"THIS.\") on the same string in the enclosing if", None),
    (r"checker::check_group_structure \| Unwrap \| expect\(std::collections::HashMap::get\(\.\.\)\) \| #0", "groupinfo was filled with an entry for every group of module.group two loops earlier and the model cannot change in between (&Module)", None),
    # ---------------------------------------------------------------- itemlist.rs (ItemList invariant: every value of `map` is a valid index of `items`; kept by the R13-pair rules)
    (r"itemlist::ItemList::<T>::(get|get_mut) \| Index:seq \| arg1\.items\[.*branch\(\.\.\)@Continue\.0\] \| #0", "the index was just read from `map`: ItemList invariant (R13-pair)", None),
    (r"itemlist::ItemList::<T>::swap_remove \| Std:swap_remove \| .* \| #0", "the index was just taken out of `map`: ItemList invariant (R13-pair)", None),
    (r"<itemlist::ItemList<T> as std::ops::Index<&str>>::index \| (Unwrap|Index:seq) \| .* \| #0", "Index<&str> is the documented panicking accessor (like HashMap's Index); it is not among the operations the property lists, and get() is the total variant", None),
    (r"<itemlist::ItemList<T> as std::ops::Index(Mut)?<usize>>::index(_mut)? \| Index:seq \| arg1\.items\[arg2\] \| #0", "Index<usize>/IndexMut<usize> forward to Vec's Index: panicking on an out-of-range position is the contract of the Index traits", None),
    # ---------------------------------------------------------------- a2ml.rs typed access
    (r"a2ml::GenericIfData::get_single_optitem \| Index:seq \| std::collections::HashMap::get\(\.\.\)@Some\.0\[0\] \| #[0-3]", "tagged-item maps only ever hold non-empty vectors: every construction site inserts `vec![item]` or pushes right after inserting the empty vector (parse_ifdata_taggedstruct, parse_unknown_taggedstruct, generated store())", None),
    # ---------------------------------------------------------------- sort.rs (full renumbering)
    (r"sort::(sort|sort_objectlist_full) \| Overflow:Add \| local:u32 Add 1 \(u32\) \| #[01]", "sort() renumbers from 1: the uid grows by one per element, stated assumption < 2^32 elements", None),
]


def main():
    prog = mir.prog()
    sc = scopes.all_scopes(prog)
    out = []
    seen = set()
    missing = []
    for name, fids in sorted(sc.items()):
        for fid in sorted(fids):
            b = prog.bodies.get(fid)
            if b is None:
                continue
            obs, fz = panics.obligations_of(b, prog)
            for o in obs:
                if o.proved or o.key in seen:
                    continue
                seen.add(o.key)
                for rx, why, req in REASONS:
                    if re.fullmatch(rx, o.key):
                        e = {"key": o.key, "why": why, "source": o.src}
                        if req:
                            e["requires"] = req
                        out.append(e)
                        break
                else:
                    missing.append((name, o))
    json.dump({"_comment": "reviewed panic obligations the zone analysis cannot discharge; generated by tools/mk_audited.py from hand-written reasons; keys carry no line numbers",
               "classes": [{"pattern": rx, "why": why} for rx, why in CLASSES],
               "sites": out}, open(os.path.join(V, "oracle", "audited_sites.json"), "w"), indent=1)
    print("written %d audited sites; %d obligations without a reviewed reason:" % (len(out), len(missing)))
    for name, o in missing:
        print("  [%s] %s   << %s  (%s)" % (name, o.key, o.src[:70], o.where))


if __name__ == "__main__":
    main()
