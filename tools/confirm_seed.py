#!/usr/bin/env python3
"""confirm_seed.py [ID/x ...]: re-verify seeded changes in a scratch worktree of /repo (outside /repo and /verif):
   demo passes on the unchanged tree; with the patch: suite passes, demo fails.  Results -> /tmp/confirm/results.json"""
import glob, json, os, re, shutil, subprocess, sys
SEEDROOT = os.environ.get("SEEDROOT", "/tmp/seed")
CONF = os.environ.get("CONFIRM_DIR", "/tmp/confirm")
WT = CONF + "/wt"
TG = CONF + "/target"
RES = CONF + "/results.json"


def sh(cmd, cwd=None, timeout=1800):
    env = dict(os.environ, CARGO_TARGET_DIR=TG, CARGO_NET_OFFLINE="true")
    p = subprocess.run(cmd, cwd=cwd, env=env, stdout=subprocess.PIPE, stderr=subprocess.STDOUT, text=True, timeout=timeout)
    return p.returncode, p.stdout


def reset():
    sh(["git", "checkout", "--", "."], cwd=WT)
    sh(["git", "clean", "-fdq"], cwd=WT)


def main():
    os.makedirs(CONF, exist_ok=True)
    if not os.path.exists(WT):
        subprocess.run(["git", "-C", "/repo", "worktree", "add", "--detach", WT, "HEAD"], check=True)
    results = json.load(open(RES)) if os.path.exists(RES) else {}
    todo = sys.argv[1:] or sorted(os.path.relpath(d, SEEDROOT).replace("/out/", "/") for d in glob.glob(SEEDROOT + "/C*/out/[a-e]"))
    for sid in todo:
        pid, x = sid.split("/")
        d = "%s/%s/out/%s" % (SEEDROOT, pid, x)
        if sid in results and results[sid].get("done"):
            continue
        meta = json.load(open(d + "/meta.json"))
        r = {"done": True}
        results[sid] = r
        place = meta.get("demo_place_at", "")
        demos = [f for f in os.listdir(d) if f.endswith(".rs")]
        m = re.search(r"--test (\S+)", meta.get("demo_cmd", ""))
        if not (place.startswith("a2lfile/tests/") and demos and m):
            r["skipped"] = "non-standard demo (handle by hand): %s / %s" % (place, meta.get("demo_cmd"))
            json.dump(results, open(RES, "w"), indent=1)
            continue
        test = m.group(1)
        demo_src = os.path.join(d, os.path.basename(place)) if os.path.exists(os.path.join(d, os.path.basename(place))) else os.path.join(d, demos[0])
        reset()
        os.makedirs(os.path.join(WT, "a2lfile/tests"), exist_ok=True)
        shutil.copy(demo_src, os.path.join(WT, place))
        rc, out = sh(["cargo", "test", "-p", "a2lfile", "--offline", "--test", test], cwd=WT)
        r["demo_passes_without_change"] = rc == 0
        if rc != 0:
            r["clean_out"] = out[-1500:]
        reset()
        rc, out = sh(["git", "apply", d + "/patch.diff"], cwd=WT)
        r["applies"] = rc == 0
        if rc == 0:
            rc, out = sh(["cargo", "test", "--workspace", "--offline", "--no-fail-fast"], cwd=WT)
            r["suite_passes_with_change"] = rc == 0
            npass = sum(int(n) for n in re.findall(r"test result: ok\. (\d+) passed", out))
            r["suite_passed_tests"] = npass
            if rc != 0:
                r["suite_out"] = out[-2500:]
            shutil.copy(demo_src, os.path.join(WT, place))
            rc, out = sh(["cargo", "test", "-p", "a2lfile", "--offline", "--test", test], cwd=WT)
            r["demo_fails_with_change"] = rc != 0
            r["demo_out"] = out[-1200:]
        reset()
        print(sid, {k: v for k, v in r.items() if not k.endswith("_out")}, flush=True)
        json.dump(results, open(RES, "w"), indent=1)


if __name__ == "__main__":
    main()
