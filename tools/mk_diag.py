#!/usr/bin/env python3
"""(re)generates the reviewed semantic snapshots oracle/diag_table.json and oracle/check_sites.json from the current tree.
Run by hand after reviewing the printed differences; never run by a check."""
import json, os, sys
V = os.path.dirname(os.path.dirname(os.path.abspath(__file__)))
sys.path.insert(0, V)
from rules import mir, common
prog = mir.prog()
p = os.path.join(V, "oracle", "diag_table.json")
tab = json.load(open(p)) if os.path.exists(p) else {}
sections = sys.argv[1:] or ["checker", "parser", "limits"]
if "sort" in sections or len(sys.argv) == 1:
    from rules import sortrules
    fids = [f for f in prog.bodies if prog.bodies[f].file == "a2lfile/src/sort.rs"]
    tab["sort"] = sortrules.sort_table(prog, fids)
if "ifdata" in sections or len(sys.argv) == 1:
    from rules import c18
    tab["ifdata"] = c18.items_table(prog)
if "tokenizer" in sections or len(sys.argv) == 1:
    from rules import c16
    tab["tokenizer"] = c16.tokenizer_table(prog)
if "dispatch" in sections or len(sys.argv) == 1:
    from rules import c16
    json.dump({"_comment": "reviewed: token kind and in-iteration reaching condition (canonical formula) of every token construction in tokenize_core", "rows": [r[:2] for r in c16.dispatch_rows(prog)]},
              open(os.path.join(V, "oracle", "token_dispatch.json"), "w"), indent=1)
if "resolve" in sections or len(sys.argv) == 1:
    from rules import c16
    tab["resolve"] = c16.resolve_table(prog)
if "comparators" in sections or len(sys.argv) == 1:
    from rules import cmpsem
    json.dump({"_comment": "reviewed: decision tables of the hand-written comparators (result L/E/G for every assignment of the named keys to a three-element ordered domain, lexicographic)", "comparators": cmpsem.tables(prog)},
              open(os.path.join(V, "oracle", "comparators.json"), "w"), indent=1, sort_keys=True)
if "entry" in sections or len(sys.argv) == 1:
    from rules import c05
    tab["entry"] = c05.entry_table(prog)
if "mergepred" in sections or len(sys.argv) == 1:
    from rules import c08
    tab["mergepred"] = c08.pred_table(prog)
if "cursor" in sections or len(sys.argv) == 1:
    from rules import c05
    tab["cursor"] = c05.cursor_table(prog)
if "writer" in sections or len(sys.argv) == 1:
    from rules import writertab
    tab["writer"] = writertab.table(prog)
if "ifdatawriter" in sections or len(sys.argv) == 1:
    from rules import writertab
    tab["ifdatawriter"] = writertab.ifdata_table(prog)
if "a2ml" in sections or len(sys.argv) == 1:
    from rules import c18
    tab["a2ml"] = c18.a2ml_table(prog)
if "loader" in sections or len(sys.argv) == 1:
    from rules import c17
    tab["loader"] = c17.loader_table(prog)
if "cleanup" in sections or len(sys.argv) == 1:
    from rules import c10
    tab["cleanup"] = c10.cleanup_table(prog)
if "limits" in sections:
    from rules import c12
    tab["limits"] = c12.limits_table(prog)
if "checker" in sections:
    from rules import c11
    tab["checker"] = c11.checker_table(prog)
    chk = common.Check("C11", "quick")
    # covered sites
    import io, contextlib
    c11.run(chk)
    cov = sorted({f.key for f in []})
if "parser" in sections:
    try:
        from rules import c06
        tab["parser"] = c06.parser_table(prog)
    except ImportError:
        pass
if "skip" in sections:
    try:
        from rules import c07
        tab["skip"] = c07.skip_table(prog)
    except (ImportError, AttributeError):
        pass
# reaching conditions (boolean formulas) of every row, so that a check can tell a re-coded condition from a changed one
from rules import guards
forms = tab.get("_formulas", {})
for sec, t in tab.items():
    if sec.startswith("_") or not isinstance(t, dict):
        continue
    for fn, rows in t.items():
        for r in rows:
            k = (fn, tuple(r[1]))
            if k in guards.FORMULAS:
                forms.setdefault(fn, {})["\x1f".join(r[1])] = guards.FORMULAS[k]
tab["_formulas"] = forms
tab["_comment"] = "reviewed snapshot of guarded-effect tables (control predicates in structural normal form; no source text, no line numbers)"
json.dump(tab, open(p, "w"), indent=1, sort_keys=True)
print({k: (sum(len(v) for v in t.values()) if isinstance(t, dict) else 0) for k, t in tab.items() if not k.startswith("_")}, "formulas:", sum(len(v) for v in forms.values()))
