#!/usr/bin/env python3
"""refmatrix.py [--root /tmp/refac | --root /verif/refactorings/r1 (scratch files then go to /tmp/refmatrix_<name>)]: developer tool.  Applies every behaviour-preserving refactoring <root>/C*/out/?/patch.diff to a
scratch worktree, makes sure the suite still passes, and runs ALL 20 quick checks on it: every check that fires is a false
alarm of the machinery (to be corrected in the rule, never listed as a finding).  Results -> <root>/matrix.jsonl"""
import glob, json, os, subprocess, sys
V = os.path.dirname(os.path.dirname(os.path.abspath(__file__)))
root = "/tmp/refac"
for k, a in enumerate(sys.argv[1:]):
    if a == "--root":
        root = sys.argv[k + 2]
only = [a for a in sys.argv[1:] if a.startswith("C")]
scratch = root if root.startswith("/tmp/") else "/tmp/refmatrix_" + os.path.basename(root.rstrip("/"))
os.makedirs(scratch, exist_ok=True)
WT = scratch + "/matrix_wt"
ENV = dict(os.environ, VERIF_REPO=WT, VERIF_CACHE=scratch + "/matrix_cache", VERIF_OUT=scratch + "/matrix_out", CARGO_TARGET_DIR=scratch + "/matrix_target", CARGO_NET_OFFLINE="true")


def sh(cmd, cwd=None, env=None):
    p = subprocess.run(cmd, cwd=cwd, env=env or os.environ, stdout=subprocess.PIPE, stderr=subprocess.STDOUT, text=True)
    return p.returncode, p.stdout


sh(["git", "-C", "/repo", "worktree", "remove", "--force", WT])
rc, out = sh(["git", "-C", "/repo", "worktree", "add", "--detach", WT, "HEAD"])
assert rc == 0, out
done = set()
resf = scratch + "/matrix.jsonl"
if os.path.exists(resf):
    for l in open(resf):
        done.add(json.loads(l)["id"])
ids = ["C%02d" % k for k in range(1, 21)]
try:
    for d in sorted(glob.glob(root + "/C*/out/[a-h]") + glob.glob(root + "/C[0-9][0-9][a-h]")):
        sid = os.path.relpath(d, root).replace("/out/", "")
        if sid in done or (only and sid not in only) or not os.path.exists(d + "/patch.diff"):
            continue
        res = {"id": sid}
        rc, out = sh(["git", "-C", WT, "apply", d + "/patch.diff"])
        if rc != 0:
            res["status"] = "patch does not apply"
        else:
            rc, out = sh(["cargo", "test", "--workspace", "--offline"], cwd=WT, env=ENV)
            if rc != 0:
                res["status"] = "suite fails"
            else:
                res["status"] = "ok"
                fired = {}
                rc, o = sh(["python3", V + "/bin/vcheck", ids[0]], cwd=V, env=ENV)
                outs = {ids[0]: (rc, o)}
                procs = [(pid, subprocess.Popen(["python3", V + "/bin/vcheck", pid], cwd=V, env=ENV, stdout=subprocess.PIPE, stderr=subprocess.STDOUT, text=True)) for pid in ids[1:]]
                for pid, p in procs:
                    o, _ = p.communicate()
                    outs[pid] = (p.returncode, o)
                for pid, (rc, o) in sorted(outs.items()):
                    if rc != 0:
                        keys = [l.strip()[5:] for l in o.splitlines() if l.strip().startswith("key: ")]
                        fired[pid] = {"exit": rc, "keys": [k[:200] for k in keys[:6]], "tail": o[-300:] if rc == 2 else ""}
                res["fired"] = fired
        sh(["git", "-C", WT, "checkout", "--", "."])
        sh(["git", "-C", WT, "clean", "-fdq"])
        with open(resf, "a") as fh:
            fh.write(json.dumps(res) + "\n")
        print(sid, res["status"], json.dumps(res.get("fired", {}))[:600], flush=True)
finally:
    sh(["git", "-C", "/repo", "worktree", "remove", "--force", WT])
