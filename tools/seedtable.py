#!/usr/bin/env python3
"""seedtable.py [matrix.json]: markdown table of the seeded changes (seeded/*/meta.json) with the rules that reported each one in
the given run of tools/seedmatrix.py (default /tmp/seedmatrix.json); replaces the table between the markers in DESIGN.md with --write."""
import json, os, re, sys
V = os.path.dirname(os.path.dirname(os.path.abspath(__file__)))
args = [a for a in sys.argv[1:] if not a.startswith("--")]
mx = json.load(open(args[0] if args else "/tmp/seedmatrix.json"))
rows = ["| seed | file(s) | change (first sentence of the author's summary) | reported by |", "|---|---|---|---|"]
# seeds that are not part of the given matrix run keep the entry of the table that is already in DESIGN.md (a later, partial run)
prev = {}
for ln in open(os.path.join(V, "DESIGN.md")):
    m = re.match(r"\| (C\d\d[a-z]) \| .* \| ([^|]*) \|\s*$", ln)
    if m:
        prev[m.group(1)] = m.group(2).strip()
missed = []
for sid in sorted(os.listdir(os.path.join(V, "seeded"))):
    mp = os.path.join(V, "seeded", sid, "meta.json")
    if not os.path.exists(mp):
        continue
    m = json.load(open(mp))
    files = ", ".join(os.path.basename(f) for f in m.get("files_changed", []))
    summ = re.split(r"(?<=[.:;])\s", m["summary"].strip())[0]
    if len(summ) > 170:
        summ = summ[:169] + "…"
    summ = summ.replace("|", "\\|")
    r = mx.get(sid)
    rep = "not run"
    if isinstance(r, dict):
        own = r.get(m["property"], "")
        keys = re.findall(r"\b(R\d\d-[\w-]+?)::", own)
        uniq = []
        for k in keys:
            if k not in uniq:
                uniq.append(k)
        rep = ", ".join(uniq) if own.startswith("exit=1") and uniq else ("**missed**" if own.startswith("exit=0") else own[:40])
        if own.startswith("exit=0"):
            missed.append(sid)
    elif isinstance(r, str):
        rep = r
    elif sid in prev:
        rep = prev[sid]
    rows.append("| %s | %s | %s | %s |" % (sid, files, summ, rep))
txt = "\n".join(rows)
if "--write" in sys.argv:
    p = os.path.join(V, "DESIGN.md")
    s = open(p).read()
    a = s.index("| seed | file(s) | change (first sentence")
    e = s.index("\n\n", a)
    open(p, "w").write(s[:a] + txt + s[e:])
    print("table written:", len(rows) - 2, "rows; missed:", missed)
else:
    print(txt)
    print("missed:", missed, file=sys.stderr)
