#!/usr/bin/env python3
"""(re)generates oracle/refsites.json: the reference-site table (reviewed classification of every ident field of the grammar)"""
import json, os, sys
V = os.path.dirname(os.path.dirname(os.path.abspath(__file__)))
g = json.load(open(os.path.join(V, "oracle/grammar_171.json")))
OBJ = "objects"
R = {}
def ref(k, ns, sentinel=None, this=False): R[k] = {"role": "ref", "ns": ns, "sentinel": sentinel, "this": this}
def df(k, ns): R[k] = {"role": "def", "ns": ns}
def none(k, why): R[k] = {"role": "none", "why": why}
for t in ("AxisPts", "Blob", "Characteristic", "Instance", "Measurement"): df(t + ".name", OBJ)
for t in ("CompuTab", "CompuVtab", "CompuVtabRange"): df(t + ".name", "compu_tabs")
for t in ("TypedefAxis", "TypedefBlob", "TypedefCharacteristic", "TypedefMeasurement", "TypedefStructure"): df(t + ".name", "typedefs")
df("CompuMethod.name", "compu_method"); df("Unit.name", "unit"); df("RecordLayout.name", "record_layout"); df("Function.name", "function")
df("Group.name", "group"); df("Frame.name", "frame"); df("Transformer.name", "transformer"); df("MemorySegment.name", "memory_segment")
df("VarCriterion.name", "var_criterion"); df("UserRights.user_level_id", "user")
ref("AxisDescr.input_quantity", OBJ, "NO_INPUT_QUANTITY"); ref("AxisPts.input_quantity", OBJ, "NO_INPUT_QUANTITY"); ref("TypedefAxis.input_quantity", OBJ, "NO_INPUT_QUANTITY")
for t in ("AxisDescr", "AxisPts", "Characteristic", "Measurement", "TypedefAxis", "TypedefCharacteristic", "TypedefMeasurement"): ref(t + ".conversion", "compu_method", "NO_COMPU_METHOD")
ref("Conversion.name", "compu_method", "NO_COMPU_METHOD")
ref("AxisPtsRef.axis_points", OBJ, None, True); ref("CurveAxisRef.curve_axis", OBJ, None, True)
ref("AxisPts.deposit_record", "record_layout"); ref("Characteristic.deposit", "record_layout"); ref("TypedefAxis.record_layout", "record_layout")
ref("TypedefCharacteristic.record_layout", "record_layout"); ref("SRecLayout.name", "record_layout")
ref("ComparisonQuantity.name", OBJ); ref("InputQuantity.name", OBJ); ref("VarCharacteristic.name", OBJ); ref("VarMeasurement.name", OBJ); ref("VarSelectionCharacteristic.name", OBJ)
for t in ("DefCharacteristic", "FrameMeasurement", "InMeasurement", "LocMeasurement", "OutMeasurement", "RefCharacteristic", "RefMeasurement", "TransformerInObjects", "TransformerOutObjects"):
    ref(t + ".identifier_list", OBJ)
ref("DependentCharacteristic.characteristic_list", OBJ); ref("VirtualCharacteristic.characteristic_list", OBJ); ref("MapList.name_list", OBJ); ref("Virtual.measuring_channel_list", OBJ)
ref("CompuTabRef.conversion_table", "compu_tabs"); ref("StatusStringRef.conversion_table", "compu_tabs")
ref("FunctionList.name_list", "function"); ref("SubFunction.identifier_list", "function"); ref("SubGroup.identifier_list", "group"); ref("RefGroup.identifier_list", "group")
ref("Instance.type_ref", "typedefs"); ref("StructureComponent.component_type", "typedefs")
ref("RefMemorySegment.name", "memory_segment"); ref("RefUnit.unit", "unit"); ref("Transformer.inverse_transformer", "transformer", "NO_INVERSE_TRANSFORMER")
ref("VarCharacteristic.criterion_name_list", "var_criterion"); ref("VarForbiddenComb.combination.criterion_name", "var_criterion")
none("VarForbiddenComb.combination.criterion_value", "a value of the criterion, not an element name")
none("ArPrototypeOf.name", "AUTOSAR component name outside the file"); none("DisplayIdentifier.display_name", "display text"); none("Module.name", "module name")
none("Project.name", "project name"); none("ProjectNo.project_number", "free identifier"); none("StructureComponent.name", "local component name inside the structure")
none("Overwrite.name", "selects a component/axis inside the instantiated type"); none("VarCriterion.value_list", "criterion values")
# universe from the grammar
universe = []
byty = {e["type"]: e for e in g["elements"]}
for e in g["elements"]:
    for p in e["params"]:
        if p["kind"] == "single" and p["type"] == "ident":
            universe.append(e["type"] + "." + p["name"])
        if p["kind"] == "seq":
            ids = [i for i in p["items"] if i["type"] == "ident"]
            if len(p["items"]) == 1 and ids:
                universe.append(e["type"] + "." + p["name"])
            else:
                for i in ids:
                    universe.append(e["type"] + "." + p["name"] + "." + i["name"])
missing = [u for u in universe if u not in R]
extra = [k for k in R if k not in universe]
if missing or extra:
    print("unclassified:", missing, "not in grammar:", extra); sys.exit(1)
# containment paths from Module
paths = {}
def walk(ty, prefix, seen):
    e = byty[ty]
    for p in e["params"]:
        keys = []
        if p["kind"] == "single" and p["type"] == "ident": keys.append((ty + "." + p["name"], [ty + "." + p["name"]]))
        if p["kind"] == "seq":
            ids = [i for i in p["items"] if i["type"] == "ident"]
            if len(p["items"]) == 1 and ids: keys.append((ty + "." + p["name"], [ty + "." + p["name"]]))
            else:
                st = "".join(w.capitalize() for w in p["name"].split("_")) + "Struct"
                for i in ids: keys.append((ty + "." + p["name"] + "." + i["name"], [ty + "." + p["name"], st + "." + i["name"]]))
        for k, segs in keys:
            paths.setdefault(k, []).append(prefix + segs)
    for o in e["opt"]:
        ct = o["type"]
        if ct in seen or ct not in byty: continue
        walk(ct, prefix + [ty + "." + o["field"]], seen | {ct})
walk("Module", [], {"Module"})
out = {"_comment": "reference-site table: every ident field of the grammar classified (def / ref to a namespace / not a reference) and expanded to access paths from Module; generated by tools/mk_refsites.py from a hand-reviewed classification",
       "namespaces": {"objects": ["Module.axis_pts", "Module.blob", "Module.characteristic", "Module.instance", "Module.measurement"],
                      "compu_tabs": ["Module.compu_tab", "Module.compu_vtab", "Module.compu_vtab_range"],
                      "typedefs": ["Module.typedef_axis", "Module.typedef_blob", "Module.typedef_characteristic", "Module.typedef_measurement", "Module.typedef_structure"],
                      "compu_method": ["Module.compu_method"], "unit": ["Module.unit"], "record_layout": ["Module.record_layout"], "function": ["Module.function"],
                      "group": ["Module.group"], "frame": ["Module.frame"], "transformer": ["Module.transformer"], "memory_segment": ["Module.mod_par/ModPar.memory_segment"],
                      "var_criterion": ["Module.variant_coding/VariantCoding.var_criterion"], "user": ["Module.user_rights"]},
       "fields": R, "paths": {k: ["/".join(p) for p in v] for k, v in sorted(paths.items())}}
json.dump(out, open(os.path.join(V, "oracle/refsites.json"), "w"), indent=1)
nref = sum(len(out["paths"].get(k, [])) for k, v in R.items() if v["role"] == "ref")
print("fields", len(R), "ref fields", sum(1 for v in R.values() if v["role"] == "ref"), "ref site paths", nref)
for k, v in R.items():
    if v["role"] == "ref" and k not in out["paths"]: print("no path from Module:", k)
