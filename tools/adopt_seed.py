#!/usr/bin/env python3
"""adopt_seed.py <seedroot> <confirm results.json> <letter offset>: copy confirmed seeded changes into /verif/seeded/<ID><letter>/
   (letter = chr(ord(x) + offset): round 2 uses offset 2, so a,b,c -> c,d,e)."""
import json, os, shutil, sys
V = os.path.dirname(os.path.dirname(os.path.abspath(__file__)))
root, resf, off = sys.argv[1], sys.argv[2], int(sys.argv[3])
res = json.load(open(resf))
for sid, r in sorted(res.items()):
    pid, x = sid.split("/")
    ok = r.get("demo_passes_without_change") and r.get("applies") and r.get("suite_passes_with_change") and r.get("demo_fails_with_change")
    if not ok:
        print("NOT adopted", sid, {k: v for k, v in r.items() if not k.endswith("_out")})
        continue
    d = "%s/%s/out/%s" % (root, pid, x)
    dst = os.path.join(V, "seeded", pid + chr(ord(x) + off))
    if os.path.exists(dst):
        continue
    os.makedirs(dst)
    for f in os.listdir(d):
        if os.path.isfile(os.path.join(d, f)):
            shutil.copy(os.path.join(d, f), dst)
        elif os.path.isdir(os.path.join(d, f)) and f != "target":
            shutil.copytree(os.path.join(d, f), os.path.join(dst, f), ignore=shutil.ignore_patterns("target", "Cargo.lock"))
    meta = json.load(open(os.path.join(dst, "meta.json")))
    meta["confirmed_by_framework_author"] = {k: v for k, v in r.items() if not k.endswith("_out") and k != "done"}
    meta["confirmation_cmd"] = "python3 tools/confirm_seed.py %s  (scratch worktree: demo on clean tree; git apply patch; cargo test --workspace --offline; demo again)" % sid
    meta["origin"] = "independent sub-agent given only the property text and its own scratch worktree (round %d)" % {0: 1, 2: 2, 5: 3, 8: 4, 11: 5, 14: 6, 16: 7, 18: 8, 20: 9}.get(off, 1 + off // 3)
    json.dump(meta, open(os.path.join(dst, "meta.json"), "w"), indent=1)
    print("adopted", sid, "->", os.path.basename(dst))
