#!/bin/sh
# run every claimed quick check on the current tree and validate manifest + evidence
cd "$(dirname "$0")/.."
rc=0
for id in $(python3 -c "import json;print(' '.join(c['property_id'] for c in json.load(open('MANIFEST.json'))['checks']))"); do
  python3 bin/vcheck $id --tier ${1:-quick} > /tmp/vcheck_$id.out 2>&1; e=$?
  tail -1 /tmp/vcheck_$id.out
  [ $e -ne 0 ] && { rc=1; grep -E "VIOLATION|NO VERDICT|Traceback" -A3 /tmp/vcheck_$id.out | head -20; }
done
python3-vt - <<'PY'
import json,jsonschema,glob
jsonschema.validate(json.load(open('MANIFEST.json')),json.load(open('/root/.vp/MANIFEST.schema.json')))
s=json.load(open('/root/.vp/EVIDENCE.schema.json'))
for c in json.load(open('MANIFEST.json'))['checks']:
    jsonschema.validate(json.load(open(c['evidence_file'])),s)
print("manifest + evidence valid")
PY
exit $rc
