#![allow(dead_code)]
pub(crate) mod a2lspec;
pub(crate) mod a2mlspec;
pub(crate) mod codegenerator;
pub(crate) mod util;

use proc_macro2::{TokenStream, TokenTree};
use quote::ToTokens;
use std::collections::BTreeMap;
use std::str::FromStr;
use syn::visit_mut::{self, VisitMut};
use syn::visit::{self, Visit};

struct UsesIdent<'a>(&'a str, bool);
impl<'ast, 'a> Visit<'ast> for UsesIdent<'a> {
    fn visit_ident(&mut self, i: &'ast proc_macro2::Ident) { if i == self.0 { self.1 = true; } }
    fn visit_macro(&mut self, m: &'ast syn::Macro) {
        for t in m.tokens.clone() { if tok_has(&t, self.0) { self.1 = true; } }
        visit::visit_macro(self, m);
    }
}
fn tok_has(t: &TokenTree, name: &str) -> bool {
    match t { TokenTree::Ident(i) => i == name, TokenTree::Group(g) => g.stream().into_iter().any(|x| tok_has(&x, name)), _ => false }
}

struct Canon;
impl VisitMut for Canon {
    fn visit_attributes_mut(&mut self, attrs: &mut Vec<syn::Attribute>) {
        attrs.retain(|a| !a.path().is_ident("doc"));
        for a in attrs.iter_mut() {
            if a.path().is_ident("derive") {
                // sort derive list
                if let syn::Meta::List(ml) = &mut a.meta {
                    let mut names: Vec<String> = ml.tokens.to_string().split(',').map(|s| s.trim().to_string()).filter(|s| !s.is_empty()).collect();
                    names.sort();
                    ml.tokens = TokenStream::from_str(&names.join(", ")).unwrap();
                }
            }
        }
    }
    fn visit_expr_mut(&mut self, e: &mut syn::Expr) {
        visit_mut::visit_expr_mut(self, e);
        loop {
            match e {
                // N3: redundant parens
                syn::Expr::Paren(p) => { let inner = (*p.expr).clone(); *e = inner; continue; }
                // N7: x.len() == 0  ->  x.is_empty()
                syn::Expr::Binary(b) if matches!(b.op, syn::BinOp::Eq(_)) => {
                    if let (syn::Expr::MethodCall(mc), syn::Expr::Lit(l)) = (&*b.left, &*b.right) {
                        if mc.method == "len" && mc.args.is_empty() && l.to_token_stream().to_string() == "0" {
                            let recv = &mc.receiver;
                            *e = syn::parse_quote!(#recv.is_empty());
                            continue;
                        }
                    }
                    break;
                }
                // N9: (*E).field -> E.field
                syn::Expr::Field(f) => {
                    if let syn::Expr::Unary(u) = &*f.base {
                        if matches!(u.op, syn::UnOp::Deref(_)) { let inner = (*u.expr).clone(); f.base = Box::new(inner); continue; }
                    }
                    break;
                }
                // N5: &seqitemN -> seqitemN
                syn::Expr::Reference(r) if r.mutability.is_none() => {
                    if let syn::Expr::Path(p) = &*r.expr {
                        if let Some(id) = p.path.get_ident() {
                            if id.to_string().starts_with("seqitem") { let inner = (*r.expr).clone(); *e = inner; continue; }
                        }
                    }
                    break;
                }
                _ => break,
            }
        }
    }
    fn visit_arm_mut(&mut self, a: &mut syn::Arm) {
        visit_mut::visit_arm_mut(self, a);
        // N2: { expr } -> expr
        if let syn::Expr::Block(b) = &*a.body {
            if b.attrs.is_empty() && b.label.is_none() && b.block.stmts.len() == 1 {
                if let syn::Stmt::Expr(inner, None) = &b.block.stmts[0] {
                    let inner = inner.clone();
                    a.body = Box::new(inner);
                }
            }
        }
        a.comma = Some(Default::default());
    }
    fn visit_expr_for_loop_mut(&mut self, f: &mut syn::ExprForLoop) {
        visit_mut::visit_expr_for_loop_mut(self, f);
        // N6: for (i, x) in E.iter().enumerate() with i unused -> for x in &E
        if let syn::Pat::Tuple(pt) = &*f.pat {
            if pt.elems.len() == 2 {
                if let (syn::Pat::Ident(i), x) = (&pt.elems[0], &pt.elems[1]) {
                    let mut u = UsesIdent(&i.ident.to_string(), false);
                    u.visit_block(&f.body);
                    if !u.1 {
                        if let syn::Expr::MethodCall(en) = &*f.expr {
                            if en.method == "enumerate" {
                                if let syn::Expr::MethodCall(it) = &*en.receiver {
                                    if it.method == "iter" {
                                        let recv = (*it.receiver).clone();
                                        let x = x.clone();
                                        f.pat = Box::new(x);
                                        f.expr = Box::new(syn::parse_quote!(&#recv));
                                    }
                                }
                            }
                        }
                    }
                }
            }
        }
    }
    fn visit_block_mut(&mut self, b: &mut syn::Block) {
        visit_mut::visit_block_mut(self, b);
        // N8: unused `const TAG_LIST` in this block
        let mut remove = None;
        for (idx, s) in b.stmts.iter().enumerate() {
            if let syn::Stmt::Item(syn::Item::Const(c)) = s {
                let name = c.ident.to_string();
                let mut u = UsesIdent(&name, false);
                for (j, s2) in b.stmts.iter().enumerate() { if j != idx { u.visit_stmt(s2); } }
                if !u.1 { remove = Some(idx); }
            }
        }
        if let Some(i) = remove { b.stmts.remove(i); }
    }
}

fn item_key(it: &syn::Item) -> Option<String> {
    Some(match it {
        syn::Item::Struct(s) => format!("struct {}", s.ident),
        syn::Item::Enum(s) => format!("enum {}", s.ident),
        syn::Item::Trait(s) => format!("trait {}", s.ident),
        syn::Item::Impl(i) => {
            let ty = i.self_ty.to_token_stream().to_string();
            let tr = i.trait_.as_ref().map(|t| t.1.to_token_stream().to_string()).unwrap_or_default();
            let fns: Vec<String> = i.items.iter().filter_map(|x| if let syn::ImplItem::Fn(f) = x { Some(f.sig.ident.to_string()) } else { None }).collect();
            format!("impl {} for {} [{}]", tr.replace(", )", ")").replace(",)", ")"), ty, fns.join(","))
        }
        syn::Item::Use(_) => return None,
        syn::Item::Mod(m) => { if m.attrs.iter().any(|a| a.to_token_stream().to_string().contains("cfg (test)")) { return None; } format!("mod {}", m.ident) }
        syn::Item::Macro(m) => format!("macro {}", m.mac.path.to_token_stream()),
        other => format!("other {}", other.to_token_stream().to_string().chars().take(40).collect::<String>()),
    })
}

fn canon_items(mut f: syn::File) -> BTreeMap<String, Vec<String>> {
    f.attrs.clear();
    Canon.visit_file_mut(&mut f);
    let mut m = BTreeMap::new();
    for it in &f.items {
        if let Some(k) = item_key(it) {
            let toks: Vec<String> = flat(it.to_token_stream());
            m.entry(k).or_insert_with(Vec::new).extend(toks);
        }
    }
    m
}
fn flat(ts: TokenStream) -> Vec<String> {
    let mut out = Vec::new();
    for t in ts { match t { TokenTree::Group(g) => { out.push(format!("{:?}(", g.delimiter())); out.extend(flat(g.stream())); out.push(")".into()); } t => out.push(t.to_string()) } }
    // drop trailing commas
    let mut res: Vec<String> = Vec::new();
    for (i, x) in out.iter().enumerate() { if x == "," && out.get(i+1).map(|s| s == ")").unwrap_or(true) { continue; } res.push(x.clone()); }
    res
}

fn main() {
    let orig = std::fs::read_to_string("/repo/a2lfile/src/specification_orig.rs").unwrap();
    let ts = TokenStream::from_str(&orig).unwrap();
    let toks: Vec<TokenTree> = ts.into_iter().collect();
    let mut out = TokenStream::new();
    let mut i = 0;
    let mut found = 0;
    while i < toks.len() {
        if let TokenTree::Ident(id) = &toks[i] {
            if id == "a2l_specification" {
                if let (Some(TokenTree::Punct(p)), Some(TokenTree::Group(g))) = (toks.get(i+1), toks.get(i+2)) {
                    if p.as_char() == '!' { out.extend(a2lspec::a2l_specification(g.stream())); found += 1; i += 3; continue; }
                }
            }
        }
        out.extend(std::iter::once(toks[i].clone()));
        i += 1;
    }
    assert_eq!(found, 1);
    let fresh: syn::File = syn::parse2(out).expect("fresh expansion does not parse");
    let shipped: syn::File = syn::parse_file(&std::fs::read_to_string("/repo/a2lfile/src/specification.rs").unwrap()).unwrap();
    let a = canon_items(fresh);
    let b = canon_items(shipped);
    let mut ndiff = 0;
    for (k, v) in &a {
        match b.get(k) {
            None => { ndiff += 1; println!("ONLY-FRESH {k}"); }
            Some(w) => if v != w {
                ndiff += 1;
                let p = v.iter().zip(w.iter()).position(|(x, y)| x != y).unwrap_or(v.len().min(w.len()));
                println!("DIFF {k} at {p}: fresh [{}] shipped [{}]", v[p.saturating_sub(6)..(p+6).min(v.len())].join(" "), w[p.saturating_sub(6)..(p+6).min(w.len())].join(" "));
            }
        }
    }
    for k in b.keys() { if !a.contains_key(k) { ndiff += 1; println!("ONLY-SHIPPED {k}"); } }
    println!("items fresh {} shipped {} differing {}", a.len(), b.len(), ndiff);
}
