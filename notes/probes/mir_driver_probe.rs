#![feature(rustc_private)]
extern crate rustc_driver;
extern crate rustc_interface;
extern crate rustc_middle;
extern crate rustc_hir;
extern crate rustc_span;

use rustc_driver::Compilation;
use rustc_interface::interface::Compiler;
use rustc_middle::ty::TyCtxt;
use rustc_middle::mir::{TerminatorKind};

struct Cb;
impl rustc_driver::Callbacks for Cb {
    fn after_analysis<'tcx>(&mut self, _c: &Compiler, tcx: TyCtxt<'tcx>) -> Compilation {
        let mut nbodies = 0; let mut nassert = 0; let mut ncalls = 0;
        for def_id in tcx.mir_keys(()) {
            let did = def_id.to_def_id();
            let kind = tcx.def_kind(did);
            use rustc_hir::def::DefKind;
            if !matches!(kind, DefKind::Fn | DefKind::AssocFn | DefKind::Closure) { continue; }
            let body = tcx.optimized_mir(did);
            nbodies += 1;
            for bb in body.basic_blocks.iter() {
                match &bb.terminator().kind {
                    TerminatorKind::Assert { msg, .. } => { nassert += 1; let sp = tcx.sess.source_map().span_to_filename(bb.terminator().source_info.span); eprintln!("ASSERT\t{}\t{:?}\t{}\t{:?}", tcx.def_path_str(did), sp, bb.terminator().source_info.span.from_expansion(), msg); }
                    TerminatorKind::Call { func, .. } => { ncalls += 1; if let Some((cd, args)) = func.const_fn_def() { let env = rustc_middle::ty::TypingEnv::post_analysis(tcx, did); let tgt = match rustc_middle::ty::Instance::try_resolve(tcx, env, cd, args) { Ok(Some(inst)) => tcx.def_path_str(inst.def_id()), _ => format!("?{}", tcx.def_path_str(cd)) }; eprintln!("EDGE	{}	{}", tcx.def_path_str(did), tgt); } }
                    _ => {}
                }
            }
        }
        eprintln!("crate {} bodies {} asserts {} calls {}", tcx.crate_name(rustc_span::def_id::LOCAL_CRATE), nbodies, nassert, ncalls);
        Compilation::Continue
    }
}

fn main() {
    let mut args: Vec<String> = std::env::args().collect();
    // RUSTC_WORKSPACE_WRAPPER: argv[1] is the rustc path
    args.remove(1);
    args.insert(0, "rustc".to_string());
    let args: Vec<String> = args.into_iter().skip(1).collect();
    rustc_driver::run_compiler(&args, &mut Cb);
}
