use a2lfile::*;
fn main() {
    let dir = std::env::temp_dir().join("exp2inc2"); std::fs::create_dir_all(&dir).unwrap();
    let main = dir.join("main.a2l");
    let inc = dir.join("inc.a2l");
    std::fs::write(&main, r#"ASAP2_VERSION 1 71
/begin PROJECT p ""
/begin MODULE m ""
/begin A2ML
block "IF_DATA" taggedunion {
  "X" (struct { int; taggedstruct { "T" int; }; })*;
};
/end A2ML
/include inc.a2l
/end MODULE
/end PROJECT
"#).unwrap();
    std::fs::write(&inc, r#"/begin IF_DATA X 1 T 5 2 T 6 /end IF_DATA
"#).unwrap();
    let (mut f, log) = load(&main, None, false).unwrap();
    println!("warnings {}", log.len());
    println!("valid {}", f.project.module[0].if_data[0].ifdata_valid);
    println!("--- before merge_includes\n{}", f.write_to_string());
    f.merge_includes();
    let out = f.write_to_string();
    println!("--- after merge_includes\n{}", out);
    match load_from_string(&out, None, false) { Ok((g,_)) => println!("reload eq={}", g==f), Err(e)=>println!("reload err {e}") }
}
