// reference invocation of a2ml_specification! that uses every A2ML construct (R19-text / R19-typecheck)
a2ml_specification! {
    <FullSpec>

    struct Protocol {
        uint version;  /// protocol version
        uchar flags;
        char vendor[32];
    };

    enum Mode {
        "OFF" = 0, /// switched off
        "ON" = 1, /// switched on
        "AUTO" /// decided by the ECU
    };

    taggedstruct Timing {
        "T1" uint t1;
        "T2" ulong t2;
        ("EVENT" struct Event { uint channel; long offset; })*;
        (block "SEGMENT" struct Segment {
            ulong address;
            uint64 length;
            taggedstruct {
                "CHECKSUM" enum { "CRC16" = 1, "CRC32" = 2 } checksum_kind;
            } seg_options;
        })*;
    };

    taggedunion Transport {
        "CAN" struct { ulong id; uchar dlc; };
        "ETH" struct { char host[16]; uint port; };
        block "USB" struct { uchar interface; };
    };

    block "IF_DATA" taggedunion if_data {
        "XCPLIKE" struct XcpLike {
            struct Protocol proto;
            enum Mode mode;
            taggedstruct Timing timing;
            taggedunion Transport transport;
            int64 big;
            double factor;
            float coarse;
            int small;
            char tiny;
            long arr[4];
            taggedstruct {
                block "OPTIONAL" taggedstruct {
                    "A" ;
                    "B" char name[20];
                    block "C" (struct CItem { uint value; })*;
                };
            } opts;
        };
        block "RAW" (struct RawItem { uchar data; float scale; })*;
        "EMPTY" ;
    };
}
