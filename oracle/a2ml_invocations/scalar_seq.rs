// verif: no-typecheck
// sequences of scalars: valid A2ML, used for the text rule only.  The in-tree generator emits a store() for them that does
// not type-check (`&0` where `&(u32, bool)` is needed, `&u8` where `u8` is needed), see DESIGN.md "observations outside the properties"
a2ml_specification! {
    <ScalarSeq>

    block "IF_DATA" taggedunion if_data {
        block "RAW" (uchar data)*;
        "WORDS" (uint value)*;
    };
}
