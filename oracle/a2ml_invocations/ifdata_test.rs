    a2ml_specification! {
        <A2mlTest>

        block "IF_DATA" taggedunion if_data {
            "CHAR" char a;
            "INT" int b;
            "LONG" long c;
            "INT64" int64 d;
            "UCHAR" uchar e;
            "UINT" uint64 f;
            "ULONG" ulong g;
            "UINT64" uint64 h;
            "DOUBLE" double i;
            "FLOAT" float j;
            "STRUCT" struct structname {
                char[256];
                int;
            };
            block "BLOCK" taggedstruct tagged_struct {
                "TAG1" int intval;
            };
            "ENUM" enum EnumTest {
                "ENUMVAL1" = 1,
                "ENUMVAL2"
            } named_enum;
            "ARRAY" uint arr[3];
            block "SEQUENCE" (char[256] name)*;
            "NONE";
        };
    }
