// demonstration for the fixed C19 finding (commit b57ac1a in /repo).  Build as a bin crate that depends on a2lfile by path and
// replaces a2lmacros by the in-tree crate ([patch.crates-io] a2lmacros = { path = "/repo/a2lmacros" }, then
// `cargo update -p a2lmacros --offline`).  Before the fix: panic "index out of bounds: the len is 2 but the index is 2";
// after the fix: prints "loaded: false".
use a2lfile::*;
a2ml_specification! {
    <Spec>
    block "IF_DATA" taggedunion if_data {
        "ARR" struct Arr {
            long arr[4];
        };
    };
}
fn main() {
    let text = r#"ASAP2_VERSION 1 71
/begin PROJECT p ""
  /begin MODULE m ""
    /begin A2ML
      block "IF_DATA" taggedunion if_data {
        "ARR" struct { long[2]; };
      };
    /end A2ML
    /begin IF_DATA ARR 1 2
    /end IF_DATA
  /end MODULE
/end PROJECT
"#;
    let (file, _log) = a2lfile::load_from_string(text, None, false).unwrap();
    let ifdata = &file.project.module[0].if_data[0];
    let r = Spec::load_from_ifdata(ifdata);
    println!("loaded: {}", r.is_some());
}
