fn main() {
    let t = "ASAP2_VERSION 1 71\n/begin PROJECT p \"\"\n  /begin MODULE m \"\"\n    /begin IF_DATA X\n      /begin A2ML\"/end A2ML\n    /end IF_DATA\n  /end MODULE\n/end PROJECT\n";
    let r = a2lfile::load_from_string(t, None, false);
    println!("{:?}", r.is_ok());
}
