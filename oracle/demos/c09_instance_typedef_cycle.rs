// C09: INSTANCE compared before its TYPEDEF reference is rewritten (objects <-> typedefs cycle in merge_objects)
use a2lfile::A2lObjectName;
fn main() {
    let a = r#"ASAP2_VERSION 1 71
/begin PROJECT p ""
  /begin MODULE m ""
    /begin TYPEDEF_STRUCTURE T "" 4
    /end TYPEDEF_STRUCTURE
    /begin INSTANCE I "" T 0x100
    /end INSTANCE
  /end MODULE
/end PROJECT
"#;
    let b = a.replace("T \"\" 4", "T \"\" 8");
    let mut fa = a2lfile::load_from_string(a, None, true).unwrap().0;
    let mut fb = a2lfile::load_from_string(&b, None, true).unwrap().0;
    // in B the instance I designates the 8-byte structure
    fa.merge_modules(&mut fb);
    let m = &fa.project.module[0];
    for t in &m.typedef_structure {
        println!("TYPEDEF_STRUCTURE {} size {}", t.get_name(), t.total_size);
    }
    for i in &m.instance {
        println!("INSTANCE {} -> {}", i.get_name(), i.type_ref);
    }
    // B's instance I is represented by the shared INSTANCE I; its target from B is represented by T.MERGE (size 8)
    let target = m.typedef_structure.iter().find(|t| t.total_size == 8).unwrap().get_name().to_string();
    let refs: Vec<_> = m.instance.iter().map(|i| i.type_ref.clone()).collect();
    assert!(refs.contains(&target), "no INSTANCE refers to {target}: B's instance now silently designates the 4-byte structure");
}
