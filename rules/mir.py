"""MIR fact model: bodies, call graph (A1), CFG utilities / dominators (A4)."""
import re
from . import common


class Body:
    def __init__(self, j):
        self.j = j
        self.id = j["id"]
        self.file = j["file"]
        self.line = j["line"]
        self.kind = j["kind"]
        self.vis = j["vis"]
        self.parent = j["parent"]
        self.argc = j["argc"]
        self.locals = j["locals"]
        self.blocks = j["blocks"]
        self.trait_item = j["trait_item"]
        self.impl_of = j["impl_of"]
        self.sig = j["sig"]
        self._succ = None
        self._dom = None

    # ---- naming
    def local_name(self, i):
        n = self.locals[i]["n"]
        return n if n else "_%d" % i

    def where(self, ln=None):
        return "%s:%s (%s)" % (self.file, ln if ln is not None else self.line, self.id)

    # ---- CFG (normal edges only; cleanup blocks are unreachable through them)
    def succ(self):
        if self._succ is None:
            s = []
            for b in self.blocks:
                t = b["t"]
                k = t["k"]
                if k == "goto":
                    s.append([t["t"]])
                elif k == "switch":
                    out = []
                    for _, x in t["ts"]:
                        if x not in out:
                            out.append(x)
                    if t["o"] not in out:
                        out.append(t["o"])
                    s.append(out)
                elif k in ("call",):
                    s.append([t["t"]] if t["t"] is not None else [])
                elif k in ("assert", "drop"):
                    s.append([t["t"]])
                else:
                    s.append([])
            # edges into `unreachable` blocks (otherwise-arms of exhaustive matches) are never taken
            dead = {i for i, b in enumerate(self.blocks) if b["t"]["k"] == "unreachable" and not b["s"]}
            if dead:
                s = [[x for x in ss if x not in dead] for ss in s]
            self._succ = s
        return self._succ

    def preds(self):
        p = [[] for _ in self.blocks]
        for i, ss in enumerate(self.succ()):
            for x in ss:
                p[x].append(i)
        return p

    def reachable(self, start=0):
        seen = {start}
        st = [start]
        s = self.succ()
        while st:
            x = st.pop()
            for y in s[x]:
                if y not in seen:
                    seen.add(y)
                    st.append(y)
        return seen

    def rpo(self):
        s = self.succ()
        seen = set()
        order = []
        st = [(0, 0)]
        seen.add(0)
        while st:
            n, i = st[-1]
            if i < len(s[n]):
                st[-1] = (n, i + 1)
                m = s[n][i]
                if m not in seen:
                    seen.add(m)
                    st.append((m, 0))
            else:
                order.append(n)
                st.pop()
        order.reverse()
        return order

    def dominators(self):
        """immediate dominators (Cooper/Harvey/Kennedy); returns dict block -> idom (entry -> entry)"""
        if self._dom is not None:
            return self._dom
        order = self.rpo()
        idx = {b: i for i, b in enumerate(order)}
        preds = self.preds()
        idom = {0: 0}
        changed = True
        while changed:
            changed = False
            for b in order[1:]:
                new = None
                for p in preds[b]:
                    if p in idom:
                        if new is None:
                            new = p
                        else:
                            a, c = p, new
                            while a != c:
                                while idx[a] > idx[c]:
                                    a = idom[a]
                                while idx[c] > idx[a]:
                                    c = idom[c]
                            new = a
                if new is not None and idom.get(b) != new:
                    idom[b] = new
                    changed = True
        self._dom = idom
        return idom

    def dominates(self, a, b):
        idom = self.dominators()
        if b not in idom:
            return False
        while True:
            if a == b:
                return True
            if b == 0:
                return False
            b = idom[b]

    def back_edges(self):
        out = []
        for i, ss in enumerate(self.succ()):
            for x in ss:
                if self.dominates(x, i):
                    out.append((i, x))
        return out

    def natural_loops(self):
        """dict head -> set of blocks"""
        preds = self.preds()
        loops = {}
        for (tail, head) in self.back_edges():
            body = loops.setdefault(head, {head})
            st = [tail]
            while st:
                x = st.pop()
                if x not in body:
                    body.add(x)
                    st.extend(preds[x])
        return loops

    def postdominators(self):
        """immediate post-dominators w.r.t. a virtual exit joined to all return blocks (and other blocks without normal successors).
        returns dict block -> ipdom (virtual exit = -1)"""
        if getattr(self, "_pdom", None) is not None:
            return self._pdom
        succ = self.succ()
        n = len(self.blocks)
        reach = self.reachable()
        exits = [i for i in reach if not succ[i]]
        rsucc = {i: [] for i in reach}   # reverse graph successors = CFG predecessors
        rsucc[-1] = list(exits)
        for i in reach:
            for y in succ[i]:
                if y in reach:
                    rsucc.setdefault(y, []).append(i)
        # rpo on reverse graph from -1
        seen = {-1}
        order = []
        st = [(-1, 0)]
        while st:
            x, k = st[-1]
            if k < len(rsucc.get(x, [])):
                st[-1] = (x, k + 1)
                y = rsucc[x][k]
                if y not in seen:
                    seen.add(y)
                    st.append((y, 0))
            else:
                order.append(x)
                st.pop()
        order.reverse()
        idx = {b: i for i, b in enumerate(order)}
        rpred = {}
        for x, ys in rsucc.items():
            for y in ys:
                rpred.setdefault(y, []).append(x)
        idom = {-1: -1}
        changed = True
        while changed:
            changed = False
            for b in order[1:]:
                new = None
                for p in rpred.get(b, []):
                    if p in idom:
                        if new is None:
                            new = p
                        else:
                            a, c = p, new
                            while a != c:
                                while idx[a] > idx[c]:
                                    a = idom[a]
                                while idx[c] > idx[a]:
                                    c = idom[c]
                            new = a
                if new is not None and idom.get(b) != new:
                    idom[b] = new
                    changed = True
        self._pdom = idom
        return idom

    def postdominates(self, a, b):
        """a post-dominates b (reflexive)"""
        pd = self.postdominators()
        if b not in pd:
            return False
        while True:
            if a == b:
                return True
            if b == -1:
                return False
            b = pd[b]

    def control_deps(self, w):
        """switch blocks the execution of block w is control dependent on: list of (switch block, successor taken)"""
        out = []
        succ = self.succ()
        for s, blk in enumerate(self.blocks):
            if blk["t"]["k"] != "switch" or blk["cleanup"]:
                continue
            if self.postdominates(w, s) and w != s:
                continue
            for x in succ[s]:
                if self.postdominates(w, x):
                    out.append((s, x))
        return out

    def control_deps_closure(self, w):
        """transitive control dependences of block w"""
        out = []
        seen = set()
        work = [w]
        while work:
            x = work.pop()
            for (sb, succ_taken) in self.control_deps(x):
                if (sb, succ_taken) not in seen:
                    seen.add((sb, succ_taken))
                    out.append((sb, succ_taken))
                    work.append(sb)
        return out

    def return_blocks(self):
        return [i for i, b in enumerate(self.blocks) if b["t"]["k"] == "return" and not b["cleanup"]]

    def path_avoiding(self, starts, avoid, goals):
        """is there a CFG path from any block in `starts` to any block in `goals` that enters no block of `avoid`?
        (starts themselves are not tested against avoid).  Returns the path (list of blocks) or None."""
        succ = self.succ()
        avoid = set(avoid)
        goals = set(goals)
        prev = {}
        st = []
        for s0 in starts:
            if s0 not in prev:
                prev[s0] = None
                st.append(s0)
        while st:
            x = st.pop()
            if x in goals:
                path = [x]
                while prev[path[-1]] is not None:
                    path.append(prev[path[-1]])
                return list(reversed(path))
            for y in succ[x]:
                if y in prev or y in avoid:
                    continue
                prev[y] = x
                st.append(y)
        return None

    # ---- iteration helpers
    def calls(self):
        for bi, b in enumerate(self.blocks):
            t = b["t"]
            if t["k"] == "call":
                yield bi, t

    def stmts(self):
        for bi, b in enumerate(self.blocks):
            for si, s in enumerate(b["s"]):
                yield bi, si, s


def callee_name(t):
    """resolved callee def path of a call terminator ('?' prefix = unresolved trait method)"""
    r = t.get("res")
    if r is None:
        return None
    return r


def strip_generics(name):
    """itemlist::ItemList::<T>::push -> itemlist::ItemList::push ; std::vec::Vec::<T, A>::push -> std::vec::Vec::push"""
    out = []
    depth = 0
    i = 0
    while i < len(name):
        c = name[i]
        if c == "<":
            # keep leading '<' of qualified paths  <X as Y>::f
            if i == 0 or name[i - 1] in " (,&":
                out.append(c)
            else:
                depth += 1
                # drop a preceding '::' (turbofish)
                if len(out) >= 2 and out[-1] == ":" and out[-2] == ":":
                    out.pop(); out.pop()
                j = i + 1
                d = 1
                while j < len(name) and d:
                    if name[j] == "<":
                        d += 1
                    elif name[j] == ">":
                        if name[j - 1] != "-":
                            d -= 1
                    j += 1
                i = j
                depth -= 1
                continue
        else:
            out.append(c)
        i += 1
    return "".join(out)


class Prog:
    def __init__(self, tag="default"):
        facts = common.mir_facts(tag)
        self.bodies = {}
        for j in facts["bodies"]:
            self.bodies[j["id"]] = Body(j)
        self.adts = {a["id"]: a for a in facts["adts"]}
        self._cg = None
        self.trait_impls = {}
        for b in self.bodies.values():
            if b.trait_item:
                self.trait_impls.setdefault(b.trait_item, []).append(b.id)

    def body(self, fid):
        return self.bodies.get(fid)

    def find(self, pattern):
        """bodies whose id matches the regex (fullmatch)"""
        rx = re.compile(pattern)
        return [b for b in self.bodies.values() if rx.fullmatch(b.id)]

    def one(self, fid):
        b = self.bodies.get(fid)
        if b is None:
            raise MissingAnchor(fid)
        return b

    def callgraph(self):
        """dict caller -> set(callee ids that are local bodies).  Unresolved trait-method calls are
        over-approximated by all local impls of that trait method; closures are attached to the function
        that constructs them."""
        if self._cg is not None:
            return self._cg
        cg = {fid: set() for fid in self.bodies}
        ext = {fid: set() for fid in self.bodies}
        for fid, b in self.bodies.items():
            for bi, t in b.calls():
                r = t.get("res")
                if r is None:
                    continue
                if r.startswith("?"):
                    tm = r[1:]
                    for impl in self.trait_impls.get(tm, []):
                        cg[fid].add(impl)
                    ext[fid].add(r)
                elif r in self.bodies:
                    cg[fid].add(r)
                else:
                    ext[fid].add(r)
                # function items passed as arguments (e.g. .map(Self::foo))
                for a in t["args"]:
                    if "k" in a and a.get("res") and a["res"] in self.bodies:
                        cg[fid].add(a["res"])
            for bi, si, s in b.stmts():
                if s["k"] == "assign":
                    rv = s["rv"]
                    if rv["r"] == "agg" and rv.get("kind") == "closure" and rv["cl"] in self.bodies:
                        cg[fid].add(rv["cl"])
                    # fn items used as values
                    for op in operands_of_rvalue(rv):
                        if "k" in op and op.get("res") and op["res"] in self.bodies:
                            cg[fid].add(op["res"])
        self._cg = cg
        self._ext = ext
        return cg

    def external_calls(self, fid):
        self.callgraph()
        return self._ext[fid]

    def reachable(self, roots):
        cg = self.callgraph()
        seen = set()
        st = [r for r in roots if r in cg]
        seen.update(st)
        while st:
            x = st.pop()
            for y in cg[x]:
                if y not in seen:
                    seen.add(y)
                    st.append(y)
        return seen

    def sccs(self, nodes=None):
        """recursive SCCs (size>1 or self loop) of the call graph restricted to nodes"""
        cg = self.callgraph()
        nodes = set(cg) if nodes is None else set(nodes)
        index = {}
        low = {}
        onst = set()
        st = []
        out = []
        counter = [0]
        for root in sorted(nodes):
            if root in index:
                continue
            work = [(root, iter(sorted(y for y in cg[root] if y in nodes)))]
            index[root] = low[root] = counter[0]
            counter[0] += 1
            st.append(root)
            onst.add(root)
            while work:
                v, it = work[-1]
                adv = False
                for w in it:
                    if w not in index:
                        index[w] = low[w] = counter[0]
                        counter[0] += 1
                        st.append(w)
                        onst.add(w)
                        work.append((w, iter(sorted(y for y in cg[w] if y in nodes))))
                        adv = True
                        break
                    elif w in onst:
                        low[v] = min(low[v], index[w])
                if adv:
                    continue
                work.pop()
                if work:
                    u = work[-1][0]
                    low[u] = min(low[u], low[v])
                if low[v] == index[v]:
                    comp = []
                    while True:
                        w = st.pop()
                        onst.discard(w)
                        comp.append(w)
                        if w == v:
                            break
                    if len(comp) > 1 or v in cg[v]:
                        out.append(sorted(comp))
        return out


class MissingAnchor(Exception):
    pass


def operands_of_rvalue(rv):
    r = rv["r"]
    if r in ("use", "repeat", "cast", "un"):
        return [rv["a"]]
    if r == "bin":
        return [rv["a"], rv["b"]]
    if r == "agg":
        return rv["ops"]
    return []


def op_place(op):
    if "c" in op:
        return op["c"]
    if "m" in op:
        return op["m"]
    return None


def const_str(op):
    """string literal value of a constant operand  (const "abc") else None"""
    if "k" in op:
        k = op["k"]
        m = re.fullmatch(r'(?:const )?"(.*)"', k, re.S)
        if m:
            return m.group(1)
    return None


def const_int(op):
    if "k" in op:
        m = re.fullmatch(r"(?:const )?(-?\d+)(?:_?[iu](?:8|16|32|64|128|size))?", op["k"])
        if m:
            return int(m.group(1))
        if op["k"] in ("usize::MAX", "u64::MAX"):
            return (1 << 64) - 1
        if op["k"] == "u32::MAX":
            return (1 << 32) - 1
    return None


_prog = {}


def prog(tag="default"):
    if tag not in _prog:
        _prog[tag] = Prog(tag)
    return _prog[tag]
