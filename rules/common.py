"""Shared framework of the rule layer: fact cache, reports, evidence, known findings.

Python 3 standard library only.  Nothing in here (or in any rule) runs a2lfile code on
any A2L input: facts come from the rustc_private MIR exporter (engines/mirfacts) and the
syn based extractor (engines/specscan)."""
import fcntl
import hashlib
import json
import os
import shutil
import subprocess
import sys
import time

VERIF = os.path.dirname(os.path.dirname(os.path.abspath(__file__)))
REPO = os.environ.get("VERIF_REPO", "/repo")
CACHE = os.environ.get("VERIF_CACHE") or os.path.join(VERIF, ".cache")
OUT = os.environ.get("VERIF_OUT") or VERIF      # evidence/ and reports/ live here (the self-test redirects its mutant runs)
MIRFACTS = os.path.join(VERIF, "engines/mirfacts/target/release/mirfacts")
SPECSCAN_DIR = os.path.join(VERIF, "engines/specscan")
SPECSCAN = os.path.join(SPECSCAN_DIR, "target/release/specscan")   # legacy location; see specscan_bin()
ENGINE_VERSION = "5"

SRC_FILES = [
    "a2ml.rs", "checker.rs", "cleanup.rs", "ifdata.rs", "itemlist.rs", "lib.rs", "loader.rs",
    "merge.rs", "module.rs", "parser.rs", "sort.rs", "specification.rs", "tokenizer.rs",
    "writer.rs", "cleanup/compu_methods.rs", "cleanup/functions.rs", "cleanup/groups.rs",
    "cleanup/record_layouts.rs",
]


class EngineFailure(Exception):
    """the tree does not build / an extractor failed: no verdict (exit code 2)"""


def _walk(root):
    out = []
    for d, dirs, files in os.walk(root):
        dirs.sort()
        for f in sorted(files):
            out.append(os.path.join(d, f))
    return out


def tree_hash():
    h = hashlib.sha256()
    h.update(ENGINE_VERSION.encode())
    paths = []
    for sub in ("a2lfile/src", "a2lmacros/src"):
        paths += _walk(os.path.join(REPO, sub))
    for f in ("Cargo.toml", "Cargo.lock", "a2lfile/Cargo.toml", "a2lmacros/Cargo.toml"):
        paths.append(os.path.join(REPO, f))
    for extra in ("engines/mirfacts/src/main.rs", "engines/specscan/src/main.rs",
                  "engines/specscan/src/ast.rs", "engines/specscan/src/canon.rs"):
        paths.append(os.path.join(VERIF, extra))
    for p in paths:
        h.update(p.encode())
        try:
            with open(p, "rb") as fh:
                h.update(fh.read())
        except OSError:
            h.update(b"<missing>")
    return h.hexdigest()[:20]


class Lock:
    def __init__(self, name):
        os.makedirs(CACHE, exist_ok=True)
        self.path = os.path.join(CACHE, name + ".lock")

    def __enter__(self):
        self.fh = open(self.path, "w")
        fcntl.flock(self.fh, fcntl.LOCK_EX)
        return self

    def __exit__(self, *a):
        fcntl.flock(self.fh, fcntl.LOCK_UN)
        self.fh.close()


def _run(cmd, cwd=None, env=None, what=""):
    e = dict(os.environ)
    e["CARGO_NET_OFFLINE"] = "true"
    if env:
        e.update(env)
    p = subprocess.run(cmd, cwd=cwd, env=e, stdout=subprocess.PIPE, stderr=subprocess.PIPE, text=True)
    if p.returncode != 0:
        raise EngineFailure("%s failed (exit %d):\n%s\n%s" % (what or cmd[0], p.returncode, p.stdout[-3000:], p.stderr[-6000:]))
    return p.stdout


def _prune_cache(keep):
    try:
        ents = [d for d in os.listdir(CACHE) if os.path.isdir(os.path.join(CACHE, d)) and d not in ("tmp",) and not d.startswith("specscan-")]
    except OSError:
        return
    ents = [d for d in ents if d != keep]
    ents.sort(key=lambda d: os.path.getmtime(os.path.join(CACHE, d)))
    for d in ents[:-2]:
        shutil.rmtree(os.path.join(CACHE, d), ignore_errors=True)


_sysroot = None


def nightly_sysroot():
    global _sysroot
    if _sysroot is None:
        _sysroot = _run(["rustc", "+nightly", "--print", "sysroot"], what="rustc +nightly --print sysroot").strip()
    return _sysroot


def ensure_engines():
    if not os.path.exists(MIRFACTS):
        _run(["cargo", "+nightly", "build", "--release", "--offline"], cwd=os.path.join(VERIF, "engines/mirfacts"), what="build mirfacts")


def facts_dir():
    th = tree_hash()
    d = os.path.join(CACHE, th)
    os.makedirs(d, exist_ok=True)
    return d


FEATURE_CONFIGS = {
    "default": [],
    "nofeat": ["--no-default-features"],
    "check": ["--no-default-features", "--features", "check"],
    "cleanup": ["--no-default-features", "--features", "cleanup"],
    "ifdata_cleanup": ["--no-default-features", "--features", "ifdata_cleanup"],
    "merge": ["--no-default-features", "--features", "merge"],
    "sort": ["--no-default-features", "--features", "sort"],
}


def mir_facts_path(tag="default"):
    """run the MIR exporter on /repo's current tree (cached per tree hash); returns the JSON path"""
    d = facts_dir()
    out = os.path.join(d, "a2lfile.%s.json" % tag)
    if os.path.exists(out):
        return out
    with Lock("mir-" + tag):
        if os.path.exists(out):
            return out
        ensure_engines()
        tmp = os.path.join(CACHE, "tmp", "mir-%s-%d" % (tag, os.getpid()))
        shutil.rmtree(tmp, ignore_errors=True)
        os.makedirs(tmp)
        try:
            env = {
                "LD_LIBRARY_PATH": nightly_sysroot() + "/lib",
                "RUSTFLAGS": "-Zmir-opt-level=0 -Awarnings",
                "RUSTC_WORKSPACE_WRAPPER": MIRFACTS,
                "MIRFACTS_OUT": tmp,
                "MIRFACTS_TAG": tag,
                "MIRFACTS_CRATE": "a2lfile",
                "CARGO_TARGET_DIR": os.path.join(tmp, "target"),
            }
            _run(["cargo", "+nightly", "check", "--offline", "-p", "a2lfile", "--lib"] + FEATURE_CONFIGS[tag],
                 cwd=REPO, env=env, what="cargo +nightly check (mirfacts, %s)" % tag)
            produced = os.path.join(tmp, "a2lfile.%s.json" % tag)
            if not os.path.exists(produced):
                raise EngineFailure("mirfacts produced no fact file (wrapper skipped?)")
            os.replace(produced, out)
        finally:
            shutil.rmtree(tmp, ignore_errors=True)
        _prune_cache(os.path.basename(d))
    return out


_mir_cache = {}


def mir_facts(tag="default"):
    if tag not in _mir_cache:
        with open(mir_facts_path(tag)) as fh:
            _mir_cache[tag] = json.load(fh)
    return _mir_cache[tag]


_specscan_bin = None


def specscan_bin():
    """path of a specscan binary that embeds the generator (a2lmacros/src) of the tree under analysis.  Each distinct generator gets
    its own build directory under the cache (a copy of engines/specscan plus the generator sources), so that runs on different
    trees (the working tree, a self-test copy, a scratch worktree) never share a binary"""
    global _specscan_bin
    if _specscan_bin is not None and os.path.exists(_specscan_bin):
        return _specscan_bin
    h = hashlib.sha256()
    own = ["Cargo.toml", "Cargo.lock", "src/main.rs", "src/ast.rs", "src/canon.rs"]
    for f in own:
        with open(os.path.join(SPECSCAN_DIR, f), "rb") as fh:
            h.update(f.encode() + b"\0" + fh.read())
    gen = []
    gdir = os.path.join(REPO, "a2lmacros", "src")
    for f in ["a2lspec.rs", "a2mlspec.rs", "codegenerator.rs", "util.rs"] + sorted("codegenerator/" + x for x in os.listdir(os.path.join(gdir, "codegenerator")) if x.endswith(".rs")):
        pth = os.path.join(gdir, f)
        if os.path.exists(pth):
            gen.append(f)
            with open(pth, "rb") as fh:
                h.update(f.encode() + b"\0" + fh.read())
    bdir = os.path.join(CACHE, "specscan-" + h.hexdigest()[:16])
    binp = os.path.join(bdir, "target", "release", "specscan")
    if not os.path.exists(binp):
        with Lock("specscan-build"):
            if not os.path.exists(binp):
                tmp = bdir + ".tmp%d" % os.getpid()
                shutil.rmtree(tmp, ignore_errors=True)
                os.makedirs(os.path.join(tmp, "src", "codegenerator"))
                for f in own:
                    shutil.copy(os.path.join(SPECSCAN_DIR, f), os.path.join(tmp, f))
                for f in gen:
                    shutil.copy(os.path.join(gdir, f), os.path.join(tmp, "src", f))
                try:
                    _run(["cargo", "build", "--release", "--offline"], cwd=tmp, env={"CARGO_TARGET_DIR": os.path.join(tmp, "target")}, what="build specscan with the in-tree generator")
                    shutil.rmtree(os.path.join(tmp, "target", "release", "deps"), ignore_errors=True)
                    shutil.rmtree(os.path.join(tmp, "target", "release", "build"), ignore_errors=True)
                    shutil.rmtree(os.path.join(tmp, "target", "release", ".fingerprint"), ignore_errors=True)
                    shutil.rmtree(bdir, ignore_errors=True)
                    os.replace(tmp, bdir)
                finally:
                    shutil.rmtree(tmp, ignore_errors=True)
                # keep the newest few builds only
                olds = sorted((d for d in os.listdir(CACHE) if d.startswith("specscan-") and ".tmp" not in d), key=lambda d: os.path.getmtime(os.path.join(CACHE, d)))
                for d in olds[:-6]:
                    shutil.rmtree(os.path.join(CACHE, d), ignore_errors=True)
    _specscan_bin = binp
    return binp


def build_specscan():
    """kept for callers: makes sure the binary for the current tree exists"""
    return specscan_bin()


def ast_facts():
    """syn AST (JSON) of all source files of a2lfile/src + a2lmacros/src, keyed by path relative to REPO"""
    d = facts_dir()
    out = os.path.join(d, "ast.json")
    if not os.path.exists(out):
        with Lock("ast"):
            if not os.path.exists(out):
                files = []
                for sub in ("a2lfile/src", "a2lmacros/src"):
                    for p in _walk(os.path.join(REPO, sub)):
                        if p.endswith(".rs"):
                            files.append(os.path.relpath(p, REPO))
                txt = _run([specscan_bin(), "ast"] + files, cwd=REPO, what="specscan ast")
                with open(out + ".tmp", "w") as fh:
                    fh.write(txt)
                os.replace(out + ".tmp", out)
    with open(out) as fh:
        return json.load(fh)["files"]


def expand_facts():
    """C20: canonical item diff between generate(in-tree DSL) by the in-tree generator and specification.rs"""
    d = facts_dir()
    out = os.path.join(d, "expand.json")
    if not os.path.exists(out):
        with Lock("expand"):
            if not os.path.exists(out):
                build_specscan()
                p = subprocess.run([specscan_bin(), "expand", "a2lfile/src/specification_orig.rs", "a2lfile/src/specification.rs"],
                                   cwd=REPO, stdout=subprocess.PIPE, stderr=subprocess.PIPE, text=True)
                if p.returncode != 0:
                    # the generator panicked on the in-tree DSL: that is a finding, not an engine failure
                    txt = json.dumps({"error": "in-tree generator failed on the in-tree DSL: " + p.stderr[-1500:]})
                else:
                    txt = p.stdout
                with open(out + ".tmp", "w") as fh:
                    fh.write(txt)
                os.replace(out + ".tmp", out)
    with open(out) as fh:
        return json.load(fh)


def a2ml_text_facts():
    """C19: for every reference invocation of a2ml_specification! (oracle/a2ml_invocations/*.rs): the macro input as a token
    tree, the string constants and the items of the expansion produced by the in-tree generator"""
    d = facts_dir()
    inv = os.path.join(VERIF, "oracle", "a2ml_invocations")
    hh = hashlib.sha256()
    for fn in sorted(os.listdir(inv)):
        hh.update(fn.encode() + open(os.path.join(inv, fn), "rb").read())
    out = os.path.join(d, "a2mltext.%s.json" % hh.hexdigest()[:12])
    if not os.path.exists(out):
        with Lock("a2mltext"):
            if not os.path.exists(out):
                build_specscan()
                res = {}
                for fn in sorted(os.listdir(inv)):
                    if not fn.endswith(".rs"):
                        continue
                    p = subprocess.run([specscan_bin(), "a2ml-text", os.path.join(inv, fn)], cwd=REPO, stdout=subprocess.PIPE, stderr=subprocess.PIPE, text=True)
                    if p.returncode != 0:
                        res[fn] = {"error": p.stderr[-1500:]}
                    else:
                        res[fn] = json.loads(p.stdout)
                with open(out + ".tmp", "w") as fh:
                    json.dump(res, fh)
                os.replace(out + ".tmp", out)
    with open(out) as fh:
        return json.load(fh)


# ---------------------------------------------------------------------------------------------
# findings, reports, evidence

def load_known():
    p = os.path.join(VERIF, "known_findings.json")
    if not os.path.exists(p):
        return []
    with open(p) as fh:
        return json.load(fh)["findings"]


class Finding:
    def __init__(self, rule, key, msg, where="", detail=None):
        self.rule = rule            # e.g. R13-panic
        self.key = key              # stable instance key (no line numbers)
        self.msg = msg
        self.where = where          # file:line, for the human
        self.detail = detail or {}


class Check:
    """one run of the rules of one property"""

    def __init__(self, pid, tier):
        self.pid = pid
        self.tier = tier
        self.t0 = time.time()
        self.findings = []
        self.rules = []          # [{rule, instances, floor, obligations, discharged, what}]
        self.samples = []
        self.assumptions = []
        self.info = {}
        self.level = "other"

    def rule(self, name, what, instances, floor=None, obligations=None, discharged=None, extra=None):
        r = {"rule": name, "what": what, "instances": instances}
        if floor is not None:
            r["floor"] = floor
            # `floor` is the instance count confirmed on the reviewed tree.  Ordinary maintenance merges or splits a few
            # instances (two error sites folded into one helper, a loop turned into an iterator chain), so the rule fails closed
            # only when it sees clearly fewer instances than were reviewed: below 70% of the count (exactly, for counts up to 2)
            eff = floor if floor <= 2 else max(2, int(floor * 0.7))
            r["fails_below"] = eff
            if instances < eff:
                self.add(Finding(name, name + "::floor", "rule %s matched %d instances, the reviewed tree has %d (fails below %d): the rule no longer sees what it is about (fail closed)" % (name, instances, floor, eff)))
        if obligations is not None:
            r["obligations"] = obligations
            r["discharged"] = discharged
        if extra:
            r.update(extra)
        self.rules.append(r)

    def add(self, f):
        self.findings.append(f)

    def sample(self, s):
        if len(self.samples) < 12:
            self.samples.append(s)

    def finish(self):
        known = [k for k in load_known() if k["property"] == self.pid]
        known_keys = {k["key"]: k for k in known if k.get("status") == "known"}
        rdir = os.path.join(OUT, "reports", self.pid)
        shutil.rmtree(rdir, ignore_errors=True)
        os.makedirs(rdir, exist_ok=True)
        nviol = 0
        nknown = 0
        seen = set()
        for f in self.findings:
            if f.key in seen:
                continue
            seen.add(f.key)
            rep = {"property": self.pid, "rule": f.rule, "key": f.key, "message": f.msg, "where": f.where, "detail": f.detail}
            fname = hashlib.sha1(f.key.encode()).hexdigest()[:12] + ".json"
            path = os.path.join(rdir, fname)
            with open(path, "w") as fh:
                json.dump(rep, fh, indent=1)
            if f.key in known_keys:
                nknown += 1
                print("KNOWN-FINDING: property=%s %s [%s] %s" % (self.pid, known_keys[f.key]["what"], f.rule, f.where))
            else:
                nviol += 1
                print("VIOLATION property=%s replay=%s" % (self.pid, os.path.relpath(path, OUT)))
                print("  rule %s  at %s\n  key: %s\n  %s" % (f.rule, f.where or "-", f.key, f.msg))
        obligations = sum(r.get("obligations", r["instances"]) for r in self.rules)
        discharged = obligations - len(seen)
        wall = time.time() - self.t0
        ev = {
            "property_id": self.pid,
            "tier": self.tier,
            "seed": int(os.environ.get("VERIF_SEED", "0") or 0),
            "level": self.level,
            "coverage": {
                "explanation": "static analysis of /repo's current source: " + "; ".join("%s (%d instances)" % (r["rule"], r["instances"]) for r in self.rules),
                "evaluations": max(1, obligations),
                "distinct_nontrivial": max(2, obligations),
                "rule": "each evaluation is one rule instance (a function, call site, field, element or obligation named by def path / field / tag) decided from MIR or AST facts of the current tree; distinct = distinct instance keys",
                "obligations": obligations,
                "discharged": max(0, discharged),
                "rules": self.rules,
                "samples": self.samples or ["(no samples recorded)"],
                "tree_hash": tree_hash(),
                "known_findings_still_firing": nknown,
                "exhaustive": True,
            },
            "assumptions": self.assumptions,
            "wall_s": round(wall, 2),
            "violations": nviol,
        }
        ev["coverage"].update(self.info)
        os.makedirs(os.path.join(OUT, "evidence"), exist_ok=True)
        with open(os.path.join(OUT, "evidence", self.pid + ".json"), "w") as fh:
            json.dump(ev, fh, indent=1)
        print("%s: %d rules, %d obligations, %d violations, %d known findings, %.1fs" % (self.pid, len(self.rules), obligations, nviol, nknown, wall))
        return 1 if nviol else 0
