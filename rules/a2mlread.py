"""Independent reader of A2ML (plain, as in the generated *_TEXT constants, and 'enhanced' with variable names, as in the
a2ml_specification! input).  Produces a name-free structure tree so that both can be compared (R19-text).
It reuses nothing from a2lfile/src/a2ml.rs or a2lmacros/src/a2mlspec.rs."""
import re

SCALARS = {"char", "int", "long", "int64", "uchar", "uint", "ulong", "uint64", "float", "double", "ident"}
COMPOUND = {"enum", "struct", "taggedstruct", "taggedunion"}


class A2mlError(Exception):
    pass


def tokens_from_text(text):
    out = []
    i = 0
    n = len(text)
    while i < n:
        c = text[i]
        if c.isspace():
            i += 1
        elif text.startswith("/*", i):
            j = text.find("*/", i + 2)
            i = n if j < 0 else j + 2
        elif text.startswith("//", i):
            j = text.find("\n", i)
            i = n if j < 0 else j
        elif c == '"':
            j = text.find('"', i + 1)
            if j < 0:
                raise A2mlError("unclosed tag string")
            out.append(("str", text[i + 1:j]))
            i = j + 1
        elif c.isalpha() or c == "_":
            j = i
            while j < n and (text[j].isalnum() or text[j] == "_"):
                j += 1
            out.append(("id", text[i:j]))
            i = j
        elif c.isdigit() or (c == "-" and i + 1 < n and text[i + 1].isdigit()):
            j = i + 1
            while j < n and (text[j].isalnum()):
                j += 1
            out.append(("num", text[i:j]))
            i = j
        elif c in "{}[]();,*=<>":
            out.append(("p", c))
            i += 1
        else:
            raise A2mlError("unexpected character %r in A2ML text" % c)
    return out


def tokens_from_tree(tree):
    """flatten the nested token JSON of `specscan` (macro input); doc comments (#[doc = ..]) are dropped"""
    out = []
    i = 0
    while i < len(tree):
        t = tree[i]
        if "p" in t and t["p"] == "#" and i + 1 < len(tree) and tree[i + 1].get("d") == "[":
            i += 2
            continue
        if "d" in t:
            op, cl = {"(": "()", "{": "{}", "[": "[]", "": ("", "")}[t["d"]]
            if op:
                out.append(("p", op))
            out.extend(tokens_from_tree(t["s"]))
            if cl:
                out.append(("p", cl))
        elif "i" in t:
            out.append(("id", t["i"]))
        elif "l" in t:
            l = t["l"]
            if l.startswith('"'):
                out.append(("str", l[1:-1]))
            else:
                out.append(("num", re.sub(r"[a-z_].*$", "", l) if not l.startswith("0x") else l))
        elif "p" in t:
            out.append(("p", t["p"]))
        i += 1
    return out


class P:
    def __init__(self, toks):
        self.t = toks
        self.i = 0

    def peek(self, k=0):
        return self.t[self.i + k] if self.i + k < len(self.t) else (None, None)

    def next(self):
        x = self.peek()
        if x[0] is None:
            raise A2mlError("unexpected end of A2ML")
        self.i += 1
        return x

    def accept(self, kind, val=None):
        k, v = self.peek()
        if k == kind and (val is None or v == val):
            self.i += 1
            return v
        return None

    def expect(self, kind, val=None):
        v = self.accept(kind, val)
        if v is None:
            raise A2mlError("expected %s %r, found %r" % (kind, val, self.peek()))
        return v


def parse_spec(toks):
    p = P(toks)
    if p.accept("p", "<"):
        p.expect("id")
        p.expect("p", ">")
    types = []
    ifdata = None
    while p.peek()[0] is not None:
        if p.peek() == ("id", "block"):
            p.next()
            tag = p.expect("str")
            d = tagged_def(p)
            if tag == "IF_DATA":
                ifdata = d
            else:
                types.append(("block", tag, d))
        else:
            t = typ(p)
            p.accept("id")     # a variable name is not meaningful at top level
            if t[0] in COMPOUND and t[1] is not None:
                types.append(t)
        p.expect("p", ";")
    return {"types": types, "ifdata": ifdata}


def typ(p):
    k, v = p.next()
    if k != "id":
        raise A2mlError("expected a type, found %r" % ((k, v),))
    if v in SCALARS:
        return ("scalar", v)
    if v not in COMPOUND:
        raise A2mlError("unknown type keyword %r" % v)
    name = None
    if p.peek()[0] == "id" and p.peek()[1] not in SCALARS and p.peek()[1] not in COMPOUND and p.peek()[1] != "block":
        # an identifier directly after the keyword is the type name
        name = p.next()[1]
    if not p.accept("p", "{"):
        if name is None:
            raise A2mlError("%s without name or body" % v)
        return (v + "ref", name)
    body = []
    if v == "enum":
        while not p.accept("p", "}"):
            tag = p.expect("str")
            val = None
            if p.accept("p", "="):
                val = p.expect("num")
            body.append((tag, val))
            # enumerator_list ::= enumerator { "," enumerator }: the separator is mandatory between two enumerators
            if not p.accept("p", ","):
                if p.peek() != ("p", "}"):
                    raise A2mlError("enumerators %r and %r are not separated by a comma" % (tag, p.peek()[1]))
    elif v == "struct":
        while not p.accept("p", "}"):
            body.append(member(p))
            p.expect("p", ";")
    else:
        while not p.accept("p", "}"):
            body.append(taggeditem(p, v == "taggedstruct"))
            p.expect("p", ";")
    return (v, name, tuple(body))


def member(p):
    """type with optional array dimensions and an optional variable name (before or after the dimensions); ( member )* = sequence"""
    if p.accept("p", "("):
        m = member(p)
        p.expect("p", ")")
        p.expect("p", "*")
        p.accept("id")
        return ("seq", m)
    t = typ(p)
    if p.peek()[0] == "id" and p.peek()[1] not in SCALARS | COMPOUND | {"block"}:
        p.next()
    while p.accept("p", "["):
        n = p.expect("num")
        p.expect("p", "]")
        t = ("array", t, n)
    if p.peek()[0] == "id" and p.peek()[1] not in SCALARS | COMPOUND | {"block"}:
        p.next()
    return t


def tagged_def(p):
    if p.peek() == ("p", "("):
        p.next()
        m = member(p)
        p.expect("p", ")")
        p.expect("p", "*")
        p.accept("id")
        return ("seq", m)
    return member(p)


def taggeditem(p, allow_multi):
    repeat = False
    if p.accept("p", "("):
        repeat = True
        it = tagged_inner(p, closing=")")
        p.expect("p", ")")
        p.expect("p", "*")
    else:
        it = tagged_inner(p, closing=";")
    return ("item", it[0], it[1], repeat, it[2])


def tagged_inner(p, closing):
    is_block = bool(p.accept("id", "block"))
    tag = p.expect("str")
    if p.peek() in (("p", closing), ("p", ";"), ("p", ")")):
        return (tag, is_block, None)
    return (tag, is_block, tagged_def(p))


def structure_of_text(text):
    return parse_spec(tokens_from_text(text))


def structure_of_tree(tree):
    return parse_spec(tokens_from_tree(tree))


def diff(a, b, path="spec"):
    """first structural difference between two trees (as a human-readable string) or None"""
    if type(a) != type(b):
        return "%s: %r vs %r" % (path, a, b)
    if isinstance(a, dict):
        for k in sorted(set(a) | set(b)):
            d = diff(a.get(k), b.get(k), path + "." + k)
            if d:
                return d
        return None
    if isinstance(a, (tuple, list)):
        if len(a) != len(b):
            return "%s: %d entries vs %d entries (%r vs %r)" % (path, len(a), len(b), str(a)[:120], str(b)[:120])
        for i, (x, y) in enumerate(zip(a, b)):
            lab = str(i)
            if isinstance(x, tuple) and x and isinstance(x[0], str):
                lab = x[0] + (":" + str(x[1]) if len(x) > 1 and isinstance(x[1], str) else "")
            d = diff(x, y, path + "/" + lab)
            if d:
                return d
        return None
    if a != b:
        return "%s: %r vs %r" % (path, a, b)
    return None


ALL_CONSTRUCTS = {"scalar:" + s for s in SCALARS - {"ident"}} | {"enum", "struct", "taggedstruct", "taggedunion", "array", "seq", "item", "item:block", "item:repeat", "item:empty",
                                                                "enumref", "structref", "taggedstructref", "taggedunionref", "enum:implicit"}


def _nodes(x):
    if isinstance(x, dict):
        for v in x.values():
            yield from _nodes(v)
    elif isinstance(x, (tuple, list)):
        if x and isinstance(x[0], str) and (x[0] in COMPOUND or x[0] in ("scalar", "array", "seq", "item", "block") or x[0].endswith("ref")):
            yield x
        elif len(x) == 2 and isinstance(x[0], str) and (x[1] is None or isinstance(x[1], str)):
            yield ("enumerator",) + tuple(x)
        for v in x:
            if isinstance(v, (tuple, list, dict)):
                yield from _nodes(v)


def count_nodes(tree):
    return sum(1 for _ in _nodes(tree))


def constructs(tree):
    out = set()
    for x in _nodes(tree):
        if x[0] == "scalar":
            out.add("scalar:" + x[1])
        elif x[0] == "item":
            out.add("item")
            if x[2]:
                out.add("item:block")
            if x[3]:
                out.add("item:repeat")
            if x[4] is None:
                out.add("item:empty")
        elif x[0] == "enumerator":
            if x[2] is None:
                out.add("enum:implicit")
        else:
            out.add(x[0])
    return out
