"""Panic obligations (R03-panic, R11-panic, R13-panic, R15-overflow, R17-panic, R19-total).

Every site that can panic in a scope of functions is an obligation:
  assert terminators (BoundsCheck, Overflow, DivisionByZero, RemainderByZero), indexing/slicing calls on
  Vec/slice/str/String/HashMap, the std callees of oracle/std_panics.json, unwrap/expect, core::panicking::*.
An obligation is discharged by the zone analysis (zones.py) or by an entry of oracle/audited_sites.json under
its exact key (function, kind, operand provenance, ordinal) carrying a one-line human proof.
Unlisted + unproved = violation naming that site."""
import json
import os
import re
from . import common, mir, zones
from .common import Finding

INDEX_FNS = re.compile(r"(<std::vec::Vec as std::ops::Index(Mut)?>::index(_mut)?|core::slice::index::index(_mut)?|core::str::traits::index(_mut)?|"
                       r"<std::string::String as std::ops::Index(Mut)?>::index(_mut)?|<\[T\] as std::ops::Index(Mut)?>::index(_mut)?|"
                       r"<itemlist::ItemList as std::ops::Index(Mut)?>::index(_mut)?|<std::collections::HashMap as std::ops::Index>::index|"
                       r"<std::collections::VecDeque as std::ops::Index(Mut)?>::index(_mut)?|core::array::index(_mut)?)$")
UNWRAP_FNS = re.compile(r"std::(option::Option|result::Result)::(unwrap|expect|unwrap_err|expect_err)$")
PANIC_FNS = re.compile(r"(core|std)::panicking::.*|std::rt::panic.*|core::panic::.*|std::process::(exit|abort)|core::option::(unwrap_failed|expect_failed)|core::result::unwrap_failed|core::slice::index::slice_.*fail.*|core::str::slice_error_fail.*")


def std_panics():
    with open(os.path.join(common.VERIF, "oracle", "std_panics.json")) as fh:
        return json.load(fh)["callees"]


def audited():
    p = os.path.join(common.VERIF, "oracle", "audited_sites.json")
    if not os.path.exists(p):
        return {}
    with open(p) as fh:
        j = json.load(fh)
    d = {e["key"]: e for e in j["sites"]}
    d["\0classes"] = [(re.compile(c["pattern"]), c) for c in j.get("classes", [])]
    return d


def describe_operand(fz, op, depth=0):
    """rename-robust structural description of an operand: constants, parameter/field provenance through single-definition
    temporaries, lengths, arithmetic shape, call results (callee name)"""
    if "k" in op:
        c = mir.const_int(op)
        return str(c) if c is not None else "const"
    pl = mir.op_place(op)
    return describe_place(fz, pl, depth)


def describe_place(fz, pl, depth=0):
    b = fz.b
    l = pl["l"]
    if not pl["p"] and l > b.argc and depth < 6:
        d = fz.intdef.get(l)
        if d is not None:
            k = d[0]
            if k == "use":
                return describe_operand(fz, d[1], depth + 1)
            if k == "len":
                return "len(%s)" % describe_operand(fz, d[1], depth + 1)
            if k == "bin":
                return "(%s %s %s)" % (describe_operand(fz, d[2], depth + 1), d[1].replace("WithOverflow", ""), describe_operand(fz, d[3], depth + 1))
            if k == "call":
                return "%s(..)" % d[1]
            if k == "cast":
                return describe_operand(fz, d[1], depth + 1)
    k = fz.place_key(pl)
    if k is None:
        return "?"
    m = re.match(r"L(\d+)(.*)", k)
    if not m:
        return k
    l = int(m.group(1))
    rest = m.group(2)
    if 1 <= l <= b.argc:
        root = "arg%d" % l
    else:
        d = fz.intdef.get(l)
        if d is not None and depth < 6 and (l != pl["l"] or pl["p"]):
            root = describe_place(fz, {"l": l, "p": []}, depth + 1)
        else:
            root = "local:" + re.sub(r"\{closure@[^}]*\}", "{closure}", b.locals[l]["ty"].replace("std::", "").replace("'a ", "").replace("'_ ", ""))
    # checked-arithmetic tuples: "(a Add 1).0" -> value
    if rest == ".0" and root.startswith("("):
        return root
    return root + rest


def range_desc(fz, body, op):
    """`start..end` with the endpoints described like other operands (provenance, arithmetic shape), from the single Range
    aggregate that defines the operand; None when the range is not built locally"""
    pl = mir.op_place(op)
    if pl is None or pl["p"]:
        return None
    defs = []
    for bi, si, s in body.stmts():
        if s["k"] == "assign" and not s["p"]["p"] and s["p"]["l"] == pl["l"]:
            defs.append(s)
    if len(defs) != 1 or defs[0]["rv"]["r"] != "agg" or "Range" not in (defs[0]["rv"].get("adt") or ""):
        return None
    rv = defs[0]["rv"]
    adt = rv["adt"].split("::")[-1]
    ops = [describe_operand(fz, o) for o in rv["ops"]]
    if adt == "Range" and len(ops) == 2:
        return "%s..%s" % (ops[0], ops[1])
    if adt == "RangeFrom" and len(ops) == 1:
        return "%s.." % ops[0]
    if adt == "RangeTo" and len(ops) == 1:
        return "..%s" % ops[0]
    if adt == "RangeInclusive":
        return "%s..=%s" % (ops[0], ops[1]) if len(ops) >= 2 else None
    if adt == "RangeToInclusive" and len(ops) == 1:
        return "..=%s" % ops[0]
    return None


class Obligation:
    def __init__(self, fid, kind, desc, where, line, src, proved, need, bb=None):
        self.bb = bb
        self.fid = fid
        self.kind = kind
        self.desc = desc
        self.where = where
        self.line = line
        self.src = src
        self.proved = proved
        self.need = need
        self.key = None


def range_nodes(fz, z, op):
    """(start_node_or_None, end_node_or_None, has_start, has_end) of a range-typed operand, from the aggregate sub-nodes"""
    pl = mir.op_place(op)
    if pl is None:
        return None
    k = fz.place_key(pl)
    if k is None:
        return None
    nodes = z.nodes() if z is not None else set()
    return (k + ".start" if (k + ".start") in nodes else None, k + ".end" if (k + ".end") in nodes else None)


class Interproc:
    """entry preconditions of non-public, non-recursive functions: the join, over all call sites in the crate, of the
    caller's zone state projected onto the actual arguments (integer arguments, pointees of `&mut int` arguments and
    lengths of slice-like arguments)."""

    def __init__(self, prog):
        self.prog = prog
        self.fz = {}
        self.entry = {}
        self.callers = None
        self.rec = None

    def _callers(self):
        if self.callers is None:
            cs = {}
            for fid, b in self.prog.bodies.items():
                for bi, t in b.calls():
                    r = t.get("res")
                    if r in self.prog.bodies:
                        cs.setdefault(r, []).append((fid, bi))
                # functions used as values (closures passed around, fn items) have unknown callers
                for bi, si, st in b.stmts():
                    if st["k"] == "assign":
                        for op in mir.operands_of_rvalue(st["rv"]):
                            if "k" in op and op.get("res") in self.prog.bodies:
                                cs.setdefault(op["res"], []).append((None, None))
            self.callers = cs
            self.rec = set()
            for scc in self.prog.sccs():
                self.rec.update(scc)
        return self.callers

    def zones_of(self, fid, stack=()):
        if fid in self.fz:
            return self.fz[fid]
        body = self.prog.bodies[fid]
        ent = self.entry_of(fid, stack)
        fz = zones.FnZones(body, self.prog, ent)
        self.fz[fid] = fz
        return fz

    def entry_of(self, fid, stack=()):
        if fid in self.entry:
            return self.entry[fid]
        body = self.prog.bodies[fid]
        cs = self._callers().get(fid, [])
        res = None
        if body.vis == "pub" or body.kind == "Closure" or fid in self.rec or not cs or fid in stack or len(stack) > 6 or body.trait_item:
            self.entry[fid] = None
            return None
        joined = None
        for (cf, bi) in cs:
            if cf is None:
                joined = None
                break
            cz = self.zones_of(cf, stack + (fid,))
            z = cz.state_before_terminator(bi)
            if z is None:
                continue       # unreachable call site
            t = cz.b.blocks[bi]["t"]
            facts = zones.Zone()
            nodes = {}
            for k, a in enumerate(t["args"]):
                pk = "L%d" % (k + 1)
                pty = body.locals[k + 1]["ty"]
                if "k" in a:
                    c = mir.const_int(a)
                    if c is not None and zones.is_int(pty):
                        nodes[pk] = ("const", c)
                    continue
                pl = mir.op_place(a)
                if zones.is_int(pty):
                    n, _ = cz.int_node(pl)
                    if n is not None:
                        nodes[pk] = ("node", n)
                elif pty.startswith("&mut ") and zones.is_int(pty[5:]):
                    key = cz.root_key(pl["l"]) if not pl["p"] else cz.place_key(pl)
                    if key is not None:
                        nodes[pk] = ("node", key)
                elif pty.startswith("&"):
                    ln = cz.len_node(pl)
                    if ln is not None:
                        nodes["len:" + pk] = ("node", ln)
            names = list(nodes.items())
            for (pa, (ka, va)) in names + [("Z", ("const", 0))]:
                for (pb, (kb, vb)) in names + [("Z", ("const", 0))]:
                    if pa == pb:
                        continue
                    na = va if ka == "node" else "Z"
                    nb = vb if kb == "node" else "Z"
                    off = (va if ka == "const" else 0) - (vb if kb == "const" else 0)
                    if na == nb:
                        c = 0
                    else:
                        c = z.get(na, nb)
                    if c != zones.INF:
                        facts.add(pa, pb, c + off)
            joined = facts if joined is None else zones.join(joined, facts)
            if joined is not None and not joined.fwd:
                break
        ent = None
        if joined is not None and not joined.bottom:
            ent = [(a, b_, c) for a, m in joined.fwd.items() for b_, c in m.items()]
        self.entry[fid] = ent
        return ent


_interproc = {}


def interproc(prog):
    if id(prog) not in _interproc:
        _interproc[id(prog)] = Interproc(prog)
    return _interproc[id(prog)]


def obligations_of(body, prog, entry=None, stdp=None):
    """list of Obligation for one body"""
    fz = interproc(prog).zones_of(body.id)
    out = []
    stdp = stdp if stdp is not None else std_panics()
    for bi, blk in enumerate(body.blocks):
        if blk["cleanup"]:
            continue
        t = blk["t"]
        if t["k"] == "assert":
            ak = t["ak"]
            if ak in ("MisalignedPointerDereference", "NullPointerDereference", "InvalidEnumConstruction"):
                continue    # compiler-inserted checks on safe references / enum construction: cannot fail without unsafe code (R03-unwind: no unsafe)
            z = fz.state_before_terminator(bi)
            if z is None:
                continue
            proved = False
            need = ""
            if ak == "BoundsCheck":
                ln, lc, _ = fz.op_node(t["ops"][0])
                ix, ic, _ = fz.op_node(t["ops"][1])
                need = "index < len"
                if ic is not None and lc is not None:
                    proved = ic < lc
                elif ic is not None and ln is not None:
                    proved = fz.le(z, None, ic + 1, ln, 0)
                elif ix is not None:
                    proved = fz.le(z, ix, 1, ln, 0) if ln is not None else (lc is not None and fz.le(z, ix, 1, None, lc))
                desc = "len=%s index=%s" % (describe_operand(fz, t["ops"][0]), describe_operand(fz, t["ops"][1]))
            elif ak == "Overflow":
                a, b_ = t["ops"]
                na, ca, ta = fz.op_node(a)
                nb, cb, tb = fz.op_node(b_)
                ty = ta if (ta in zones.INT_BITS) else tb
                op = t["op"]
                desc = "%s %s %s (%s)" % (describe_operand(fz, a), op, describe_operand(fz, b_), ty)
                if ty in zones.INT_BITS:
                    mx = zones.ty_max(ty)
                    mn = 0 if ty[0] == "u" else -(mx + 1)
                    if op == "Add":
                        need = "a + b <= MAX"
                        if na is not None and cb is not None:
                            proved = fz.le(z, na, cb, None, mx) and (cb >= 0 or fz.le(z, None, mn - cb, na, 0))
                        elif nb is not None and ca is not None:
                            proved = fz.le(z, nb, ca, None, mx)
                        elif ca is not None and cb is not None:
                            proved = mn <= ca + cb <= mx
                        elif na is not None and nb is not None:
                            # both bounded by constants?
                            ua = z.get(na, "Z")
                            ub = z.get(nb, "Z")
                            proved = ua + ub <= mx
                    elif op == "Sub":
                        need = "b <= a"
                        if ty[0] == "u":
                            if na is not None and cb is not None:
                                proved = fz.le(z, None, cb, na, 0)
                            elif na is not None and nb is not None:
                                proved = fz.le(z, nb, 0, na, 0)
                            elif ca is not None and nb is not None:
                                proved = fz.le(z, nb, 0, None, ca)
                            elif ca is not None and cb is not None:
                                proved = cb <= ca
                        else:
                            if na is not None and cb is not None:
                                proved = fz.le(z, None, mn + cb, na, 0) if cb >= 0 else fz.le(z, na, -cb, None, mx)
                    elif op == "Mul":
                        need = "a * b <= MAX"
                        k = cb if cb is not None else ca
                        n = na if cb is not None else nb
                        if k is not None and n is not None and k > 0:
                            proved = z.get(n, "Z") <= mx // k
                        elif ca is not None and cb is not None:
                            proved = ca * cb <= mx
                    elif op in ("Shl", "Shr"):
                        need = "shift < bits"
                        if cb is not None:
                            proved = 0 <= cb < zones.INT_BITS[ty]
            elif ak in ("DivisionByZero", "RemainderByZero"):
                # the assert operand is the dividend; the divisor is tested by the condition  `divisor == 0` (expected false)
                need = "divisor != 0"
                desc = "dividend=%s" % describe_operand(fz, t["ops"][0])
                pl = mir.op_place(t["cond"])
                d = fz.booldef.get(pl["l"]) if pl is not None and not pl["p"] else None
                if d is not None and d[0] == "cmp" and d[1] == "Eq":
                    for x, y in ((d[2], d[3]), (d[3], d[2])):
                        ny, cy, _ = fz.op_node(y)
                        if cy == 0:
                            nx, cx, _ = fz.op_node(x)
                            desc += " divisor=%s" % describe_operand(fz, x)
                            if cx is not None:
                                proved = cx != 0
                            elif nx is not None:
                                proved = fz.le(z, None, 1, nx, 0)
                            break
            elif ak == "OverflowNeg":
                desc = "neg " + describe_operand(fz, t["ops"][0])
            else:
                desc = ak
            out.append(Obligation(body.id, ak + (":" + t["op"] if ak == "Overflow" else ""), desc, body.where(t["ln"]), t["ln"], t.get("src", ""), proved, need, bi))
        elif t["k"] == "call":
            res = t.get("res")
            if res is None:
                # call through a function pointer / closure value: no obligation of its own
                continue
            name = mir.strip_generics(res.lstrip("?"))
            z = None
            kind = None
            proved = False
            need = ""
            desc = ""
            if INDEX_FNS.match(name):
                z = fz.state_before_terminator(bi)
                if z is None:
                    continue
                a0 = t["args"][0]
                a1 = t["args"][1] if len(t["args"]) > 1 else None
                cont = "str" if ("str" in name or "String" in name) else ("map" if "HashMap" in name else "seq")
                idx_ty = body.locals[mir.op_place(a1)["l"]]["ty"] if (a1 is not None and mir.op_place(a1) is not None and not mir.op_place(a1)["p"]) else (a1.get("ty") if a1 else "?")
                ln = fz.len_node(mir.op_place(a0)) if mir.op_place(a0) is not None else None
                if "ItemList" in name and "usize" not in idx_ty:
                    cont = "map"
                if "ItemList" in name and ln:
                    ln = ln + ".items"
                if cont == "map":
                    kind = "Index:map"
                    need = "key present"
                    desc = "key=%s" % describe_operand(fz, a1)
                elif "Range" in idx_ty:
                    kind = "Slice:" + cont
                    need = "start <= end <= len" + (" on char boundaries" if cont == "str" else "")
                    rn = range_nodes(fz, z, a1)
                    desc = "%s[%s]" % (describe_operand(fz, a0), range_desc(fz, body, a1) or idx_ty.replace("std::ops::", ""))
                    if rn is not None and ln is not None and cont != "str":
                        st, en = rn
                        has_start = "RangeTo" not in idx_ty or "RangeToInclusive" in idx_ty and False
                        ok = True
                        if "RangeFull" in idx_ty:
                            ok = True
                        else:
                            if "RangeFrom" in idx_ty:
                                ok = st is not None and fz.le(z, st, 0, ln, 0)
                            elif "RangeTo" in idx_ty:
                                ok = en is not None and fz.le(z, en, 1 if "Inclusive" in idx_ty else 0, ln, 0)
                            else:
                                ok = st is not None and en is not None and fz.le(z, st, 0, en, 0) and fz.le(z, en, 1 if "Inclusive" in idx_ty else 0, ln, 0)
                        proved = ok
                else:
                    kind = "Index:" + cont
                    need = "index < len"
                    n, c, _ = fz.op_node(a1)
                    desc = "%s[%s]" % (describe_operand(fz, a0), describe_operand(fz, a1))
                    if ln is not None:
                        if n is not None:
                            proved = fz.le(z, n, 1, ln, 0)
                        elif c is not None:
                            proved = fz.le(z, None, c + 1, ln, 0)
            elif UNWRAP_FNS.match(name):
                kind = "Unwrap"
                need = "value present"
                desc = "%s(%s)" % (name.split("::")[-1], describe_operand(fz, t["args"][0]))
            elif PANIC_FNS.match(name):
                kind = "Panic"
                need = "unreachable"
                desc = name
            elif name in stdp:
                sp = stdp[name]
                kind = "Std:" + name.split("::")[-1]
                need = sp["need"]
                desc = "%s(%s)" % (name, ", ".join(describe_operand(fz, a) for a in t["args"]))
                z = fz.state_before_terminator(bi)
                if z is None:
                    continue
                if sp.get("check") in ("index<len", "index<=len") and len(t["args"]) >= 2:
                    ln = fz.len_node(mir.op_place(t["args"][0])) if mir.op_place(t["args"][0]) is not None else None
                    n, c, _ = fz.op_node(t["args"][1])
                    k = 1 if sp["check"] == "index<len" else 0
                    if ln is not None:
                        if n is not None:
                            proved = fz.le(z, n, k, ln, 0)
                        elif c is not None:
                            proved = fz.le(z, None, c + k, ln, 0)
                elif sp.get("check") == "radix" and len(t["args"]) >= 2:
                    c = mir.const_int(t["args"][1])
                    proved = c is not None and 2 <= c <= 36
                elif sp.get("check") == "nonzero-const" and len(t["args"]) >= 2:
                    c = mir.const_int(t["args"][-1])
                    proved = c is not None and c != 0
            if kind is None:
                continue
            if fz.instate.get(bi) is None:
                continue
            out.append(Obligation(body.id, kind, desc, body.where(t["ln"]), t["ln"], t.get("src", ""), proved, need, bi))
    # keys: (function, kind, desc, ordinal among equal (kind,desc) in source order)
    out.sort(key=lambda o: (o.line, o.kind, o.desc))
    seen = {}
    # the ordinal counts only the obligations the analysis could not discharge (those are the ones that are looked up in the
    # reviewed table): removing or adding a provable sibling does not renumber them
    for o in out:
        base = "%s | %s | %s" % (o.fid, o.kind, o.desc)
        n = seen.get((base, o.proved), 0)
        seen[(base, o.proved)] = n + 1
        o.key = "%s | #%s%d" % (base, "p" if o.proved else "", n)
    return out, fz


_summaries = {}


def run_scope(chk, rule, prog, fids, what, floor=1, kinds=None):
    """evaluate all obligations of the functions `fids` under `rule`"""
    aud = audited()
    stdp = std_panics()
    nob = 0
    nzone = 0
    ntable = 0
    nfn = 0
    used = set()
    for fid in sorted(fids):
        body = prog.bodies.get(fid)
        if body is None:
            continue
        nfn += 1
        try:
            obs, fz = obligations_of(body, prog, stdp=stdp)
        except RecursionError:
            chk.add(Finding(rule, "%s::%s::analysis" % (rule, fid), "zone analysis failed on %s" % fid, body.where()))
            continue
        for o in obs:
            if kinds is not None and not any(o.kind.startswith(k) for k in kinds):
                continue
            nob += 1
            if o.proved:
                nzone += 1
                if nzone <= 3:
                    chk.sample({"site": o.where, "obligation": o.kind, "operands": o.desc, "discharged_by": "zone analysis", "needs": o.need})
                continue
            e = aud.get(o.key)
            if e is None:
                for rx, c in aud.get("\0classes", []):
                    if rx.fullmatch(o.key):
                        e = c
                        break
            if e is not None and e.get("requires"):
                missing = []
                for callee in e["requires"].get("dominating_calls", []):
                    ok = False
                    for bi2, t2 in body.calls():
                        if t2.get("res") == callee and t2["t"] is not None and bi2 != o.bb and body.dominates(t2["t"], o.bb):
                            ok = True
                    if not ok:
                        missing.append(callee)
                seq = e["requires"].get("sequence", [])
                if seq:
                    # calls that must happen in this order on every path to the site (each one's return dominates the next call,
                    # the last one's return dominates the site)
                    def chain(i, after):
                        for bi2, t2 in body.calls():
                            if t2.get("res") == seq[i] and t2["t"] is not None and (after is None or body.dominates(after, bi2)):
                                if i + 1 == len(seq):
                                    if bi2 != o.bb and body.dominates(t2["t"], o.bb):
                                        return True
                                elif chain(i + 1, t2["t"]):
                                    return True
                        return False
                    if not chain(0, None):
                        missing.append("the call sequence " + " -> ".join(x.split("::")[-1] for x in seq))
                for rxs, want in e["requires"].get("implied", []):
                    # the condition under which the site is reached must imply the listed tests (the audit's premise is a
                    # guard in the same function)
                    from . import guards, sym
                    S = _summaries.setdefault(id(prog), sym.Analyzer(prog)).summary(fid)
                    F = guards.reach_formula(body, S, o.bb)
                    iv = guards.implied_values(F) if F is not True else {}
                    rx = re.compile(rxs)
                    if not any(rx.fullmatch(k[1]) and vals == {want} for k, vals in (iv or {}).items()):
                        missing.append("the test `%s` == %s" % (rxs, want))
                if missing:
                    chk.add(Finding(rule, "%s::%s::requires" % (rule, o.key), "possible panic: %s `%s` is listed as audited only under the condition that a successful call of %s dominates it (%s); that call no longer dominates the site" % (o.kind, o.src or o.desc, ", ".join(missing), e["why"]), o.where,
                                    {"function": o.fid, "kind": o.kind, "operands": o.desc, "source": o.src, "needs": o.need}))
                    continue
            if e is not None:
                ntable += 1
                used.add(o.key)
                if ntable <= 2:
                    chk.sample({"site": o.where, "obligation": o.kind, "operands": o.desc, "discharged_by": "audited table", "proof": e["why"]})
                continue
            chk.add(Finding(rule, "%s::%s" % (rule, o.key), "possible panic: %s `%s` needs `%s`; the zone analysis cannot prove it and the site is not in oracle/audited_sites.json" % (o.kind, o.src or o.desc, o.need), o.where,
                            {"function": o.fid, "kind": o.kind, "operands": o.desc, "source": o.src, "needs": o.need}))
    chk.rule(rule, what, nob, floor=floor, obligations=nob, discharged=nzone + ntable,
             extra={"functions": nfn, "discharged_by_analysis": nzone, "discharged_by_table": ntable})
    return nob, nzone, ntable
