"""C14 sort() is a pure reordering into the documented canonical order (structural clauses; DESIGN.md section 3, C14)

R14-frame  everything reachable from sort::sort writes only layout fields and calls only reordering mutators
R14-cover  every name-indexed list of Module (and Project.module) is passed to sort_objectlist_full, sorted by get_name(a) vs get_name(b)
R14-chain  uid counters are incremented after each assignment and handed from one list to the next
R14-perm   ItemList::sort_by delegates the permutation to std's sort with the caller's comparator and rebuilds the name index
R14-table  uid/offset assignments and sort calls of sort.rs with their control predicates equal the reviewed table
"""
import re
from . import mir, sym, diag, sortrules, refs
from .common import Finding


def run(chk):
    prog = mir.prog()
    if "sort::sort" not in prog.bodies:
        chk.add(Finding("R14-frame", "R14-frame::anchor", "sort::sort not found"))
        return
    sortrules.frame(chk, "R14-frame", prog, "sort::sort")
    # ---------------------------------------------------------------- R14-cover
    A = sym.Analyzer(prog, opaque=[r"sort::sort_objectlist_full"])
    S = A.summary("sort::sort")
    passed = {}
    for ev in S.events:
        if ev[0] == "call" and ev[1] == "sort::sort_objectlist_full":
            for t in ev[2][0]:
                r, p = refs.term_path(t)
                if p:
                    passed[p.split("/")[-1]] = ev
    want = []
    for aid, fields in (("specification::Module", None), ("specification::Project", None)):
        adt = prog.adts.get(aid)
        if adt is None:
            chk.add(Finding("R14-cover", "R14-cover::anchor::" + aid, "%s not found" % aid))
            continue
        for f in adt["variants"][0]["fields"]:
            if f["ty"].startswith("itemlist::ItemList<"):
                want.append(aid.split("::")[-1] + "." + f["name"])
    for w in want:
        if w not in passed:
            chk.add(Finding("R14-cover", "R14-cover::" + w, "sort() never sorts %s: its elements keep their old position between the sorted kinds" % w, prog.bodies["sort::sort"].where()))
    chk.rule("R14-cover", "ItemList fields of Module/Project passed to sort_objectlist_full", len(want), floor=21)
    # comparator: cmp(get_name(a), get_name(b))
    n = 0
    for cid, cb in prog.bodies.items():
        if cb.kind == "Closure" and cb.parent and cb.parent.startswith("sort::sort_objectlist_full"):
            n += 1
            Sc = sym.Analyzer(prog).summary(cid)
            cmpc = [e for e in Sc.events if e[0] == "call" and re.search(r"Ord>?::cmp$|::cmp$", e[1])]
            ok = False
            for e in cmpc:
                a0 = {sym.fmt(t) for t in e[2][0]}
                a1 = {sym.fmt(t) for t in e[2][1]} if len(e[2]) > 1 else set()
                if any("get_name(arg2" in x for x in a0) and any("get_name(arg3" in x for x in a1):
                    ok = True
            if not ok:
                chk.add(Finding("R14-cover", "R14-cover::comparator", "sort_objectlist_full does not order by get_name(a).cmp(get_name(b)) (ascending by name)", cb.where()))
    chk.rule("R14-cmp", "comparator of sort_objectlist_full compares the two elements' names in ascending order", n, floor=1)
    # ---------------------------------------------------------------- R14-chain
    sortrules.counter_chain(chk, "R14-chain", prog, sorted(f for f in prog.reachable(["sort::sort"]) if prog.bodies[f].file == "a2lfile/src/sort.rs" and prog.bodies[f].kind != "Closure"), floor=4)
    # uid handed from call to call: arg1 of call k+1 derives from the result of a sort_objectlist_full call (or the if_data counter)
    n = 0
    for ev in S.events:
        if ev[0] == "call" and ev[1] == "sort::sort_objectlist_full" and ev[3] == "sort::sort" and len(ev[2]) > 1:
            n += 1
            terms = ev[2][1]
            if not any((isinstance(t, tuple) and t[0] == "call" and t[1] == "sort::sort_objectlist_full") or (isinstance(t, tuple) and t[0] == "var") for t in terms) \
                    and not any(isinstance(t, tuple) and t[0] == "const" for t in terms):
                chk.add(Finding("R14-chain", "R14-chain::start::" + "|".join(sorted(sym.fmt(t) for t in ev[2][0])), "a list is numbered from a start uid that does not come from the previous list's end", prog.bodies["sort::sort"].where(ev[4])))
    chk.rule("R14-chain-start", "sort_objectlist_full calls whose start uid is the running counter", n, floor=20)
    # ---------------------------------------------------------------- R14-perm
    b = prog.bodies.get("itemlist::ItemList::<T>::sort_by")
    n = 0
    if b is None:
        chk.add(Finding("R14-perm", "R14-perm::anchor", "ItemList::sort_by not found"))
    else:
        n = 1
        old = set(sym.TRANSPARENT_ADTS)
        sym.TRANSPARENT_ADTS.clear()
        try:
            Sb = sym.Analyzer(prog, opaque=[r".*itemlist::ItemList.*"]).summary(b.id)
        finally:
            sym.TRANSPARENT_ADTS.update(old)
        sorts = [e for e in Sb.events if e[0] == "call" and e[3] == b.id and re.search(r"slice::sort_by$|slice::sort_by_key$|slice::sort_by_cached_key$", e[1])]
        items = ("f", ("param", 1), "ItemList.items")
        if not any(items in e[2][0] for e in sorts):
            chk.add(Finding("R14-perm", "R14-perm::delegate", "ItemList::sort_by does not hand `items` to std's stable slice sort: that the result is a permutation of the same elements in comparator order is no longer guaranteed by std", b.where()))
        muts = [e for e in Sb.events if e[0] == "call" and e[3] == b.id and e[7] and re.match(r"&mut (std::vec::Vec|\[)", e[7][0]) and items in e[2][0]
                and not re.search(r"slice::sort_by$|deref_mut$|iter_mut$", e[1])]
        wr = [e for e in Sb.events if e[0] == "write" and e[3] == b.id and e[1] == items]
        for e in muts + wr:
            chk.add(Finding("R14-perm", "R14-perm::other::" + (e[1] if e[0] == "call" else "assign"), "ItemList::sort_by rearranges `items` by other means than std's sort (%s)" % (e[1] if e[0] == "call" else "direct assignment"), b.where(e[4])))
    chk.rule("R14-perm", "ItemList::sort_by = std stable sort of `items` + index rebuild", n, floor=1)
    # the index of ItemList::sort_by is rebuilt completely (ItemList pairing rule of C13, restricted to sort_by)
    from . import common, c13
    sub = common.Check(chk.pid, chk.tier)
    oldt = set(sym.TRANSPARENT_ADTS)
    sym.TRANSPARENT_ADTS.clear()
    try:
        c13._run(sub, prog)
    finally:
        sym.TRANSPARENT_ADTS.update(oldt)
    for f in sub.findings:
        if "sort_by" in f.key:
            chk.add(Finding("R14-perm", f.key.replace("R13-", "R14-perm-"), "sort() relies on ItemList::sort_by rebuilding the name index: " + f.msg, f.where, f.detail))
    # ---------------------------------------------------------------- R14-seq
    # a list is put in order before its elements are numbered: the (std) sort of a list dominates the uid assignments to its elements
    nseq = 0
    for fid in sorted(f for f in prog.reachable(["sort::sort"]) if prog.bodies[f].file == "a2lfile/src/sort.rs"):
        fb = prog.bodies[fid]
        Sf = sym.Analyzer(prog, opaque=[r"sort::.*", r".*::get_layout_mut", r".*::get_layout"]).summary(fid)
        sorts = [e for e in Sf.events if e[0] == "call" and e[3] == fid and re.search(r"(sort_by|sort_by_key|sort_unstable_by|sort_unstable_by_key|sort)$", mir.strip_generics(e[1])) and e[2]]
        An = sym.Analyzer(prog)
        writes = [e for e in Sf.events if e[0] == "write" and (e[3] == fid or not An.is_known(e[3]))]
        for se in sorts:
            lists = {refs.term_path(t)[1] for t in se[2][0]} - {None, ""}
            for we in writes:
                r, p = refs.term_path(we[1])
                if not p or not p.endswith("BlockInfo.uid"):
                    continue
                if isinstance(r, tuple) and r[0] == "call" and r[1].endswith("get_layout_mut") and r[2] and r[2][0] is not None:
                    # the layout record reached through the accessor of an element of a list: <list>/<element>/BlockInfo.uid
                    r2, p2 = refs.term_path(r[2][0])
                    if p2:
                        p = p2 + "/*/" + p
                for lp in lists:
                    if p.startswith(lp + "/"):
                        nseq += 1
                        if not fb.dominates(se[6], we[5]) or (se[6] == we[5]):
                            chk.add(Finding("R14-seq", "R14-seq::%s::%s" % (mir.strip_generics(fid), lp.split("/")[-1]), "%s numbers the elements of %s before the list is sorted: the uids (which decide the order in the written file) carry the old order" % (fid, lp.split("/")[-1]), fb.where(we[4])))
    chk.rule("R14-seq", "lists that are sorted and numbered in the same function: the sort dominates the uid assignment", nseq, floor=1)
    # ---------------------------------------------------------------- R14-table
    fids = [f for f in prog.reachable(["sort::sort"]) if prog.bodies[f].file == "a2lfile/src/sort.rs"]
    diag.compare(chk, "R14-table", "sort", sortrules.sort_table(prog, fids), "uid/offset assignments and (sort) calls reachable from sort::sort with their control predicates, compared with the reviewed table", floor=20,
                 fn_filter=lambda fn: fn in {re.sub(r"\{closure#\d+\}", "{closure}", mir.strip_generics(f)) for f in fids} or fn.split("::{closure}")[0] in {mir.strip_generics(f) for f in fids})
    # the keys by which sort() orders (USER_RIGHTS by user_level_id, named elements by name): semantic decision tables of its comparators
    from . import cmpsem
    cmpsem.compare(chk, "R14-cmp", select=lambda n: n.startswith("sort::sort"), floor=2)
    chk.assumptions += ["std's slice::sort_by is a stable permutation", "not decided: reload order and second-sort idempotence (runtime)"]
