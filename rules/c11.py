"""C11 check(): reference diagnostics are sound, complete and total (structural clauses; DESIGN.md section 3, C11)"""
from . import mir, panics, scopes


def run(chk):
    prog = mir.prog()
    panics.run_scope(chk, "R11-panic", prog, scopes.check_scope(prog), what="panic obligations in the functions reachable from checker::check", floor=5)
    chk.assumptions += ["not decided: completeness beyond the covered reference sites"]
