"""C11 check(): reference diagnostics are sound, complete and total (structural clauses; DESIGN.md section 3, C11)

R11-pure    check() only has shared access to a model without interior mutability (the borrow checker proves 'never modifies')
R11-panic   panic obligations in everything reachable from checker::check
R11-sites   every reference looked up by check() is looked up in its own namespace, with its own sentinel / THIS. convention,
            and the set of covered reference sites does not shrink
R11-guards  the conditions under which each diagnostic is pushed equal the reviewed table (oracle/diag_table.json)
R11-list    the name-indexed lists the lookups rely on stay coherent (ItemList pairing rules of C13)
"""
import json
import os
import re
from . import common, mir, sym, refs, panics, scopes, guards, diag, c13
from .common import Finding

PREFIX = "A2lFile.project/Project.module/"
OPAQUE_VIEWS = [r"module::.*::(objects|compu_tabs|typedefs)"]


def strip(p):
    p = p[len(PREFIX):] if p.startswith(PREFIX) else p
    # AnyCharacteristic / AnyObject style wrappers contribute a positional field `.0`
    return "/".join(seg for seg in p.split("/") if not re.fullmatch(r"[A-Za-z]+\.\d+|[A-Za-z]+::[A-Za-z]+\.\d+", seg))


def _takes_log(fid):
    """the function gets the diagnostics list (&mut Vec<A2lError>): it reports, it is not an accessor"""
    cb = mir.prog().bodies.get(fid)
    return cb is not None and any("A2lError" in l["ty"] and "Vec" in l["ty"] for l in cb.locals[1:1 + cb.argc])


def log_effect(b, S, ev):
    if ev[1].endswith("Vec::push") and ev[7] and "A2lError" in ev[7][0]:
        return "log " + guards.error_variant(b, ev[6])
    if ev[1].startswith("checker::") and ev[2]:
        # literal flags handed to another check function (e.g. is_directly_used = true for CHARACTERISTICs)
        consts = []
        for i, a in enumerate(ev[2]):
            cs = sorted(sym.fmt(t) for t in a if isinstance(t, tuple) and t[0] == "const")
            if cs and len(cs) == len(a) and all(re.fullmatch(r"true|false|-?\d+_[iu]\d+|-?\d+_[iu]size", c) for c in cs):
                consts.append("#%d=%s" % (i, "|".join(cs)))
        if consts:
            return "call %s(%s)" % (ev[1].split("::")[-1], ", ".join(consts))
    if ev[1].startswith("checker::") and "{closure" not in ev[1] and ev[1] in (sym.known_functions() or ()) and _takes_log(ev[1]):
        # the call of a reviewed check function is itself a decision: its reaching condition says for which elements the
        # diagnostics behind it are produced at all (seed C11s: both TRANSFORMER lists checked only when both are present)
        return "call %s()" % ev[1].split("::")[-1]
    return None


def checker_table(prog):
    A = sym.Analyzer(prog, opaque=OPAQUE_VIEWS + [r"checker::.*"])
    fids = [f for f in scopes.check_scope(prog) if f.startswith("checker::")]
    return diag.table_for(prog, A, fids, log_effect)


def run(chk):
    prog = mir.prog()
    panics.run_scope(chk, "R11-panic", prog, scopes.check_scope(prog), what="panic obligations in the functions reachable from checker::check", floor=2)

    # ------------------------------------------------------------------ R11-pure
    b = prog.bodies.get("checker::check")
    n = 0
    if b is None:
        chk.add(Finding("R11-pure", "R11-pure::anchor", "checker::check not found"))
    else:
        n += 1
        ty = b.locals[1]["ty"]
        if not re.fullmatch(r"&(\S+ )?specification::A2lFile", ty) or "mut" in ty:
            chk.add(Finding("R11-pure", "R11-pure::signature", "checker::check takes %s: it must only get shared access to the model" % ty, b.where()))
        for aid, adt in prog.adts.items():
            for v in adt["variants"]:
                for f in v["fields"]:
                    n += 1
                    if re.search(r"\b(Cell|RefCell|UnsafeCell|Mutex|RwLock|Atomic[A-Z]\w*|OnceCell|OnceLock)\b", f["ty"]):
                        chk.add(Finding("R11-pure", "R11-pure::interior::%s.%s" % (aid, f["name"]), "%s.%s has type %s: shared access would no longer imply 'not modified'" % (aid, f["name"], f["ty"]), adt["file"]))
    chk.rule("R11-pure", "check(&A2lFile) + no interior mutability in any type of the crate", n, floor=500)

    # ------------------------------------------------------------------ R11-sites
    n = refs.check_table_current(chk, "R11-table")
    T = refs.table()
    idx = {}
    for k, ps in T["paths"].items():
        for p in ps:
            idx[p] = (k, T["fields"][k])
    list_ns = {}
    for ns, lists in T["namespaces"].items():
        for l in lists:
            list_ns[l] = ns
    A = sym.Analyzer(prog, opaque=OPAQUE_VIEWS)
    S = A.summary("checker::check") if b is not None else None
    covered = {}
    nsites = 0
    if S is not None:
        calls = [e for e in S.events if e[0] == "call"]
        # sentinel comparisons and THIS. tests per key path
        sent = {}
        this = set()
        for e in calls:
            if re.search(r"PartialEq>?::(ne|eq)$|str::traits::(eq|ne)$|cmp::impls::(eq|ne)$", e[1]) and len(e[2]) >= 2:
                for i in (0, 1):
                    lits = {t[1] for t in e[2][1 - i] if isinstance(t, tuple) and t[0] == "const"}
                    for t in e[2][i]:
                        r, p = refs.term_path(t)
                        if r == ("param", 1) and p and lits:
                            sent.setdefault(strip(p), set()).update(l.strip('"') for l in lits)
            if re.search(r"str::(starts_with|strip_prefix)$", e[1]) and len(e[2]) >= 2:
                lits = {t[1].strip('"') for t in e[2][1] if isinstance(t, tuple) and t[0] == "const"}
                if "THIS." in lits:
                    for t in e[2][0]:
                        r, p = refs.term_path(t)
                        if r == ("param", 1) and p:
                            this.add(strip(p))
        for e in calls:
            if not re.search(r"ItemList::(contains_key|get|index)$|HashMap::(get|contains_key)$|HashSet::contains$", e[1]) or len(e[2]) < 2:
                continue
            for kt in e[2][1]:
                r, p = refs.term_path(kt)
                if r != ("param", 1) or not p:
                    continue
                kp = strip(p)
                site = idx.get(kp)
                if site is None or site[1]["role"] != "ref":
                    continue
                nsites += 1
                fn = prog.bodies.get(e[3])
                ns = site[1]["ns"]
                cover = set()
                for t in e[2][0]:
                    if isinstance(t, tuple) and t[0] == "call" and t[1].split("::")[-1] in ("objects", "compu_tabs", "typedefs"):
                        cover |= set(T["namespaces"][t[1].split("::")[-1]])
                    rr, pp = refs.term_path(t)
                    if rr == ("param", 1) and pp and strip(pp) in list_ns:
                        cover.add(strip(pp))
                if not cover:
                    continue
                want = set(T["namespaces"].get(ns, []))
                if cover != want:
                    chk.add(Finding("R11-sites", "R11-sites::namespace::" + kp, "check() looks the reference %s (-> namespace %s) up in %s instead of %s: valid references are reported / missing targets are not" % (kp, ns, sorted(cover), sorted(want)), fn.where(e[4]) if fn else ""))
                covered[kp] = True
        for kp in sorted(covered):
            site = idx[kp][1]
            s_have = sent.get(kp, set())
            s_want = {site["sentinel"]} if site.get("sentinel") else set()
            if s_have != s_want:
                chk.add(Finding("R11-sites", "R11-sites::sentinel::" + kp, "reference %s is compared with %s before the lookup; the grammar's 'no reference' value for it is %s" % (kp, sorted(s_have) or "nothing", sorted(s_want) or "none"), "a2lfile/src/checker.rs"))
            if bool(site.get("this")) != (kp in this):
                chk.add(Finding("R11-sites", "R11-sites::this::" + kp, "reference %s: THIS. handling %s, but the reference-site table says THIS. is %s here" % (kp, "present" if kp in this else "absent", "allowed" if site.get("this") else "not allowed"), "a2lfile/src/checker.rs"))
    # covered set must not shrink
    op = os.path.join(common.VERIF, "oracle", "check_sites.json")
    if os.path.exists(op):
        ref_cov = json.load(open(op))["covered"]
        for kp in ref_cov:
            if kp not in covered:
                chk.add(Finding("R11-sites", "R11-sites::uncovered::" + kp, "check() no longer looks up the reference %s: a dangling reference there is not reported any more" % kp, "a2lfile/src/checker.rs"))
    else:
        chk.add(Finding("R11-sites", "R11-sites::oracle", "oracle/check_sites.json missing"))
    chk.rule("R11-sites", "lookups of reference sites in check(): right namespace, sentinel, THIS. convention; covered set >= reviewed set", nsites, floor=55,
             extra={"covered_sites": len(covered)})

    # ------------------------------------------------------------------ R11-guards
    diag.compare(chk, "R11-guards", "checker", checker_table(prog), "diagnostic push sites of checker.rs with their control predicates compared with the reviewed table", floor=40)

    # ------------------------------------------------------------------ R11-list
    sub = common.Check(chk.pid, chk.tier)
    old = set(sym.TRANSPARENT_ADTS)
    sym.TRANSPARENT_ADTS.clear()
    try:
        c13._run(sub, prog)
    finally:
        sym.TRANSPARENT_ADTS.update(old)
    for f in sub.findings:
        chk.add(Finding("R11-list", f.key.replace("R13-", "R11-list-"), "name lookups of check() rely on ItemList coherence: " + f.msg, f.where, f.detail))
    chk.rule("R11-list", "ItemList pairing/lookup rules (see C13) that the checker's name lookups rely on", sum(r["instances"] for r in sub.rules), floor=50)
    # ------------------------------------------------------------------ R11-this
    # THIS.<component> is valid only if *every* structure that contains the typedef has a component of that name
    nthis = 0
    root = "checker::is_valid_structure_component"
    fam = {f: b for f, b in prog.bodies.items() if f == root or f.startswith(root + "::")}
    if root not in fam:
        chk.add(Finding("R11-this", "R11-this::anchor", root + " not found"))
    else:
        def itercalls(b):
            return [mir.strip_generics((t.get("res") or "").lstrip("?")).split("::")[-1] for bi, t in b.calls() if "Iterator" in (t.get("res") or "") or "iter::" in (t.get("res") or "")]
        top = itercalls(fam[root])
        nthis = 1
        if top != ["all"]:
            chk.add(Finding("R11-this", "R11-this::quantifier::" + ",".join(top), "is_valid_structure_component combines the containing structures with %s instead of a single Iterator::all: a THIS. reference that is dangling in one of several containing structures is no longer reported" % (top or "no iterator test"), fam[root].where()))
        inner = [itercalls(b) for f, b in sorted(fam.items()) if f != root and f.count("::{closure") == 1]
        if inner != [["any"]]:
            chk.add(Finding("R11-this", "R11-this::inner::" + str(inner), "per containing structure the component list must be searched with Iterator::any (found %s)" % inner, fam[root].where()))
    chk.rule("R11-this", "THIS. validity helper: universal over containing structures, existential over their components", nthis, floor=1)
    chk.assumptions += ["not decided: completeness beyond the covered reference sites (the property itself says 'covered reference')",
                        "oracle/check_sites.json and oracle/diag_table.json are reviewed snapshots of semantic facts (site paths, control predicates), not of source text"]
