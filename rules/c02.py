import re
"""C02 Content preservation (structural necessary conditions; see DESIGN.md section 3, C02)"""
from . import genrules, textrules


def run(chk):
    genrules.r01_dual(chk, rule="R02-dual", inc_rule="R02-dual-inc")
    genrules.expansion_diffs(chk, "R02-shipped", lambda k: bool(re.search(r"\[[^\]]*\bstringify\b[^\]]*\]", k)) or "PositionRestricted" in k or "Display" in k,
                             "generated stringify/pos_restrict/Display items identical (canonical form) to the generator's output")
    r02_store(chk)
    textrules.r01_esc(chk, rule="R02-esc")
    textrules.r01_hex(chk, rule="R02-hex")
    textrules.r01_hexfloat(chk, rule="R02-hexfloat")
    from . import writertab
    writertab.compare(chk, "R02-writer", floor=48)
    writertab.compare_ifdata(chk, "R02-ifdata-writer", floor=22)
    # which kind of token a character starts (and therefore where the token ends) is decided by the precedence of the scanner's branches
    from . import c16, mir
    c16.r16_dispatch(chk, mir.prog(), rule="R02-dispatch")
    # uninterpreted IF_DATA: which value variant is built from which getter at which width (an integer read as u32 sends every
    # negative value down the f32 path), and under which token kind
    from . import c18, diag
    diag.compare(chk, "R02-items", "ifdata", c18.items_table(mir.prog()), "values built by the IF_DATA parsers: variant, getter with its integer/float width, control predicates; compared with the reviewed table", floor=30,
                 row_filter=lambda r: r[0].startswith("build "))
    # every parsed element is stored with ItemList::push: a list that replaces or drops an element on push loses its tokens
    from . import c13, common
    from . import sym
    from .common import Finding
    sub = common.Check(chk.pid, chk.tier)
    old = set(sym.TRANSPARENT_ADTS)
    sym.TRANSPARENT_ADTS.clear()
    try:
        c13._run(sub, mir.prog())
    finally:
        sym.TRANSPARENT_ADTS.update(old)
    for f in sub.findings:
        if "::push" in f.key or "::extend" in f.key or "FromIterator" in f.key:
            chk.add(Finding("R02-list", f.key.replace("R13-", "R02-list-"), "elements read from the file are stored through ItemList: " + f.msg, f.where, f.detail))
    chk.rule("R02-list", "ItemList pairing rules (see C13) for the operations that store parsed elements", sum(r["instances"] for r in sub.rules), floor=50)
    chk.assumptions += ["not decided: token-sequence equality of output and input as such"]


def r02_store(chk):
    """R02-store: every token-derived item built by the IF_DATA parsers is stored unconditionally (pushed to its list, put into a
    vec![..] literal or returned), never handed to a closure that may or may not run"""
    from . import mir
    from .common import Finding
    prog = mir.prog()
    n = 0
    for fid, b in sorted(prog.bodies.items()):
        if b.file != "a2lfile/src/ifdata.rs" or b.kind == "Closure":
            continue
        for bi, blk in enumerate(b.blocks):
            if blk["cleanup"]:
                continue
            for s in blk["s"]:
                if s["k"] == "assign" and s["rv"]["r"] == "agg" and s["rv"].get("kind") == "adt" and s["rv"]["adt"] in ("a2ml::GenericIfDataTaggedItem",) and not s["p"]["p"]:
                    n += 1
                    loc = s["p"]["l"]
                    consumers = []
                    for bj, blk2 in enumerate(b.blocks):
                        if blk2["cleanup"]:
                            continue
                        for s2 in blk2["s"]:
                            if s2["k"] == "assign":
                                for op in mir.operands_of_rvalue(s2["rv"]):
                                    if "m" in op and op["m"]["l"] == loc and not op["m"]["p"]:
                                        rv = s2["rv"]
                                        if rv["r"] == "agg":
                                            consumers.append((rv.get("kind"), rv.get("adt"), rv.get("v"), s2["ln"]))
                                        else:
                                            consumers.append(("move", None, None, s2["ln"]))
                        t = blk2["t"]
                        if t["k"] == "call":
                            for a in t["args"]:
                                if "m" in a and a["m"]["l"] == loc and not a["m"]["p"]:
                                    consumers.append(("call", mir.strip_generics((t.get("res") or "?").lstrip("?")), None, t["ln"]))
                    for kind, what, v, ln in consumers:
                        if kind == "closure":
                            chk.add(Finding("R02-store", "R02-store::%s::closure" % mir.strip_generics(fid), "%s hands a parsed tagged item to a closure instead of storing it: whether the item is kept depends on whether the closure runs (e.g. entry().or_insert_with), so repeated tags lose their later items" % fid, b.where(ln)))
                        elif kind == "call" and not (what.endswith("Vec::push") or what.endswith("::push")):
                            chk.add(Finding("R02-store", "R02-store::%s::%s" % (mir.strip_generics(fid), what), "%s passes a parsed tagged item to %s instead of storing it" % (fid, what), b.where(ln)))
                    if not consumers:
                        chk.add(Finding("R02-store", "R02-store::%s::dropped" % mir.strip_generics(fid), "%s builds a tagged item from consumed tokens and never stores it" % fid, b.where(s["ln"])))
    chk.rule("R02-store", "tagged items built by the IF_DATA parsers that are stored unconditionally", n, floor=3)
