"""C02 Content preservation (structural necessary conditions; see DESIGN.md section 3, C02)"""
from . import genrules


def run(chk):
    genrules.r01_dual(chk, rule="R02-dual", inc_rule="R02-dual-inc")
    genrules.expansion_diffs(chk, "R02-shipped", lambda k: ("[stringify]" in k) or "PositionRestricted" in k or "Display" in k,
                             "generated stringify/pos_restrict/Display items identical (canonical form) to the generator's output")
    chk.assumptions += ["not decided: token-sequence equality of output and input as such"]
