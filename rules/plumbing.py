"""layout plumbing rules on hand-written code (C05 / C19 / C01):

R05-plumb   when a struct is built from another element's layout fields (uid, line, start_offset, end_offset, incfile, is_block, tag),
            each field is taken from the field of the same name (a swapped start/end offset moves /end tokens to other lines)
R19-sibling the two typed-access helpers that call the generated item parser pass (data, uid, start_offset, end_offset) in the same order
"""
import re
from . import mir
from .common import Finding

VOCAB = {"uid", "line", "start_offset", "end_offset", "incfile", "is_block", "tag"}
FILES = ("a2lfile/src/a2ml.rs", "a2lfile/src/ifdata.rs", "a2lfile/src/writer.rs", "a2lfile/src/specification.rs")


def source_field(b, op, depth=0):
    """name of the struct field an operand was read from (through single-definition temporaries, refs, clones)"""
    pl = mir.op_place(op)
    if pl is None:
        return None
    for e in reversed(pl["p"]):
        if isinstance(e, dict) and "f" in e and e["adt"] not in ("(tuple)", "(closure)", "(other)") and not e["adt"].startswith("std::"):
            return e["f"]
        if isinstance(e, dict) and "f" in e:
            return None
    if depth > 5:
        return None
    l = pl["l"]
    defs = []
    for bi, blk in enumerate(b.blocks):
        for s in blk["s"]:
            if s["k"] == "assign" and not s["p"]["p"] and s["p"]["l"] == l:
                defs.append(("s", s))
        t = blk["t"]
        if t["k"] == "call" and not t["dest"]["p"] and t["dest"]["l"] == l:
            defs.append(("c", t))
    if len(defs) != 1:
        return None
    k, d = defs[0]
    if k == "s":
        rv = d["rv"]
        if rv["r"] in ("use", "cast"):
            return source_field(b, rv["a"], depth + 1)
        if rv["r"] in ("ref", "rawptr"):
            return source_field(b, {"c": rv["p"]}, depth + 1)
        return None
    name = mir.strip_generics((d.get("res") or "").lstrip("?"))
    if re.search(r"(clone|to_owned|to_string|as_ref|deref|borrow|copied|cloned)$", name) and d["args"]:
        return source_field(b, d["args"][0], depth + 1)
    return None


def r05_plumb(chk, rule="R05-plumb", files=FILES):
    prog = mir.prog()
    n = 0
    for fid, b in sorted(prog.bodies.items()):
        if b.file not in files:
            continue
        if b.file == "a2lfile/src/specification.rs" and not re.search(r"specification::(A2ml|IfData)::|<specification::(A2ml|IfData) as", fid):
            continue      # generated code is covered by the dual skeleton rules
        for bi, blk in enumerate(b.blocks):
            if blk["cleanup"]:
                continue
            for s in blk["s"]:
                if s["k"] == "assign" and s["rv"]["r"] == "agg" and s["rv"].get("kind") == "adt":
                    rv = s["rv"]
                    for fname, op in zip(rv["fields"], rv["ops"]):
                        if fname not in VOCAB:
                            continue
                        src = source_field(b, op)
                        if src is None or src not in VOCAB:
                            continue
                        n += 1
                        if src != fname:
                            chk.add(Finding(rule, "%s::%s::%s.%s<-%s" % (rule, mir.strip_generics(fid), (rv["adt"].split("::")[-1] + ("::" + rv["v"] if rv["v"] else "")), fname, src),
                                            "%s builds %s with `%s` taken from another element's `%s`: layout information ends up in the wrong slot (e.g. /end written with the line offset of /begin)" % (fid, rv["adt"].split("::")[-1], fname, src), b.where(s["ln"])))
    chk.rule(rule, "layout fields copied between elements in hand-written code: same-name source and destination", n, floor=10)


def r19_sibling(chk, rule="R19-sibling"):
    prog = mir.prog()
    seqs = {}
    for fid in ("a2ml::GenericIfData::get_single_optitem", "a2ml::GenericIfData::get_multiple_optitems"):
        b = prog.bodies.get(fid)
        if b is None:
            cands = [x for x in prog.bodies if mir.strip_generics(x) == fid]
            b = prog.bodies.get(cands[0]) if cands else None
        if b is None:
            chk.add(Finding(rule, rule + "::anchor::" + fid, fid + " not found"))
            continue
        # the call through the function-pointer parameter: a call terminator without a resolved callee or a closure body doing it
        bodies = [b] + [c for c in prog.bodies.values() if c.kind == "Closure" and c.parent and c.parent.startswith(b.id)]
        for bb in bodies:
            for bi, blk in enumerate(bb.blocks):
                t = blk["t"]
                if t["k"] == "call" and t.get("res") is None and len(t["args"]) == 4:
                    seqs.setdefault(fid, []).append(([source_field(bb, a) for a in t["args"]], bb.where(t["ln"])))
    n = len(seqs)
    allseq = [tuple(x[0]) for v in seqs.values() for x in v]
    if len(seqs) == 2:
        want = (None, "uid", "start_offset", "end_offset")
        for fid, lst in seqs.items():
            for seq, where in lst:
                if tuple(seq[1:]) != want[1:]:
                    chk.add(Finding(rule, "%s::%s::%s" % (rule, fid, ",".join(str(x) for x in seq)), "%s calls the generated item parser with (%s); the generated parsers expect (data, uid, start_offset, end_offset): offsets end up swapped, so storing and writing the value moves /begin and /end" % (fid, ", ".join(str(x) for x in seq)), where))
    chk.rule(rule, "typed-access helpers passing (data, uid, start_offset, end_offset) in the generated parsers' order", n, floor=2)
    # the item parser's Result is propagated: an item that does not decode makes the whole load fail (no value), it is not skipped
    np = 0
    for fid in ("a2ml::GenericIfData::get_single_optitem", "a2ml::GenericIfData::get_multiple_optitems"):
        cands = [x for x in prog.bodies if mir.strip_generics(x) == fid]
        if not cands:
            continue
        b0 = prog.bodies[cands[0]]
        bodies = [b0] + [c for c in prog.bodies.values() if c.kind == "Closure" and c.parent and c.parent.startswith(b0.id)]
        for bb in bodies:
            for bi, blk in enumerate(bb.blocks):
                t = blk["t"]
                if not (t["k"] == "call" and t.get("res") is None and len(t["args"]) == 4):
                    continue
                np += 1
                d = t["dest"]["l"]
                users = []
                for bj, t2 in bb.calls():
                    if any((mir.op_place(a) or {}).get("l") == d for a in t2["args"]):
                        users.append(mir.strip_generics((t2.get("res") or "").lstrip("?")))
                if bb.kind == "Closure" and not users:
                    # `.map(|item| func(..))`: the Result is the closure's value; it is propagated when the adaptor keeps every
                    # Result (map + collect::<Result<..>>), not when it filters them (filter_map, flat_map over Result, ...)
                    filt = [mir.strip_generics((t2.get("res") or "").lstrip("?")).split("::")[-1] for bj, t2 in b0.calls()
                            if re.search(r"::(filter_map|flat_map|find_map|map_while|scan)$", mir.strip_generics((t2.get("res") or "").lstrip("?")))]
                    users = ["closure value passed through %s" % ",".join(sorted(set(filt)))] if filt else ["core::ops::Try::branch"]
                if not users or not all(u.endswith("Try>::branch") or u.endswith("Try::branch") for u in users):
                    chk.add(Finding("R19-prop", "R19-prop::%s::%s" % (fid, ",".join(sorted(set(u.split("::")[-1] for u in users)) or ["dropped"])), "%s does not propagate the item parser's error with `?` (result goes to %s): a tagged item whose content does not match the specification is silently left out instead of making load_from_ifdata return no value" % (fid, sorted(set(users)) or "nothing"), bb.where(t["ln"])))
    chk.rule("R19-prop", "calls of the generated item parser in the typed-access helpers whose Result is propagated with `?`", np, floor=2)
