"""Independent reader of the a2l_specification!{..} DSL (token tree from `specscan ast`).

It does not reuse a2lmacros/src/a2lspec.rs, so that a generator bug cannot hide in both.
Produces the grammar as JSON-able dicts:
  elements: [{tags:[..], type, is_block, params:[..], opt:[..]}]
  enums:    [{name, items:[{name, vmin, vmax}]}]
"""
from . import common

RUST_RESERVED = {"abstract", "as", "async", "await", "become", "box", "break", "const", "continue", "crate", "do", "dyn", "else",
                 "enum", "extern", "false", "final", "fn", "for", "if", "impl", "in", "let", "loop", "macro", "match", "mod", "move",
                 "mut", "override", "priv", "pub", "ref", "return", "Self", "self", "static", "struct", "super", "trait", "true",
                 "try", "type", "typeof", "unsafe", "unsized", "use", "virtual", "where", "while", "yield"}

SCALARS = {"char": "i8", "int": "i16", "long": "i32", "int64": "i64", "uchar": "u8", "uint": "u16", "ulong": "u32", "uint64": "u64",
           "double": "f64", "float": "f64", "ident": "ident", "string": "string"}


class DslError(Exception):
    pass


def typename(uc):
    if any(c.islower() for c in uc):
        return uc
    out = []
    cap = True
    for c in uc:
        if c == "_":
            cap = True
            continue
        out.append(c if cap else c.lower())
        cap = False
    return "".join(out)


def varname(tag):
    lc = tag.lower()
    return "var_" + lc if lc in RUST_RESERVED else lc


class Toks:
    def __init__(self, toks):
        self.t = toks
        self.i = 0

    def peek(self):
        return self.t[self.i] if self.i < len(self.t) else None

    def next(self):
        x = self.peek()
        if x is None:
            raise DslError("unexpected end of DSL tokens")
        self.i += 1
        return x

    def skip_docs(self):
        while True:
            x = self.peek()
            if x is not None and x.get("p") == "#":
                self.i += 1
                g = self.next()
                if g.get("d") != "[":
                    raise DslError("expected [doc..] after #")
            else:
                return

    def ident(self):
        x = self.next()
        if "i" not in x:
            raise DslError("expected identifier, got %r" % (x,))
        return x["i"]

    def punct(self, c):
        x = self.next()
        if x.get("p") != c:
            raise DslError("expected '%s', got %r" % (c, x))

    def group(self, d):
        x = self.next()
        if x.get("d") != d:
            raise DslError("expected group %s, got %r" % (d, x))
        return Toks(x["s"])


def version_range(tk):
    x = tk.peek()
    if x is not None and x.get("d") == "(":
        g = tk.group("(")
        vmin = vmax = None
        y = g.peek()
        if y is not None and "l" in y:
            vmin = g.next()["l"]
        g.punct(".")
        g.punct(".")
        y = g.peek()
        if y is not None and "l" in y:
            vmax = g.next()["l"]
        return vmin, vmax
    return None, None


def blocknames(tk):
    names = [tk.ident()]
    suff = []
    while tk.peek() is not None and tk.peek().get("p") == "/":
        tk.next()
        suff.append(tk.ident())
    if suff:
        n = len(suff[0])
        base = names[0][:len(names[0]) - n]
        for s in suff:
            names.append(base + s)
    return names


def typename_from_names(names):
    if len(names) == 1:
        return typename(names[0])
    return typename(names[0][:-1] + "DIM")


def single(tk):
    ty = tk.ident()
    arr = None
    x = tk.peek()
    if x is not None and x.get("d") == "[":
        g = tk.group("[")
        arr = int(g.next()["l"])
    nm = tk.ident()
    base = SCALARS.get(ty, "enum:" + ty)
    return {"kind": "single", "type": ty, "base": base, "array": arr, "name": nm}


def element(tk, is_keyword, line):
    names = blocknames(tk)
    body = tk.group("{")
    params = []
    opts = []
    while body.peek() is not None:
        body.skip_docs()
        x = body.peek()
        if x is None:
            break
        if "i" in x:
            params.append(single(body))
        elif x.get("d") == "{":
            g = body.group("{")
            items = []
            while g.peek() is not None:
                items.append(single(g))
            body.punct("*")
            nm = body.ident()
            params.append({"kind": "seq", "name": nm, "items": items})
        elif x.get("d") == "[":
            g = body.group("[")
            g.punct("-")
            g.punct(">")
            tags = blocknames(g)
            required = repeat = False
            y = body.peek()
            if y is not None and "p" in y:
                c = body.next()["p"]
                if c == "!":
                    required = True
                elif c == "+":
                    required = repeat = True
                elif c == "*":
                    repeat = True
                else:
                    raise DslError("bad multiplicity %r" % c)
            vmin, vmax = version_range(body)
            for t in tags:
                opts.append({"tag": t, "field": varname(t), "type": typename_from_names(tags), "repeat": repeat, "required": required,
                             "vmin": vmin, "vmax": vmax})
        else:
            raise DslError("unexpected token %r in element %s" % (x, names[0]))
    return {"tags": names, "type": typename_from_names(names), "is_block": not is_keyword, "params": params, "opt": opts, "line": line}


def enum(tk):
    name = tk.ident()
    body = tk.group("{")
    items = []
    while body.peek() is not None:
        body.skip_docs()
        if body.peek() is None:
            break
        nm = body.ident()
        vmin, vmax = version_range(body)
        items.append({"name": nm, "vmin": vmin, "vmax": vmax})
        if body.peek() is not None:
            body.punct(",")
    return {"name": name, "items": items}


def parse(tokens):
    tk = Toks(tokens)
    elements, enums = [], []
    while True:
        tk.skip_docs()
        x = tk.peek()
        if x is None:
            break
        kw = tk.ident()
        if kw == "block":
            elements.append(element(tk, False, x.get("line")))
        elif kw == "keyword":
            elements.append(element(tk, True, x.get("line")))
        elif kw == "enum":
            enums.append(enum(tk))
        else:
            raise DslError("unexpected DSL keyword %r" % kw)
    return {"elements": elements, "enums": enums}


def current_grammar():
    """grammar of /repo's current specification_orig.rs"""
    ast = common.ast_facts()
    f = ast.get("a2lfile/src/specification_orig.rs")
    if f is None:
        raise DslError("a2lfile/src/specification_orig.rs missing")
    macs = [it for it in f["items"] if it["t"] == "ItemMacro" and it["path"] == "a2l_specification"]
    if len(macs) != 1:
        raise DslError("expected exactly one a2l_specification! invocation, found %d" % len(macs))
    g = parse(macs[0]["tokens"])
    for e in g["elements"]:
        e.pop("line", None)
    return g
