"""C20  Shipped generated code == fresh expansion of the in-tree DSL by the in-tree generator.

R20-expand (translation validation, exhaustive over the file): both sides are brought to a canonical
form by 9 behaviour-preserving rewrite classes (see DESIGN.md section 1) and compared item by item."""
from .common import Finding, expand_facts

FLOOR_ITEMS = 1482   # counted on the pinned tree


def run(chk):
    chk.level = "translation_validation"
    d = expand_facts()
    if "error" in d:
        chk.rule("R20-expand", "canonical item diff fresh expansion vs shipped", 0, floor=1)
        chk.add(Finding("R20-expand", "R20-expand::error", d["error"], "a2lfile/src/specification_orig.rs"))
        return
    n = d["items_shipped"]
    chk.rule("R20-expand", "items of specification.rs compared token by token (canonical form) with generate(DSL) of the in-tree generator",
             n, floor=FLOOR_ITEMS, obligations=max(n, d["items_fresh"]), discharged=d["equal"],
             extra={"items_fresh": d["items_fresh"], "items_shipped": n, "tokens_compared": d["tokens_shipped"]})
    for x in d["diffs"]:
        if x["kind"] == "diff":
            msg = "shipped item differs from the fresh expansion at canonical token %d: fresh [.. %s ..] shipped [.. %s ..]" % (x["pos"], x["fresh"], x["shipped"])
        elif x["kind"] == "only_fresh":
            msg = "the in-tree generator produces this item from the in-tree DSL but specification.rs does not contain it"
        else:
            msg = "specification.rs contains this item but the fresh expansion of the in-tree DSL does not"
        chk.add(Finding("R20-expand", "R20-expand::" + x["key"], msg, "a2lfile/src/specification.rs :: " + x["key"], x))
    for k in d["equal_keys"][:6]:
        chk.sample({"item": k, "verdict": "canonical token streams identical"})
    chk.info["programs"] = 2
    chk.info["disagreements_checked"] = len(d["diffs"])
    chk.assumptions += ["the 9 canonical rewrite classes (rustfmt/clippy style) are behaviour preserving",
                        "#[cfg(test)] modules and `use` items are excluded from the comparison",
                        "rustc compiles identical canonical source to identical behaviour"]
