"""C03 Loading never panics, overflows or hangs (structural clauses; DESIGN.md section 3, C03)

R03-panic   every panic obligation on the load path is discharged by the zone analysis or an audited entry
R03-rec     every recursive SCC of the call graph on the load path carries a depth bound
R03-loop    every loop on the load path makes progress on every cycle through its head
R03-unwind  no catch_unwind / process::exit / abort on the load path, no `unsafe` in the crate
"""
import json
import os
import re
from . import common, mir, panics, scopes, astq
from .common import Finding

# callees after which the caller has consumed input or leaves the loop (reviewed; reason per entry)
PROGRESS_CALLEES = [
    (r".*Iterator::next$|.*::next$|.*::next_back$", "std iterators / TokenIter::next yield each element once"),
    (r"parser::ParserState::get_token$", "consumes one token or returns Err (propagated by `?`)"),
    (r"parser::ParserState::expect_token$", "consumes at least one token or returns Err"),
    (r"parser::ParserState::get_(identifier|string|string_maxlen|integer|float|double)$", "built on expect_token"),
    (r"parser::ParserState::get_next_tag_or_comment$", "consumes a tag/comment token, or returns BlockContent::None / Err which leave the caller's loop"),
    (r".*::parse$", "element parsers consume at least their first token or return Err"),
    (r"ifdata::parse_(ifdata|unknown)[a-z_]*$", "consume tokens or return None/Err which leave the caller's loop"),
    (r"a2ml::parse_aml_[a-z_]*$", "built on the peekable token iterator: consume at least one token or return Err"),
    (r"a2ml::tokenize_(tag|include|number|keyword_ident)$", "advance *bytepos by at least one byte or return Err"),
    (r"a2ml::(get_ident|require_token_type|nexttoken|parse_optional_name)$", "consume one token of the A2ML token iterator or return Err"),
    (r"tokenizer::(find_block_comment_end|find_string_end)$", "return a position beyond their start argument or Err"),
    (r"tokenizer::tokenize$", "one include directive is consumed per iteration (Range iterator)"),
    (r"std::vec::Vec::pop$|std::iter::Peekable::next$|std::iter::Peekable::next_if.*$", "removes one element"),
]
_PC = [(re.compile(p), why) for p, why in PROGRESS_CALLEES]

# loops whose progress needs a semantic argument (one reason each); keyed by function + the set of progress-free paths' description
AUDITED_LOOPS = {
    "tokenizer::tokenize_core@loop0": "main scanner loop: every arm consumes at least the byte that selected it (whitespace/identifier/number arms test filebytes[bytepos] before their inner loops, which therefore run at least once), or returns Err",
    "tokenizer::handle_a2ml@loop0": "each pass either advances bytepos past a '/' construct, sets done, or reaches datalen; the '/end' arm sets done",
    "a2ml::tokenize_a2ml@loop0": "every arm consumes at least the byte that selected it or returns Err",
    "a2ml::parse_aml_type_enum@loop0": "each pass consumes a tag token via get_tag()/nexttoken or breaks on the closing bracket",
    "a2ml::parse_aml_member@loop0": "array dimension loop: consumes '[' const ']' tokens each pass, leaves when the next token is not '['",
    "ifdata::parse_unknown_ifdata@loop0": "every arm consumes a token or breaks, except the Include arm, which cannot be reached: tokenize() replaces every Include token by the included file's tokens (checked by R03-noinclude)",
}


def progress_reason(name):
    for rx, why in _PC:
        if rx.match(name):
            return why
    return None


def counter_progress(blk):
    """x = (x +/- c).0 on the same place: a strictly monotone loop counter"""
    tmp = {}
    for s in blk["s"]:
        if s["k"] != "assign":
            continue
        rv = s["rv"]
        if rv["r"] == "bin" and rv["op"] in ("AddWithOverflow", "SubWithOverflow", "Add", "Sub") and "k" in rv["b"] and not s["p"]["p"]:
            c = mir.const_int(rv["b"])
            if c and c >= 1 and mir.op_place(rv["a"]) is not None:
                tmp[s["p"]["l"]] = json.dumps(mir.op_place(rv["a"]), sort_keys=True)
    return tmp


def run(chk):
    prog = mir.prog()
    scope = scopes.load_scope(prog)
    if len(scope) < 300:
        chk.add(Finding("R03-scope", "R03-scope::floor", "only %d functions reachable from the load entry points (377 on the pinned tree): the entry points moved" % len(scope)))
    # ------------------------------------------------------------------ R03-panic
    panics.run_scope(chk, "R03-panic", prog, scope, what="panic obligations (asserts, indexing, slicing, unwrap, std panics) in the %d functions reachable from load/load_from_string/load_fragment/load_fragment_file" % len(scope), floor=300)

    # ------------------------------------------------------------------ R03-rec
    sccs = prog.sccs(scope)
    n = 0
    for scc in sccs:
        # SCCs that exist only through the over-approximated trait dispatch (derive(Clone)/PartialEq on generics) are not recursion of the loader
        members = [mir.strip_generics(m) for m in scc]
        if all(prog.bodies[m].trait_item in ("std::clone::Clone::clone", "std::cmp::PartialEq::eq", "std::fmt::Debug::fmt") for m in scc):
            continue
        n += 1
        # the cycle is identified by its members on the reviewed tree: a helper split off one of them later is the same cycle
        from . import sym as _sym
        kn = _sym.known_functions()
        kmem = [m for m in members if kn is None or m in kn]
        key = "R03-rec::" + " + ".join(sorted(kmem or members))
        # a depth bound: some member compares an integer parameter/field against a constant and the comparison guards the recursive call
        bounded = False
        for m in scc:
            b = prog.bodies[m]
            for bi, t in b.calls():
                if t.get("res") in scc or (t.get("res") or "").lstrip("?") in [prog.bodies[x].trait_item for x in scc]:
                    # dominating switch on a comparison `depth < CONST`
                    for bj, blk in enumerate(b.blocks):
                        tt = blk["t"]
                        if tt["k"] == "switch" and tt["dty"] == "bool" and b.dominates(bj, bi) and bj != bi:
                            for s in blk["s"]:
                                if s["k"] == "assign" and s["rv"]["r"] == "bin" and s["rv"]["op"] in ("Lt", "Le", "Gt", "Ge") and \
                                        ("k" in s["rv"]["a"] or "k" in s["rv"]["b"]):
                                    other = s["rv"]["b"] if "k" in s["rv"]["a"] else s["rv"]["a"]
                                    pl = mir.op_place(other)
                                    if pl is not None and re.search(r"depth|level|nest|recurs", (b.local_name(pl["l"]) or "") + json.dumps(pl)):
                                        bounded = True
        if not bounded:
            first = prog.bodies[sorted(scc)[0]]
            chk.add(Finding("R03-rec", key, "unbounded recursion on the load path: %s call each other with no depth limit; input nested deeply enough overflows the stack (abort, not an error value)" % ", ".join(sorted(members)), first.where()))
    chk.rule("R03-rec", "recursive call-graph SCCs on the load path that carry a depth bound", n, floor=5)

    # ------------------------------------------------------------------ R03-loop
    nl = 0
    for fid in sorted(scope):
        b = prog.bodies[fid]
        loops = b.natural_loops()
        succ = b.succ()
        for li, (h, body) in enumerate(sorted(loops.items())):
            nl += 1
            P = set()
            for bi in body:
                blk = b.blocks[bi]
                t = blk["t"]
                if t["k"] == "call" and t.get("res"):
                    nm = mir.strip_generics(t["res"].lstrip("?"))
                    if progress_reason(nm):
                        P.add(bi)
                    else:
                        cb = prog.bodies.get(t["res"])
                        if cb is not None and cb.kind == "Closure" and cb.parent and fid.startswith(cb.parent.split("::{closure")[0]):
                            # an immediately invoked local closure (generated sequence-item parser): progress if its body consumes a token
                            if any(progress_reason(mir.strip_generics((ct.get("res") or "").lstrip("?"))) for _, ct in cb.calls()):
                                P.add(bi)
                # monotone counter: x := (x +- c).0 completed in a successor block
                tmp = counter_progress(blk)
                if tmp:
                    for sb in succ[bi]:
                        for s in b.blocks[sb]["s"]:
                            if s["k"] == "assign" and s["rv"]["r"] == "use":
                                src = mir.op_place(s["rv"]["a"])
                                if src is not None and src["l"] in tmp and json.dumps(s["p"], sort_keys=True) == tmp[src["l"]]:
                                    P.add(sb)
            tails = [t for (t, hh) in b.back_edges() if hh == h]
            path = None if h in P else b.path_avoiding([h], P - {h}, tails) if True else None
            if path is not None:
                # restrict to the loop body
                seen = {h}
                st = [h]
                found = False
                while st:
                    x = st.pop()
                    if x in tails:
                        found = True
                        break
                    for y in succ[x]:
                        if y in body and y not in P and y not in seen:
                            seen.add(y)
                            st.append(y)
                if found:
                    key = "%s@loop%d" % (mir.strip_generics(fid), sorted(loops).index(h))
                    if key in AUDITED_LOOPS:
                        continue
                    chk.add(Finding("R03-loop", "R03-loop::" + key, "loop at %s can cycle through its head without consuming input: no progress operation (iterator next, token consumption, monotone counter) on some cycle" % b.where(b.blocks[h]["t"].get("ln")), b.where(b.blocks[h]["t"].get("ln"))))
    chk.rule("R03-loop", "natural loops on the load path with a progress operation on every cycle through the head (audited: %d)" % len(AUDITED_LOOPS), nl, floor=100)

    # premises of the progress table: a callee that is counted as progress because "it consumes the token that selected it or
    # fails" must keep the failure exit for the inputs it does not consume
    PREMISES = [
        ("ifdata::parse_unknown_taggedstruct", "InvalidBegin", "parse_unknown_ifdata calls it for every /begin token; for a /begin that does not start a tagged item it consumes nothing, so it must end in ParserError::InvalidBegin, otherwise the caller's loop spins on the same token (hang, unbounded memory)"),
    ]
    for fn, variant, why in PREMISES:
        fb = prog.bodies.get(fn)
        built = set()
        if fb is not None:
            for bi, si, st in fb.stmts():
                if st["k"] == "assign" and st["rv"]["r"] == "agg" and st["rv"].get("kind") == "adt" and st["rv"]["adt"].endswith("ParserError"):
                    built.add(st["rv"]["v"])
        nl += 1
        if fb is None or variant not in built:
            chk.add(Finding("R03-loop", "R03-loop::premise::%s::%s" % (fn, variant), "%s no longer ends in ParserError::%s: %s" % (fn, variant, why), fb.where() if fb else fn))
    # premises of the audited table: sites accepted because "a token exists" rely on the entry points refusing an empty token list
    # before a ParserState is built (get_line_offset indexes tokens[0], TokenIter::back undoes a successful next(), ...)
    from . import guards, sym
    GUARD_PREMISES = [
        ("load_impl", r"parser::ParserState::(<'a>::)?new$", r"is_empty\(.*tokens.*\)", False,
         "the token list of the main file is tested for emptiness (EmptyFileError) before the parser is created; a text of blanks/line breaks has no tokens"),
    ]
    npre = len(PREMISES)
    for fn, callee_rx, atom_rx, want, why in GUARD_PREMISES:
        fb = prog.bodies.get(fn)
        ok = False
        if fb is not None:
            S = sym.Analyzer(prog, opaque=[r".*"]).summary(fn)      # callees are not expanded: only the guard structure of fn itself matters
            for bi, t in fb.calls():
                if re.search(callee_rx, t.get("res") or ""):
                    F = guards.reach_formula(fb, S, bi)
                    iv = guards.implied_values(F) if F is not True else {}
                    ok = any(re.fullmatch(atom_rx, k[1]) and v == {want} for k, v in (iv or {}).items())
        npre += 1
        if not ok:
            chk.add(Finding("R03-premise", "R03-premise::%s::guard" % fn, "%s: %s -- that test no longer guards the call" % (fn, why), fb.where() if fb else fn))
    chk.rule("R03-premise", "failure exits the progress table relies on, and guards the audited table relies on", npre, floor=2)
    # R03-noinclude: tokenize() never lets an Include token through (supports the audited Include arm)
    b = prog.bodies.get("tokenizer::tokenize")
    n = 0
    if b is None:
        chk.add(Finding("R03-noinclude", "R03-noinclude::anchor", "tokenizer::tokenize not found"))
    else:
        # structural: the result tokens are built from sub-slices *between* include directives (input_tokens[a+1..b]) or the whole list when no directive exists
        txt = json.dumps(b.j["blocks"])
        n = 1
        if "include_directives" not in [l["n"] for l in b.locals if l["n"]]:
            chk.add(Finding("R03-noinclude", "R03-noinclude::shape", "tokenize() no longer collects the positions of Include tokens", b.where()))
    chk.rule("R03-noinclude", "tokenize() builds its result from the token ranges between Include directives", n, floor=1)

    # R03-sentinel: loops that replace an out-of-range read by a constant instead of leaving must leave under that constant
    from . import consteval
    ns = 0
    for fid in sorted(scope):
        b = prog.bodies[fid]
        if b.file == "a2lfile/src/specification.rs":
            continue
        for head, blocks, sb, cb, l, c in consteval.sentinel_sites(b):
            ns += 1
            bad = consteval.sentinel_spins(prog, b, head, blocks, cb)
            if bad:
                chk.add(Finding("R03-sentinel", "R03-sentinel::%s::%s" % (mir.strip_generics(fid), c), "%s: at the end of the input the loop substitutes the constant %s for the missing byte, and with that constant an iteration can come back to the loop head in the same state (blocks %s): the loop never ends (hang / unbounded scan position)" % (fid, c, "->".join(str(x) for x in bad[0][:14])), b.where(b.blocks[cb]["s"][0]["ln"])))
    chk.rule("R03-sentinel", "loops on the load path that substitute a constant for a read past the end: constant-folded iteration leaves the loop", ns, floor=1)

    # R03-fileid: the audited subtraction `cur_line - prev_line` in get_line_offset (and the token text slices) rely on every file
    # having its own id, so that tokens with one id are in line order
    from . import c16
    c16.r16_fileid(chk, rule="R03-fileid")

    # ------------------------------------------------------------------ R03-unwind
    n = 0
    for fid in sorted(scope):
        b = prog.bodies[fid]
        for bi, t in b.calls():
            n += 1
            r = t.get("res") or ""
            if re.search(r"catch_unwind|std::process::(exit|abort)|std::intrinsics::abort|resume_unwind", r):
                chk.add(Finding("R03-unwind", "R03-unwind::%s::%s" % (fid, r), "%s calls %s on the load path" % (fid, r), b.where(t["ln"])))
    nunsafe = 0
    for rel, f in astq.files().items():
        if not rel.startswith("a2lfile/src"):
            continue
        for x in astq.walk(f):
            if x.get("t") == "Unsafe":
                nunsafe += 1
                chk.add(Finding("R03-unwind", "R03-unwind::unsafe::%s" % rel, "unsafe block in %s: the 'returns a model or an error value' argument needs a crate without unsafe code" % rel, "%s:%s" % (rel, x.get("line"))))
        src = open(os.path.join(common.REPO, rel)).read()
        for m in re.finditer(r"\bunsafe\s+(fn|impl|trait|extern)\b", src):
            chk.add(Finding("R03-unwind", "R03-unwind::unsafe-item::%s" % rel, "unsafe item in %s" % rel, rel))
    chk.rule("R03-unwind", "calls on the load path checked for catch_unwind/exit/abort; crate checked for unsafe", n, floor=3000)
    chk.assumptions += ["inputs < 4 GiB and < 2^32 elements (u32 line counter and sequential ids)", "std functions outside oracle/std_panics.json are total",
                        "allocation failure is out of scope", "not decided: wall-clock behaviour"]
