"""C10 Cleanup removes only, and all, unreferenced helper elements (structural clauses; DESIGN.md section 3, C10)

R10-frame   cleanup only removes elements of the removable helper lists and only drops dangling references elsewhere
R10-used    the 'used' set that filters a removable list holds exactly the reference sites targeting that namespace
R10-exists  a reference is dropped as dangling only after a lookup that covers every member list of its target namespace
R10-queue   in the GROUP/FUNCTION work queues the re-queue test inside the loop is the same as the initial test
R10-order   holders are cleaned before the namespaces they refer to; a namespace that refers to itself needs a work list
"""
import re
from . import mir, sym, refs
from .common import Finding

REMOVABLE = {"group", "function", "compu_method", "compu_tabs", "unit", "record_layout"}
PREFIX = "A2lFile.project/Project.module/"
REMOVERS = re.compile(r".*::(retain|retain_mut|remove|swap_remove|swap_remove_idx|pop|clear|truncate|drain|dedup|take)$")


def strip(p):
    return p[len(PREFIX):] if p.startswith(PREFIX) else p


def paths_of(terms, root=("param", 1)):
    out = set()
    for t in terms:
        r, p = refs.term_path(t)
        if r == root and p:
            out.add(strip(p))
    return out


def set_ids(terms):
    """identity of a set/map argument: var terms (named locals) or the chain of key lists it was collected from"""
    ids = {t for t in terms if isinstance(t, tuple) and t[0] == "var"}
    if ids:
        return ("var", tuple(sorted(i[2] + "@" + i[1] for i in ids)))
    ps = paths_of(terms)
    if ps:
        return ("lists", tuple(sorted(ps)))
    return None


def worklist_idiom(prog, A, contains_ev, sid):
    """the used-set is closed transitively with a work list: inside one loop of the function that fills the set there is a
    Vec::pop, an insert into the set and a Vec::push onto the same vector"""
    if sid is None or sid[0] != "var":
        return False
    fid = sid[1][0].split("@", 1)[1]
    b = prog.bodies.get(fid)
    if b is None:
        return False
    S = A.summary(fid)
    ev = [e for e in S.events if e[0] == "call" and e[3] == fid]
    for h, body in b.natural_loops().items():
        pops = [e for e in ev if e[1].endswith("Vec::pop") and e[6] in body]
        for pe in pops:
            q = {t for t in pe[2][0] if isinstance(t, tuple) and t[0] == "var"}
            pushes = [e for e in ev if e[1].endswith("Vec::push") and e[6] in body and q & set(e[2][0])]
            ins = [e for e in ev if re.search(r"HashSet::insert$", e[1]) and e[6] in body and set_ids(e[2][0]) == sid]
            if q and pushes and ins:
                # the element that is newly recorded as used is the one that is queued for its own references to be followed
                # (pushing the name just popped instead ends the walk after one hop)
                def vals(e):
                    return {t for t in (e[2][1] if len(e[2]) > 1 else ()) if not (isinstance(t, tuple) and t[0] in ("var", "const"))}
                if any(vals(pu) & vals(i) for pu in pushes for i in ins):
                    return True
    return False


TRANSPARENT_CALLS = re.compile(r"(Deref>?::deref|DerefMut>?::deref_mut|Clone>?::clone|clone::Clone::clone|borrow::Borrow::borrow|convert::AsRef::as_ref|String::as_str|string::String::clone|ops::deref::Deref::deref)$")


def value_root(b, l, depth=0):
    """where the value of local l comes from, through copies, references, field projections and transparent calls:
    ("item", <local that receives an Iterator::next / Vec::pop result>) | ("idx", root of the index operand) | ("param", n) | ("local", l)"""
    if depth > 12:
        return ("local", l)
    if 1 <= l <= b.argc:
        return ("param", l)
    defs = []
    for bi, blk in enumerate(b.blocks):
        if blk["cleanup"]:
            continue
        for s in blk["s"]:
            if s["k"] == "assign" and not s["p"]["p"] and s["p"]["l"] == l:
                defs.append(("s", s))
        t = blk["t"]
        if t["k"] == "call" and not t["dest"]["p"] and t["dest"]["l"] == l:
            defs.append(("c", t))
    if len(defs) != 1:
        return ("local", l)
    k, d = defs[0]
    if k == "s":
        rv = d["rv"]
        pl = None
        if rv["r"] == "use":
            pl = mir.op_place(rv["a"])
        elif rv["r"] == "ref":
            pl = rv["p"]
        elif rv["r"] == "cast":
            pl = mir.op_place(rv["a"])
        if pl is None:
            return ("local", l)
        return value_root(b, pl["l"], depth + 1)
    nm = mir.strip_generics((d.get("res") or "").lstrip("?"))
    if re.search(r"(Iterator::next|Vec::pop|IntoIterator::into_iter)$", nm) or nm.endswith("::next"):
        return ("item", l)
    if re.search(r"(Index>?::index|IndexMut>?::index_mut|ops::index::Index::index|ops::index::IndexMut::index_mut|ItemList::get|ItemList::get_mut|slice::<impl \[T\]>::get|Vec::get)$", nm) and len(d["args"]) == 2:
        ip = mir.op_place(d["args"][1])
        return ("idx", value_root(b, ip["l"], depth + 1) if ip else ("const", d["args"][1].get("k")))
    if TRANSPARENT_CALLS.search(nm) and d["args"]:
        ip = mir.op_place(d["args"][0])
        if ip is not None:
            return value_root(b, ip["l"], depth + 1)
    return ("local", l)


CLEANUP_CALLS = re.compile(r"(cleanup::\w+(::\w+)*|retain|retain_mut|Vec(<.*>)?::push|Vec(<.*>)?::pop|HashSet(<.*>)?::(insert|contains|remove)|HashMap(<.*>)?::(insert|contains_key|get|remove)|ItemList(<.*>)?::(retain|index|get|contains_key|swap_remove\w*)|mem::take|Option(<.*>)?::take)$")


def cleanup_table(prog):
    """decision table of cleanup.rs and cleanup/*.rs: which list is filtered / which entry dropped / which name recorded under
    which condition, the work-queue steps and the predicate helpers"""
    from . import diag
    A = sym.Analyzer(prog, opaque=[r"cleanup::.*", r"module::.*::(objects|compu_tabs|typedefs)"])
    fids = sorted(f for f, b in prog.bodies.items() if b.file.startswith("a2lfile/src/cleanup") and b.kind != "Closure" and "::test" not in f)
    return diag.module_table(prog, A, fids, CLEANUP_CALLS, cursors=False)


def run(chk):
    prog = mir.prog()
    n = refs.check_table_current(chk, "R10-table")
    chk.rule("R10-table", "identifier fields of the current DSL classified in the reference-site table", n or 0, floor=81)
    if "cleanup::cleanup" not in prog.bodies:
        chk.add(Finding("R10-frame", "R10-frame::anchor", "cleanup::cleanup not found"))
        return
    A = sym.Analyzer(prog, opaque=[r"module::.*::(objects|compu_tabs|typedefs)"])
    S = A.summary("cleanup::cleanup")
    T = refs.table()
    idx = {}
    for k, ps in T["paths"].items():
        for p in ps:
            idx[p] = (k, T["fields"][k])
    list_ns = {}
    for ns, lists in T["namespaces"].items():
        for l in lists:
            list_ns[l] = ns
    calls = [e for e in S.events if e[0] == "call"]
    writes = [e for e in S.events if e[0] == "write"]

    # ---------------------------------------------------------------- set contents
    content = {}      # set id -> set of inserted value paths
    for e in calls:
        if re.search(r"(HashSet|HashMap|BTreeSet)[^:]*(::|>::)(insert|extend)$|Extend>?::extend$", e[1]) and len(e[2]) >= 2:
            sid = set_ids(e[2][0])
            if sid:
                content.setdefault(sid, set()).update(paths_of(e[2][1]))
    def content_of(terms):
        sid = set_ids(terms)
        if sid is None:
            return None, set()
        if sid[0] == "lists":
            return sid, set(sid[1])
        return sid, content.get(sid, set())

    # ---------------------------------------------------------------- R10-frame
    nframe = 0
    removed_lists = {}
    for e in calls:
        if not e[2] or not e[7] or not e[7][0].startswith("&mut"):
            continue
        if not REMOVERS.match(e[1]):
            continue
        targets = paths_of(e[2][0])
        if not targets:
            continue
        fn = prog.bodies.get(e[3])
        for pth in targets:
            nframe += 1
            if pth in list_ns and list_ns[pth] in REMOVABLE:
                removed_lists.setdefault(pth, []).append(e)
                continue
            site = idx.get(pth)
            if site is not None and site[1]["role"] == "ref":
                continue      # dropping entries of an identifier list (dangling references)
            if e[1].endswith("mem::take") and pth in list_ns:
                continue      # temporarily moved out and put back (remove_broken_object_refs)
            chk.add(Finding("R10-frame", "R10-frame::%s::%s" % (e[1].split("::")[-1], pth), "cleanup removes entries from %s with %s: only GROUP, FUNCTION, COMPU_METHOD, COMPU_TAB/VTAB/VTAB_RANGE, UNIT and RECORD_LAYOUT elements (and dangling reference entries) may be removed" % (pth, e[1]), fn.where(e[4]) if fn else ""))
    for e in writes:
        r, p = refs.term_path(e[1])
        if r != ("param", 1) or not p:
            continue
        pth = strip(p)
        nframe += 1
        fn = prog.bodies.get(e[3])
        site = idx.get(pth)
        vals = {sym.fmt(v) for v in e[2]}
        if site is not None and site[1]["role"] == "ref":
            sent = site[1].get("sentinel")
            if sent and vals == {'"%s"' % sent}:
                continue
            chk.add(Finding("R10-frame", "R10-frame::write::" + pth, "cleanup overwrites the reference %s with %s (only its own 'no reference' sentinel is allowed)" % (pth, sorted(vals)), fn.where(e[4]) if fn else ""))
            continue
        # Option holder of references set to None / a list moved back
        holder = [q for q in idx if q.startswith(pth + "/") and q.count("/") == pth.count("/") + 1 and idx[q][1]["role"] == "ref"]
        if holder and not vals:
            continue
        if pth in list_ns and all(strip(refs.term_path(v)[1]) == pth for v in e[2] if refs.term_path(v)[1]):
            continue
        chk.add(Finding("R10-frame", "R10-frame::write::" + pth, "cleanup writes %s to %s: measurement/calibration objects and typedefs must not be altered" % (sorted(vals), pth), fn.where(e[4]) if fn else ""))
    chk.rule("R10-frame", "removals and writes performed by cleanup confined to removable helper lists, dangling reference entries and sentinels", nframe, floor=37)

    # ---------------------------------------------------------------- R10-used
    nused = 0
    filtered = {}     # list path -> (set id, content)
    for e in calls:
        if re.search(r"(HashSet|HashMap)::contains(_key)?$", e[1]) and len(e[2]) >= 2:
            for kp in paths_of(e[2][1]):
                site = idx.get(kp)
                if site is not None and site[1]["role"] == "def":
                    lst = kp.rsplit("/", 1)[0]
                    if lst in list_ns and list_ns[lst] in REMOVABLE:
                        sid, cont = content_of(e[2][0])
                        filtered[lst] = (sid, cont, e)
    for lst, (sid, cont, e) in sorted(filtered.items()):
        ns = list_ns[lst]
        fn = prog.bodies.get(e[3])
        want = {p for (k, p, info) in refs.sites({ns})}
        for p in sorted(cont):
            nused += 1
            site = idx.get(p)
            if site is None or site[1]["role"] != "ref":
                chk.add(Finding("R10-used", "R10-used::%s::alien::%s" % (lst, p), "the set that decides which %s elements are kept contains %s, which is not a reference" % (lst, p), fn.where(e[4]) if fn else ""))
            elif site[1]["ns"] != ns:
                chk.add(Finding("R10-used", "R10-used::%s::wrongns::%s" % (lst, p), "%s refers to namespace `%s` but is counted as a use of %s (namespace `%s`): an unrelated element of the same name is kept, and the real target is not protected" % (p, site[1]["ns"], lst, ns), fn.where(e[4]) if fn else ""))
        for p in sorted(want - cont):
            nused += 1
            if p.split("/")[0] == lst and lst in ("Module.group", "Module.function"):
                continue      # references between elements of the same list: handled by the deletion work queue (R10-queue), not by the used-set
            chk.add(Finding("R10-used", "R10-used::%s::missing::%s" % (lst, p), "elements of %s that are referenced only from %s are removed as unused" % (lst, p), fn.where(e[4]) if fn else ""))
    chk.rule("R10-used", "used-sets of the retained helper lists (%s) compared with the reference sites of their namespace" % ", ".join(sorted(filtered)), nused, floor=18)
    for lst in ("Module.compu_method", "Module.compu_tab", "Module.compu_vtab", "Module.compu_vtab_range", "Module.unit", "Module.record_layout"):
        if lst not in filtered:
            chk.add(Finding("R10-used", "R10-used::anchor::" + lst, "no used-set filter found for %s" % lst))

    # ---------------------------------------------------------------- R10-exists
    nex = 0
    for e in calls:
        m = re.search(r"(HashSet|HashMap)::contains(_key)?$|ItemList::(contains_key|get|index)$", e[1])
        if not m or len(e[2]) < 2:
            continue
        for kp in paths_of(e[2][1]):
            site = idx.get(kp)
            if site is None or site[1]["role"] != "ref":
                continue
            ns = site[1]["ns"]
            fn = prog.bodies.get(e[3])
            nex += 1
            # what does the consulted set/list cover?
            cover = set()
            for t in e[2][0]:
                if isinstance(t, tuple) and t[0] == "call" and t[1].split("::")[-1] in ("objects", "compu_tabs", "typedefs"):
                    cover |= set(T["namespaces"][t[1].split("::")[-1]])
            sid, cont = content_of(e[2][0])
            for p in cont:
                if p in list_ns:
                    cover.add(p)
                else:
                    # names of a list: Module.x/X.name
                    par = p.rsplit("/", 1)[0]
                    if par in list_ns and idx.get(p, (None, {}))[1].get("role") == "def":
                        cover.add(par)
            cover |= {p for p in paths_of(e[2][0]) if p in list_ns}
            if sid is not None and sid[0] == "var" and not cover:
                # a used-set (contents are references, not element names): not an existence test
                nex -= 1
                continue
            want = set(T["namespaces"].get(ns, []))
            if not cover:
                nex -= 1      # content of the consulted collection not resolved: not counted (the floor is on decided instances)
                continue
            wrong = {c for c in cover if list_ns.get(c) != ns}
            if wrong:
                chk.add(Finding("R10-exists", "R10-exists::%s::wrong::%s" % (kp, ",".join(sorted(wrong))), "the reference %s (-> %s) is tested against %s" % (kp, ns, sorted(wrong)), fn.where(e[4]) if fn else ""))
            miss = want - cover
            if miss:
                chk.add(Finding("R10-exists", "R10-exists::%s::missing::%s" % (kp, ",".join(sorted(miss))), "references in %s (-> namespace %s) are tested for existence without looking at %s: valid references to those elements are dropped as dangling" % (kp, ns, sorted(miss)), fn.where(e[4]) if fn else ""))
    chk.rule("R10-exists", "existence tests on references cover every member list of the target namespace", nex, floor=22)

    # ---------------------------------------------------------------- R10-queue
    nq = 0
    for fid in ("cleanup::groups::delete_empty_groups", "cleanup::functions::cleanup"):
        b = prog.bodies.get(fid)
        if b is None:
            chk.add(Finding("R10-queue", "R10-queue::anchor::" + fid, "%s not found" % fid))
            continue
        Sf = sym.Analyzer(prog, opaque=[r"cleanup::.*::is_(group|function)_empty", r"cleanup::.*::get_used_.*"]).summary(fid)
        pushes = [e for e in Sf.events if e[0] == "call" and e[3] == fid and e[1].endswith("Vec::push") and e[7] and "usize" in e[7][0] and any(isinstance(t, tuple) and t[0] == "var" and "queue" in t[2] for t in e[2][0])]
        conds = []
        for e in pushes:
            nq += 1
            tests = set()
            for (sb, taken) in b.control_deps_closure(e[6]):
                pred = b.preds()[sb]
                # the bool tested may come from a call terminator in the predecessor block
                cand = [sb] + [p for p in pred]
                for cb in cand:
                    t = b.blocks[cb]["t"]
                    if t["k"] == "call" and t.get("res"):
                        nm = mir.strip_generics(t["res"].lstrip("?"))
                        if re.search(r"HashSet::contains$|is_group_empty$|is_function_empty$", nm) and t["t"] == sb or (t["k"] == "call" and cb == sb):
                            if re.search(r"HashSet::contains$|is_group_empty$|is_function_empty$", nm):
                                tests.add(nm.split("::")[-1])
            conds.append((e, tests))
        want = {"contains", "is_group_empty" if "groups" in fid else "is_function_empty"}
        if len(pushes) < 2:
            chk.add(Finding("R10-queue", "R10-queue::shape::" + fid, "%s: expected an initial scan and a re-queue site for the deletion queue, found %d push site(s)" % (fid, len(pushes)), b.where()))
        # the three operands of a queueing decision denote one element: the index pushed, the name looked up in the used-set and
        # the element tested for emptiness
        for e, tests in conds:
            pblk = b.blocks[e[6]]["t"]
            parg = mir.op_place(pblk["args"][1]) if len(pblk["args"]) > 1 else None
            proot = value_root(b, parg["l"]) if parg else None
            for (sb, taken) in b.control_deps_closure(e[6]):
                for cb in [sb] + list(b.preds()[sb]):
                    t = b.blocks[cb]["t"]
                    if t["k"] != "call" or not t.get("res"):
                        continue
                    nm = mir.strip_generics(t["res"].lstrip("?"))
                    m = re.search(r"(HashSet::contains|is_group_empty|is_function_empty)$", nm)
                    if not m or (t["t"] != sb and cb != sb):
                        continue
                    aop = t["args"][1] if m.group(1) == "HashSet::contains" else t["args"][0]
                    apl = mir.op_place(aop)
                    aroot = value_root(b, apl["l"]) if apl else None
                    ok = aroot is not None and proot is not None and (aroot == ("idx", proot) or (aroot[0] == "item" and aroot == proot))
                    if not ok:
                        chk.add(Finding("R10-queue", "R10-queue::%s::operand::%s" % (fid, m.group(1).split("::")[-1]), "%s: the element queued for deletion and the element whose %s is tested are not the same element (queued: %s, tested: %s): a group/function that is still referenced, or not empty, can be deleted" % (fid, "name is looked up in the used-set" if "contains" in m.group(1) else "emptiness", proot, aroot), b.where(t["ln"])))
        # both tests are *required*: the condition under which an element is queued implies "not in the used-set" and "is empty"
        # (an `||` between them, or a negated test, keeps both calls in the control dependences but no longer implies them)
        from . import guards
        for e, tests in conds:
            F = guards.reach_formula(b, Sf, e[6])
            iv = guards.implied_values(F) if F is not True else {}
            if iv is None:
                continue
            for k, vals in sorted(iv.items()):
                subj = k[1]
                if re.search(r"contains\(", subj) and "used" in subj and vals != {False}:
                    chk.add(Finding("R10-queue", "R10-queue::%s::implies::contains" % fid, "%s: queueing an element for deletion does not imply that its name is absent from the used-set (condition allows %s)" % (fid, sorted(vals)), b.where(e[4])))
                if re.search(r"is_(group|function)_empty\(", subj) and vals != {True}:
                    chk.add(Finding("R10-queue", "R10-queue::%s::implies::empty" % fid, "%s: queueing an element for deletion does not imply that it is empty (condition allows %s)" % (fid, sorted(vals)), b.where(e[4])))
        for e, tests in conds:
            if not want <= tests:
                chk.add(Finding("R10-queue", "R10-queue::%s::%s" % (fid, ",".join(sorted(want - tests))), "%s queues an element for deletion without testing %s: the protection by the used-set / the emptiness test applies only at one of the two queueing sites" % (fid, sorted(want - tests)), b.where(e[4])))
    # ---------------------------------------------------------------- R10-empty
    # a FUNCTION / GROUP counts as empty exactly when every reference list it can hold is absent or empty
    from . import guards as _g
    EMPTY_EXCEPT = {"Module.group/Group.function_list/FunctionList.name_list": "documented in the source: a group without objects and sub groups is not useful, whatever functions it lists"}
    nemp = 0
    for fid, holder in (("cleanup::functions::is_function_empty", "Module.function/"), ("cleanup::groups::is_group_empty", "Module.group/")):
        fb = prog.bodies.get(fid)
        if fb is None:
            chk.add(Finding("R10-empty", "R10-empty::anchor::" + fid, fid + " not found"))
            continue
        Sf = sym.Analyzer(prog, opaque=[r"cleanup::.*"]).summary(fid)
        F = _g.value_formula(fb, Sf, 0)
        want = []
        for (k, pth, info) in refs.sites():
            if pth.startswith(holder) and pth not in EMPTY_EXCEPT and pth.count("/") == 2:
                seg = pth.split("/")
                field = seg[1].split(".")[-1]
                lst = seg[2].split(".")[-1]
                want.append((field, lst))
        nemp += len(want)
        if F is None:
            chk.add(Finding("R10-empty", "R10-empty::shape::" + fid, "%s: the condition under which it returns true cannot be derived" % fid, fb.where()))
            continue
        E = True
        for field, lst in sorted(want):
            one = ["or", ["e", "discr(arg1.%s)" % field, ["Some"], False], ["and", ["e", "discr(arg1.%s)" % field, ["Some"], True], ["b", "is_empty(arg1.%s.%s)" % (field, lst), True]]]
            E = one if E is True else ["and", E, one]
        eq = _g.equivalent(F, E)
        if eq is not True:
            got = sorted(_g.atoms_of(F))
            chk.add(Finding("R10-empty", "R10-empty::" + fid, "%s does not return true exactly when all of %s are absent or empty (tests found: %s): %s" % (fid, ", ".join(f for f, _ in sorted(want)), got, "elements that still hold references are removed, or empty ones are kept" if eq is False else "comparison not possible"), fb.where()))
    chk.rule("R10-empty", "reference lists of FUNCTION / GROUP that the emptiness predicates must examine (absent or empty, all of them)", nemp, floor=9)
    chk.rule("R10-queue", "deletion-queue push sites guarded by both 'not in used-set' and 'is empty'", nq, floor=4)

    # ---------------------------------------------------------------- R10-order
    no = 0
    top = prog.bodies["cleanup::cleanup"]
    for lst, (sid, cont, e) in sorted(filtered.items()):
        ns = list_ns[lst]
        holders = {}
        for p in cont:
            h = p.split("/")[0]
            if h in list_ns and list_ns[h] in REMOVABLE:
                holders.setdefault(list_ns[h], set()).add(h)
        for hns, hl in sorted(holders.items()):
            no += 1
            if hns != ns:
                # the holders are themselves removable: they must be cleaned before their references are counted as uses of `lst`
                tcalls = [(bi, t["res"]) for bi, t in top.calls() if (t.get("res") or "").startswith("cleanup::") and t["res"] in prog.bodies]
                reach = {f: set(prog.reachable([f])) | {f} for _, f in tcalls}
                user = [(bi, f) for bi, f in tcalls if e[3] in reach[f]]
                for h in sorted(hl):
                    for re_ in removed_lists.get(h, []):
                        rem = [(bi, f) for bi, f in tcalls if re_[3] in reach[f]]
                        if len(user) == 1 and len(rem) == 1 and user[0][1] != rem[0][1] and not top.dominates(rem[0][0], user[0][0]):
                            chk.add(Finding("R10-order", "R10-order::%s::before::%s" % (lst, h), "%s counts references from %s as uses of %s, but %s removes unused %s elements only afterwards: an element that is referenced only by a holder that is about to be deleted survives this run and is removed by the next one (cleanup is not idempotent)" % (user[0][1], h, lst, rem[0][1], h), top.where(top.blocks[user[0][0]]["t"]["ln"])))
            if hns == ns and not worklist_idiom(prog, A, e, sid):
                chk.add(Finding("R10-order", "R10-order::self::" + lst, "%s elements refer to elements of the same namespace (%s) and the list is filtered in a single pass: a chain is only removed one link per cleanup() call, so running cleanup twice removes more than running it once" % (lst, sorted(cont & {p for p in cont if p.split('/')[0] in hl})), prog.bodies[e[3]].where(e[4])))
    chk.rule("R10-order", "removable namespaces whose used-set is fed by elements of a removable namespace (ordering / self reference)", no, floor=3)
    from . import diag
    diag.compare(chk, "R10-steps", "cleanup", cleanup_table(prog), "steps of cleanup (filters, recorded names, dropped entries, work-queue operations, predicate helpers and predicate closures) with their control predicates, compared with the reviewed table", floor=60)
    # dangling references are dropped first: whether an element is empty / unreferenced is judged (is_*_empty, get_used_*,
    # delete_empty_*) only after the remove_broken_* / remove_invalid_* steps of the same function ran, otherwise an element that
    # only holds dangling references survives this run and goes in the next one
    nfirst = 0
    for fid, b in sorted(prog.bodies.items()):
        if not fid.startswith("cleanup::") or b.kind == "Closure":
            continue
        rem = [(bi, t) for bi, t in b.calls() if re.search(r"cleanup::(\w+::)*remove_(broken|invalid)\w*$", mir.strip_generics(t.get("res") or ""))]
        jud = [(bi, t) for bi, t in b.calls() if re.search(r"cleanup::(\w+::)*(is_\w+_empty|get_used_\w+|delete_empty_\w+)$", mir.strip_generics(t.get("res") or ""))]
        for rb, rt in rem:
            for jb, jt in jud:
                nfirst += 1
                if not (rb != jb and b.dominates(rb, jb)):
                    chk.add(Finding("R10-first", "R10-first::%s::%s" % (mir.strip_generics(fid), mir.strip_generics(rt["res"]).split("::")[-1]), "%s calls %s only after (or not on every path before) %s: elements whose only content is a dangling reference are judged non-empty, survive this cleanup() and are removed by the next one" % (fid, mir.strip_generics(rt["res"]).split("::")[-1], mir.strip_generics(jt["res"]).split("::")[-1]), b.where(rt["ln"])))
    chk.rule("R10-first", "(removal of dangling references, emptiness / use judgement) pairs inside one cleanup function: removal first", nfirst, floor=3)
    # take / put back: a list that a cleanup step moves out of the module (`std::mem::take(&mut module.x)`, to iterate over it
    # while it looks at the rest of the module) is stored back on every path to the function's return
    nrest = 0
    for fid, b in sorted(prog.bodies.items()):
        if not fid.startswith("cleanup::") or b.kind == "Closure":
            continue
        refs_ = {}
        for bi, si, st in b.stmts():
            if st["k"] == "assign" and not st["p"]["p"] and st["rv"]["r"] == "ref":
                pl = st["rv"]["p"]
                flds = [x["f"] for x in pl["p"] if isinstance(x, dict) and "f" in x]
                if 1 <= pl["l"] <= b.argc and len(flds) == 1:
                    refs_[st["p"]["l"]] = (pl["l"], flds[0])
        for bi, t in b.calls():
            if not re.search(r"mem::take$", mir.strip_generics(t.get("res") or "")) or not t["args"]:
                continue
            ap = mir.op_place(t["args"][0])
            tgt = None
            l = ap["l"] if ap is not None and not ap["p"] else None
            for _ in range(4):
                if l in refs_:
                    tgt = refs_[l]
                    break
                nxt = None
                for bj, sj, s2 in b.stmts():
                    if s2["k"] == "assign" and not s2["p"]["p"] and s2["p"]["l"] == l and s2["rv"]["r"] in ("ref", "use"):
                        p2 = s2["rv"]["p"] if s2["rv"]["r"] == "ref" else mir.op_place(s2["rv"]["a"])
                        if p2 is not None and all(x == "*" for x in p2["p"]):
                            nxt = p2["l"]
                if nxt is None:
                    break
                l = nxt
            if tgt is None:
                continue
            writes = [bj for bj, sj, s2 in b.stmts() if s2["k"] == "assign" and s2["p"]["l"] == tgt[0] and [x["f"] for x in s2["p"]["p"] if isinstance(x, dict) and "f" in x] == [tgt[1]]]
            if not writes:
                continue        # taken for good (moved elsewhere): covered by R10-frame
            nrest += 1
            path = b.path_avoiding([t["t"]] if t.get("t") is not None else [], writes, b.return_blocks())
            if path is not None and t.get("t") not in writes:
                chk.add(Finding("R10-restore", "R10-restore::%s::%s" % (mir.strip_generics(fid), tgt[1]), "%s takes module.%s out of the module and can return without putting it back (path through blocks %s): every element of that list is deleted" % (fid, tgt[1], "->".join(str(x) for x in path[:10])), b.where(t["ln"])))
    chk.rule("R10-restore", "lists moved out of the module for a cleanup step and stored back on every path to the return", nrest, floor=1)
    from . import c13
    c13.shared(chk, "R10-list", "cleanup finds groups, functions and units by name through ItemList")
    chk.assumptions += ["not decided: idempotence as such (R10-order is its necessary condition)"]
