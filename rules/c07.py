"""C07 Non-strict recovery is local (structural clauses; see DESIGN.md section 3, C07)

R07-stop   TAG_LIST == tags of the block's own match arms; default arm kind; tag source
R07-skip   exits and diagnostics of the unknown-element skipping code (handle_unknown_taggedstruct_tag, get_next_tag_or_comment)
           happen under the reviewed conditions (stop-list membership test, balance tests, token kinds)
R07-once   exactly one diagnostic (error_or_log(unknown_sub_block)) on every path of the skip function, constructed first
"""
import re
from . import genrules, mir, diag, c06
from .common import Finding

SKIP_FNS = ("parser::ParserState::handle_unknown_taggedstruct_tag", "parser::ParserState::get_next_tag_or_comment", "parser::ParserState::undo_get_token",
            "parser::TokenIter::back")
HUT = "parser::ParserState::<'a>::handle_unknown_taggedstruct_tag"


CURSOR_OPS = re.compile(r"parser::(ParserState::(get_token|undo_get_token|set_tokenpos|peek_token|expect_token)|TokenIter::(next|back|peek))$")


def skip_table(prog):
    """cursor operations (consume / step back / restore) and counter steps of the skipping code with their control predicates"""
    from . import sym, guards
    A = sym.Analyzer(prog, opaque=[r"parser::.*"])
    fids = diag.with_new_functions(prog, [f for f in prog.bodies if mir.strip_generics(f) in SKIP_FNS])

    def eff(b, S, ev):
        nm = mir.strip_generics(ev[1])
        if CURSOR_OPS.search(nm):
            return "cursor " + nm.split("::")[-1]
        return None
    t = diag.table_for(prog, A, fids, eff)
    for fid in fids:
        rows = diag.cursor_rows(prog, A, fid)
        if rows:
            have = t.setdefault(mir.strip_generics(fid), [])
            have.extend(rows)
            have.sort(key=lambda r: (r[0], r[1]))
    return t


def run(chk):
    genrules.r04_grammar(chk, rule="R07-grammar-aux", slot_rule="R07-aux-slot", stop_rule="R07-stop")
    chk.findings = [f for f in chk.findings if f.rule in ("R07-stop",)]
    chk.rules = [r for r in chk.rules if r["rule"] == "R07-stop"]
    prog = mir.prog()
    diag.compare(chk, "R07-skip", "parser", c06.parser_table(prog), "diagnostics and hard-error exits of the unknown-element skipping code with their control predicates, compared with the reviewed table",
                 floor=4, fn_filter=lambda fn: fn in SKIP_FNS)
    diag.compare(chk, "R07-cursor", "skip", skip_table(prog), "token-cursor operations (consume, step back) and nesting-counter steps of the unknown-element skipping code with their control predicates, compared with the reviewed table", floor=8)
    # R07-once
    b = prog.bodies.get(HUT)
    n = 0
    if b is None:
        chk.add(Finding("R07-once", "R07-once::anchor", "handle_unknown_taggedstruct_tag not found"))
    else:
        eol = [(bi, t) for bi, t in b.calls() if (t.get("res") or "").endswith("error_or_log")]
        logw = [(bi, t) for bi, t in b.calls() if (t.get("res") or "").endswith("log_warning")]
        n = 1
        if len(eol) != 1 or logw:
            chk.add(Finding("R07-once", "R07-once::count", "handle_unknown_taggedstruct_tag must report the unknown element through exactly one error_or_log call (found %d error_or_log, %d log_warning calls)" % (len(eol), len(logw)), b.where()))
        else:
            bi, t = eol[0]
            # on every path from entry to a return the call is passed exactly once: it dominates all returns reached with Ok, and is not in a loop
            loops = b.natural_loops()
            if any(bi in body for body in loops.values()):
                chk.add(Finding("R07-once", "R07-once::loop", "the unknown-element diagnostic is emitted inside a loop: one unknown element can produce several warnings", b.where(t["ln"])))
            for rb in b.return_blocks():
                if not b.dominates(bi, rb) and b.path_avoiding([0], [bi], [rb]) is not None:
                    # a return reachable without passing the diagnostic
                    chk.add(Finding("R07-once", "R07-once::bypass", "handle_unknown_taggedstruct_tag can return without having reported the unknown element", b.where(t["ln"])))
                    break
    chk.rule("R07-once", "the skip function reports the unknown element exactly once on every path", n, floor=1)
    chk.assumptions += ["not decided: the /begin../end balance arithmetic and 'rest of file identical' (runtime)",
                        "oracle/diag_table.json is a reviewed snapshot of control predicates (semantic facts, not text)"]
