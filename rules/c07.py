"""C07 Non-strict recovery is local (structural clauses; see DESIGN.md section 3, C07)"""
from . import genrules


def run(chk):
    genrules.r04_grammar(chk, rule="R07-grammar-aux", slot_rule="R07-aux-slot", stop_rule="R07-stop")
    chk.findings = [f for f in chk.findings if f.rule in ("R07-stop",)]
    chk.rules = [r for r in chk.rules if r["rule"] == "R07-stop"]
    chk.assumptions += ["not decided: the /begin../end balance arithmetic and 'rest of file identical' (runtime)"]
