"""R01-writer / R02-writer / R05-writer / R15-writer: the text production decisions of writer.rs as a guarded-effect table.

Rows: for every function of the module `writer`, every call that appends to the output (String::push / push_str / write_fmt /
add_whitespace), every call that orders or filters the group (sort_by*, HashSet insert/contains, the comparator's cmp calls) and
every constant returned by the comparator, each with the conjunction of control predicates under which it happens (e.g.
`push('0')` under `value == 0.0`).  Compared with the reviewed section `writer` of oracle/diag_table.json."""
import re
from . import mir, sym, guards, diag

APPEND = re.compile(r"(string::String::push|string::String::push_str|fmt::Write::write_fmt|Write>?::write_fmt|writer::Writer::add_whitespace|writer::Writer::add_str|writer::apply_position_restrictions|writer::Writer::sort_function)$")
ORDER = re.compile(r"(sort_by|sort_unstable_by|sort_by_key|sort_unstable_by_key|sort_by_cached_key|HashSet<.*>::insert|HashSet<.*>::contains|hash::set::HashSet::insert|hash::set::HashSet::contains|::cmp|::partial_cmp|::total_cmp|clone::Clone>?::clone|iter::Iterator::filter|iter::Iterator::rev|iter::Iterator::skip|iter::Iterator::take|iter::Iterator::step_by|str::<impl str>::contains|str::<impl str>::starts_with|char::methods::<impl char>::is_whitespace|slice::<impl \[T\]>::swap|slice::<impl \[T\]>::reverse|Vec<.*>::insert|Vec<.*>::remove|Vec<.*>::swap_remove|vec::Vec::insert|vec::Vec::remove|vec::Vec::swap_remove|vec::Vec::push)$")


def _lit(b, S, t):
    """literal rendering of an argument term set"""
    return guards.fmt_terms(t, limit=2)


def effect(b, S, ev):
    nm = mir.strip_generics(ev[1])
    if APPEND.search(nm):
        args = ev[2][1:] if ev[2] else []
        return "%s(%s)" % (nm.split("::")[-1], ", ".join(_lit(b, S, a) for a in args))
    if ORDER.search(nm):
        return "%s(%s)" % ("::".join(nm.split("::")[-2:]), ", ".join(_lit(b, S, a) for a in (ev[2] or [])[:2]))
    return None


def ret_write(b, S, ev):
    # constants / values stored into the return place of the comparator and the accessors
    r, fields = sym.path_of(ev[1])
    return None


def table(prog):
    fids = [f for f, b in prog.bodies.items() if b.file == "a2lfile/src/writer.rs" and not f.startswith("writer::test")]
    A = sym.Analyzer(prog, opaque=[r"writer::.*"])
    t = diag.table_for(prog, A, fids, effect)
    # returned Ordering constants of the comparator (and of closures in writer.rs)
    for fid in fids:
        b = prog.bodies[fid]
        if "Ordering" not in (b.locals[0]["ty"] if b.locals else ""):
            continue
        S = A.summary(fid)
        rows = t.setdefault(mir.strip_generics(fid), [])
        for bi, blk in enumerate(b.blocks):
            if blk["cleanup"]:
                continue
            for s in blk["s"]:
                if s["k"] == "assign" and s["p"]["l"] == 0 and not s["p"]["p"]:
                    rv = s["rv"]
                    val = rv["a"]["k"] if rv["r"] == "use" and "k" in rv["a"] else (rv.get("v") if rv["r"] == "agg" else None)
                    if val is None and rv["r"] == "use":
                        continue
                    rows.append(["return %s" % val, sorted(guards.guard_set(b, S, bi))])
        rows.sort(key=lambda r: (r[0], r[1]))
    return t


def compare(chk, rule, fn_filter=None, floor=1):
    diag.compare(chk, rule, "writer", table(mir.prog()), "text production and ordering decisions of writer.rs (what is appended / sorted / skipped under which condition), compared with the reviewed table", floor=floor, fn_filter=fn_filter)
