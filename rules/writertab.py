"""R01-writer / R02-writer / R05-writer / R15-writer: the text production decisions of writer.rs as a guarded-effect table.

Rows: for every function of the module `writer`, every call that appends to the output (String::push / push_str / write_fmt /
add_whitespace), every call that orders or filters the group (sort_by*, HashSet insert/contains, the comparator's cmp calls) and
every constant returned by the comparator, each with the conjunction of control predicates under which it happens (e.g.
`push('0')` under `value == 0.0`).  Compared with the reviewed section `writer` of oracle/diag_table.json."""
import re
from . import mir, sym, guards, diag

APPEND = re.compile(r"(string::String::push|string::String::push_str|fs::write|specification::A2lFile::write_to_string|fmt::Write::write_fmt|Write>?::write_fmt|writer::Writer::add_whitespace|writer::Writer::add_str|writer::apply_position_restrictions|writer::Writer::sort_function)$")
ORDER = re.compile(r"(sort_by|sort_unstable_by|sort_by_key|sort_unstable_by_key|sort_by_cached_key|HashSet(<.*>)?::insert|HashSet(<.*>)?::contains|::cmp|::partial_cmp|::total_cmp|iter::Iterator::filter|iter::Iterator::rev|iter::Iterator::skip|iter::Iterator::take|iter::Iterator::step_by|str::<impl str>::contains|str::<impl str>::starts_with|char::methods::<impl char>::is_whitespace|slice::<impl \[T\]>::swap|slice::<impl \[T\]>::reverse|Vec<.*>::insert|Vec<.*>::remove|Vec<.*>::swap_remove|vec::Vec::insert|vec::Vec::remove|vec::Vec::swap_remove|vec::Vec::push)$")


def _lit(b, S, t):
    """literal rendering of an argument term set"""
    return guards.fmt_terms(t, limit=2)


def effect(b, S, ev):
    nm = mir.strip_generics(ev[1])
    if APPEND.search(nm):
        args = ev[2][1:] if ev[2] else []
        return "%s(%s)" % (nm.split("::")[-1], ", ".join(_lit(b, S, a) for a in args))
    if ORDER.search(nm):
        return "%s(%s)" % ("::".join(nm.split("::")[-2:]), ", ".join(_lit(b, S, a) for a in (ev[2] or [])[:2]))
    return None


def ret_write(b, S, ev):
    # constants / values stored into the return place of the comparator and the accessors
    r, fields = sym.path_of(ev[1])
    return None


LIT = re.compile(r"^(push|push_str)\((\'(?:[^\'\\]|\\.)+\'|\"(?:[^\"\\]|\\.)*\")\)$")


def _lit_text(eff):
    m = LIT.match(eff)
    if not m:
        return None
    body = m.group(2)[1:-1]
    return body


def table(prog):
    fids = [f for f, b in prog.bodies.items() if b.file == "a2lfile/src/writer.rs" and not f.startswith("writer::test")]
    # the two entry points that assemble the file text (banner, first line)
    fids += [f for f, b in prog.bodies.items() if b.file == "a2lfile/src/lib.rs" and re.search(r"A2lFile>?::(write|write_to_string)$", mir.strip_generics(f)) and b.kind != "Closure"]
    A = sym.Analyzer(prog, opaque=[r"writer::.*"])
    t = {}
    for fid in sorted(fids):
        b = prog.bodies[fid]
        S = A.summary(fid)
        order = {bi: k for k, bi in enumerate(b.rpo())}
        evs = []
        for ev in S.events:
            if ev[0] != "call" or ev[3] != fid:
                continue
            eff = effect(b, S, ev)
            if eff is None:
                continue
            evs.append((order.get(ev[6], 1 << 30), eff, tuple(sorted(guards.guard_set(b, S, ev[6])))))
        evs.sort(key=lambda x: x[0])
        rows = []
        # consecutive appends of literal text under the same conditions are one piece of output: push('\\'); push('n') == push_str("\\n")
        k = 0
        while k < len(evs):
            _, eff, gs = evs[k]
            txt = _lit_text(eff)
            if txt is None:
                rows.append([eff, list(gs)])
                k += 1
                continue
            j = k + 1
            while j < len(evs) and evs[j][2] == gs and _lit_text(evs[j][1]) is not None:
                txt += _lit_text(evs[j][1])
                j += 1
            rows.append(["append \"%s\"" % txt, list(gs)])
            k = j
        if rows:
            key = re.sub(r"\{closure#\d+\}", "{closure}", mir.strip_generics(fid))
            t.setdefault(key, []).extend(rows)
    for fid in fids:
        rows = diag.ordering_rows(prog, A, fid)
        if rows:
            key = re.sub(r"\{closure#\d+\}", "{closure}", mir.strip_generics(fid))
            have = t.setdefault(key, [])
            # the comparator's delegations (cmp calls) are already there as ORDER effects: add the returned constants only
            have.extend(r for r in rows if r[0].startswith("return "))
    # comparators whose whole decision table is checked semantically (cmpsem) have no rows here
    from . import cmpsem
    for fid in fids:
        if "error" not in cmpsem.decision_table(prog, fid) and prog.bodies[fid].locals and prog.bodies[fid].locals[0]["ty"] == "std::cmp::Ordering":
            t.pop(re.sub(r"\{closure#\d+\}", "{closure}", mir.strip_generics(fid)), None)
    for k in t:
        t[k].sort(key=lambda r: (r[0], r[1]))
    return t


def compare(chk, rule, fn_filter=None, floor=1):
    from . import cmpsem
    if fn_filter is None or fn_filter("writer::Writer::sort_function"):
        cmpsem.compare(chk, rule + "-cmp", select=lambda n: n.startswith("writer::"), floor=1)
    diag.compare(chk, rule, "writer", table(mir.prog()), "text production and ordering decisions of writer.rs (what is appended / sorted / skipped under which condition), compared with the reviewed table", floor=floor, fn_filter=fn_filter)


IFW = re.compile(r"(writer::Writer::(add_\w+|finish|new)|a2ml::GenericIfData::(write|write_item)|vec::Vec::push|Vec::push)$")


def value_chain(b, l, depth=0):
    """computations a value went through on its way into local l: arithmetic operators and non-trivial calls, nearest first (copies,
    references, field reads and plain conversions are skipped)"""
    if depth > 8 or 1 <= l <= b.argc:
        return []
    defs = []
    for blk in b.blocks:
        if blk["cleanup"]:
            continue
        for st in blk["s"]:
            if st["k"] == "assign" and not st["p"]["p"] and st["p"]["l"] == l:
                defs.append(("s", st))
        t = blk["t"]
        if t["k"] == "call" and t.get("dest") and not t["dest"]["p"] and t["dest"]["l"] == l:
            defs.append(("c", t))
    if len(defs) != 1:
        return []
    k, d = defs[0]
    if k == "s":
        rv = d["rv"]
        if rv["r"] == "bin":
            pl = mir.op_place(rv["a"])
            return ["arith:" + rv["op"].replace("WithOverflow", "")] + (value_chain(b, pl["l"], depth + 1) if pl is not None and not pl["p"] else [])
        if rv["r"] == "un":
            pl = mir.op_place(rv["a"])
            return ["arith:" + rv["op"]] + (value_chain(b, pl["l"], depth + 1) if pl is not None and not pl["p"] else [])
        pl = rv["p"] if rv["r"] == "ref" else (mir.op_place(rv["a"]) if rv["r"] in ("use", "cast") else None)
        return value_chain(b, pl["l"], depth + 1) if pl is not None else []
    nm = mir.strip_generics((d.get("res") or "").lstrip("?")).split("::")[-1]
    ip = mir.op_place(d["args"][0]) if d["args"] else None
    rest = value_chain(b, ip["l"], depth + 1) if ip is not None and not ip["p"] else []
    if nm in ("deref", "deref_mut", "as_ref", "as_mut", "borrow", "as_str", "into", "from", "clone", "to_owned", "to_string"):
        return rest
    return [nm] + rest


def ifdata_table(prog):
    """rows of GenericIfData::write / write_item: which writer call emits which variant's value (and location), the recursion into
    nested items, the tagged items handed to add_group"""
    fids = diag.with_new_functions(prog, [f for f in prog.bodies if re.search(r"a2ml::GenericIfData::(write|write_item)$", mir.strip_generics(f))])
    A = sym.Analyzer(prog, opaque=[r"writer::.*", r"a2ml::.*"])

    def eff(b, S, ev):
        nm = mir.strip_generics(ev[1])
        if IFW.search(nm):
            args = ev[2][1:] if ev[2] else []
            eff_ = "%s(%s)" % (nm.split("::")[-1], ", ".join(guards.fmt_terms(a, limit=2) for a in args[:3]))
            if re.search(r"Writer::add_(float|integer|str|str_raw|quoted_string)$", nm):
                # the value is handed to the writer as it was read: no arithmetic or conversion call in between
                pt = b.blocks[ev[6]]["t"]
                ap = mir.op_place(pt["args"][1]) if len(pt.get("args", [])) > 1 else None
                ch = value_chain(b, ap["l"]) if ap is not None and not ap["p"] else []
                if ch:
                    eff_ += " <- " + "<-".join(ch)
            return eff_
        return None
    t = diag.table_for(prog, A, fids, eff)
    # the hand-written equality of IF_DATA trees: the condition under which eq() returns true
    for fid, b in sorted(prog.bodies.items()):
        if b.trait_item == "std::cmp::PartialEq::eq" and "a2ml::GenericIfData" in (b.impl_of or fid):
            rows = diag.bool_rows(prog, A, fid)
            if rows:
                t[mir.strip_generics(fid)] = rows
    return t


def compare_ifdata(chk, rule, floor=10):
    diag.compare(chk, rule, "ifdatawriter", ifdata_table(mir.prog()), "writer calls of GenericIfData::write / write_item (which variant is written with which call, value and location; recursion into nested items), compared with the reviewed table", floor=floor)
