"""decision tables of comparators

A comparator (a function or closure returning std::cmp::Ordering) touches its inputs only through comparisons, so its whole behaviour
is a finite table: for every relative order of the keys it reads, the Ordering it returns.  This module evaluates the MIR of a
comparator abstractly: opaque values are *named* by how they are obtained (`get_layout(arg1).uid`, `get_name(arg2)`), every named key
ranges over a three-element ordered domain, and each comparison / `Ord::cmp` / `Ordering::then_with` is decided from the current
assignment.  The table over all assignments is the comparator's semantics up to the names of its keys; two codings of one ordering
(if/else chain, `match` on a tuple, `cmp().then_with(..)`) have the same table, a changed priority or a swapped operand does not.
No code of the library is run: the interpreter below walks the exported MIR facts.
"""
import itertools
import re
from . import mir

DOMAIN = (0, 1, 2)
TRANSPARENT = re.compile(r"(Deref>?::deref|deref|as_ref|borrow|Borrow>?::borrow|clone|Clone>?::clone|as_str|as_slice|to_owned|into|from|as_deref)$")


class NeedLeaf(Exception):
    def __init__(self, name):
        self.name = name


class Unsupported(Exception):
    pass


def _const(op):
    k = op.get("k")
    if k is None:
        return None
    if k in ("true", "false"):
        return k == "true"
    m = re.fullmatch(r"(-?\d+)_[iu](8|16|32|64|128|size)", k)
    if m:
        return int(m.group(1))
    return ("leaf", k)


class Frame:
    def __init__(self, prog, body, args, model):
        self.prog = prog
        self.b = body
        self.model = model
        self.loc = {}
        for i, a in enumerate(args):
            self.loc[i + 1] = a

    def num(self, v):
        if isinstance(v, bool):
            return int(v)
        if isinstance(v, int):
            return v
        if isinstance(v, tuple) and v[0] == "leaf":
            if v[1] not in self.model:
                raise NeedLeaf(v[1])
            return self.model[v[1]]
        raise Unsupported("number from %r" % (v,))

    def place(self, pl):
        l = pl["l"]
        if l in self.loc:
            v = self.loc[l]
        elif 1 <= l <= self.b.argc:
            v = ("leaf", "arg%d" % l)
        else:
            v = ("leaf", "local:%s" % self.b.locals[l]["ty"])
        for e in pl["p"]:
            if e == "*":
                continue
            if isinstance(e, dict) and "f" in e:
                if isinstance(v, tuple) and v[0] == "leaf":
                    v = ("leaf", v[1] + "." + e["f"])
                elif isinstance(v, tuple) and v[0] in ("tuple", "env"):
                    v = v[1][e["i"]]
                else:
                    raise Unsupported("field of %r" % (v,))
            elif isinstance(e, dict) and "down" in e:
                continue
            else:
                raise Unsupported("projection %r" % (e,))
        return v

    def operand(self, op):
        c = _const(op)
        if c is not None:
            return c
        pl = mir.op_place(op)
        if pl is None:
            raise Unsupported("operand %r" % (op,))
        return self.place(pl)

    def rvalue(self, rv):
        r = rv["r"]
        if r == "use" or r == "cast":
            return self.operand(rv["a"])
        if r == "ref":
            return self.place(rv["p"])
        if r == "bin":
            op = rv["op"]
            a, b_ = self.operand(rv["a"]), self.operand(rv["b"])
            if op in ("Eq", "Ne", "Lt", "Le", "Gt", "Ge"):
                if isinstance(a, tuple) and a[0] == "ord" and isinstance(b_, tuple) and b_[0] == "ord":
                    x, y = a[1], b_[1]
                else:
                    x, y = self.num(a), self.num(b_)
                return {"Eq": x == y, "Ne": x != y, "Lt": x < y, "Le": x <= y, "Gt": x > y, "Ge": x >= y}[op]
            if op in ("BitAnd", "BitOr") and isinstance(a, bool) and isinstance(b_, bool):
                return (a and b_) if op == "BitAnd" else (a or b_)
            raise Unsupported("binary %s" % op)
        if r == "un" and rv["op"] == "Not":
            v = self.operand(rv["a"])
            if isinstance(v, bool):
                return not v
            raise Unsupported("not of %r" % (v,))
        if r == "agg":
            if rv.get("kind") == "tuple":
                return ("tuple", [self.operand(o) for o in rv["ops"]])
            if rv.get("kind") == "closure":
                return ("closure", rv.get("cl"), [self.operand(o) for o in rv.get("ops") or []])
            if rv.get("kind") == "adt" and rv.get("adt") == "std::cmp::Ordering":
                return ("ord", {"Less": -1, "Equal": 0, "Greater": 1}[rv["v"]])
            if rv.get("kind") == "adt" and rv.get("adt") in ("std::option::Option",):
                return ("opt", rv.get("v"), [self.operand(o) for o in rv["ops"]])
            raise Unsupported("aggregate %s" % rv.get("adt"))
        if r == "discr":
            v = self.place(rv["p"])
            if isinstance(v, tuple) and v[0] == "ord":
                return ("discr-ord", v[1])
            if isinstance(v, tuple) and v[0] == "opt":
                return ("discr-opt", v[1])
            raise Unsupported("discriminant of %r" % (v,))
        raise Unsupported("rvalue %s" % r)

    def call(self, t):
        nm = mir.strip_generics((t.get("res") or t.get("fn") or "?").lstrip("?"))
        args = [self.operand(a) for a in t["args"]]
        last = nm.split("::")[-1]
        if last in ("cmp", "total_cmp") and len(args) == 2:
            if all(isinstance(a, tuple) and a[0] == "ord" for a in args):
                x, y = args[0][1], args[1][1]
            else:
                x, y = self.num(args[0]), self.num(args[1])
            return ("ord", (x > y) - (x < y))
        if last == "partial_cmp" and len(args) == 2:
            x, y = self.num(args[0]), self.num(args[1])
            return ("opt", "Some", [("ord", (x > y) - (x < y))])
        if nm.endswith("Ordering::then_with") and len(args) == 2:
            if args[0][1] != 0:
                return args[0]
            return call_closure(self.prog, args[1], [], self.model)
        if nm.endswith("Ordering::then") and len(args) == 2:
            return args[0] if args[0][1] != 0 else args[1]
        if nm.endswith("Ordering::reverse") and len(args) == 1:
            return ("ord", -args[0][1])
        if re.search(r"Ordering::(is_eq|is_ne|is_lt|is_gt|is_le|is_ge)$", nm) and len(args) == 1:
            o = args[0][1]
            return {"is_eq": o == 0, "is_ne": o != 0, "is_lt": o < 0, "is_gt": o > 0, "is_le": o <= 0, "is_ge": o >= 0}[last]
        if last in ("min", "max") and len(args) == 2 and re.search(r"cmp::(Ord::)?(min|max)$|Ord::(min|max)$", nm):
            x, y = self.num(args[0]), self.num(args[1])
            return args[0] if ((x <= y) == (last == "min")) else args[1]
        if TRANSPARENT.search(nm) and len(args) >= 1:
            return args[0]
        if last in ("unwrap", "expect") and args and isinstance(args[0], tuple) and args[0][0] == "opt" and args[0][1] == "Some":
            return args[0][2][0]
        # any other call: an opaque key named by the call
        names = []
        for a in args:
            if isinstance(a, tuple) and a[0] == "leaf":
                names.append(a[1])
            elif isinstance(a, (int, bool)):
                names.append(str(a))
            else:
                names.append("_")
        return ("leaf", "%s(%s)" % (last, ", ".join(names)))

    def run(self):
        bi = 0
        for _ in range(2000):
            blk = self.b.blocks[bi]
            for s in blk["s"]:
                if s["k"] != "assign":
                    continue
                v = self.rvalue(s["rv"])
                p = s["p"]
                if not p["p"]:
                    self.loc[p["l"]] = v
                elif len(p["p"]) == 1 and isinstance(p["p"][0], dict) and "f" in p["p"][0] and isinstance(self.loc.get(p["l"]), tuple) and self.loc[p["l"]][0] == "tuple":
                    self.loc[p["l"]][1][p["p"][0]["i"]] = v
                elif p["p"] == ["*"] or all(e == "*" for e in p["p"]):
                    self.loc[p["l"]] = v
                else:
                    raise Unsupported("store to projection")
            t = blk["t"]
            k = t["k"]
            if k == "goto":
                bi = t["t"]
            elif k == "return":
                return self.loc.get(0)
            elif k == "switch":
                v = self.operand(t["d"])
                if isinstance(v, bool):
                    keys = ["1" if v else "0"]
                elif isinstance(v, int):
                    keys = [str(v)]
                elif isinstance(v, tuple) and v[0] == "discr-ord":
                    keys = [str(v[1]), str(v[1] % 256), {-1: "Less", 0: "Equal", 1: "Greater"}[v[1]]]
                elif isinstance(v, tuple) and v[0] == "discr-opt":
                    keys = [{"None": "0", "Some": "1"}[v[1]], v[1]]
                else:
                    keys = [str(self.num(v))]
                nxt = None
                for val, tb in t["ts"]:
                    if val in keys:
                        nxt = tb
                bi = nxt if nxt is not None else t["o"]
            elif k == "call":
                v = self.call(t)
                d = t["dest"]
                if d["p"]:
                    raise Unsupported("call result into projection")
                self.loc[d["l"]] = v
                if t.get("t") is None:
                    raise Unsupported("diverging call")
                bi = t["t"]
            elif k in ("drop", "assert", "falseedge", "falseunwind"):
                bi = t.get("t") if t.get("t") is not None else t.get("o")
                if bi is None:
                    raise Unsupported("terminator %s without target" % k)
            else:
                raise Unsupported("terminator %s" % k)
        raise Unsupported("step limit")


def call_closure(prog, cl, args, model):
    if not (isinstance(cl, tuple) and cl[0] == "closure") or cl[1] not in prog.bodies:
        raise Unsupported("call of %r" % (cl,))
    body = prog.bodies[cl[1]]
    fr = Frame(prog, body, [("env", cl[2])] + list(args), model)
    return fr.run()


def decision_table(prog, fid):
    """{"keys": [names], "table": "LEG..."} over all assignments of the keys (lexicographic), or {"error": ..}"""
    body = prog.bodies.get(fid)
    if body is None:
        return {"error": "not found"}
    keys = []
    for _ in range(12):
        out = []
        try:
            for combo in itertools.product(DOMAIN, repeat=len(keys)):
                model = dict(zip(keys, combo))
                if body.kind == "Closure":
                    args = [("env", [("leaf", "capture%d" % i) for i in range(8)])] + [("leaf", "arg%d" % (i + 2)) for i in range(body.argc - 1)]
                else:
                    args = [("leaf", "arg%d" % (i + 1)) for i in range(body.argc)]
                v = Frame(prog, body, args, model).run()
                if isinstance(v, tuple) and v[0] == "opt" and v[1] == "Some":
                    v = v[2][0]
                if not (isinstance(v, tuple) and v[0] == "ord"):
                    return {"error": "result %r" % (v,)}
                out.append("LEG"[v[1] + 1])
            return {"keys": keys, "table": "".join(out)}
        except NeedLeaf as e:
            if e.name in keys or len(keys) >= 8:
                return {"error": "too many keys"}
            keys = sorted(keys + [e.name])
        except Unsupported as e:
            return {"error": "unsupported: %s" % e}
    return {"error": "no fixpoint"}


def comparators(prog):
    """hand-written comparators: functions and closures returning Ordering outside the generated file and outside trait impls of
    plain enums"""
    out = []
    for fid, b in sorted(prog.bodies.items()):
        if b.file and b.file.startswith("a2lfile/src/") and b.file != "a2lfile/src/specification.rs" and b.locals and b.locals[0]["ty"] == "std::cmp::Ordering":
            out.append(fid)
    return out


def tables(prog):
    out = {}
    for fid in comparators(prog):
        r = decision_table(prog, fid)
        if "error" in r:
            continue        # not a comparator over opaque keys (trait impls of plain enums, adapters that call a captured closure)
        key = re.sub(r"\{closure#\d+\}", "{closure}", mir.strip_generics(fid))
        out.setdefault(key, []).append(r)
    for k in out:
        out[k].sort(key=lambda r: (r["keys"], r["table"]))
    return out


def compare(chk, rule, select=None, floor=1):
    """decision tables of the comparators (selected by `select(name)`) equal the reviewed ones in oracle/comparators.json"""
    import json
    import os
    from . import common
    from .common import Finding
    prog = mir.prog()
    p = os.path.join(common.VERIF, "oracle", "comparators.json")
    n = 0
    if not os.path.exists(p):
        chk.add(Finding(rule, rule + "::oracle", "oracle/comparators.json missing"))
    else:
        ora = json.load(open(p))["comparators"]
        cur = tables(prog)
        known = None
        try:
            from . import sym
            known = sym.known_functions()
        except Exception:
            pass
        for name in sorted(set(ora) | set(cur)):
            if select is not None and not select(name):
                continue
            a, b_ = ora.get(name, []), cur.get(name, [])
            if name not in ora:
                # a comparator the reviewed tree does not have: only a finding if it replaces a reviewed one (reported there)
                continue
            n += len(a)
            if a != b_:
                body = next((x for f, x in prog.bodies.items() if re.sub(r"\{closure#\d+\}", "{closure}", mir.strip_generics(f)) == name), None)
                what = "no longer exists or is no longer a comparison of opaque keys" if not b_ else "orders its inputs differently"
                detail = ""
                if b_ and a and a[0]["keys"] == b_[0]["keys"]:
                    diff = [i for i, (x, y) in enumerate(zip(a[0]["table"], b_[0]["table"])) if x != y]
                    if diff:
                        vals = list(itertools.product(DOMAIN, repeat=len(a[0]["keys"])))[diff[0]]
                        detail = " (first difference: %s -> reviewed %s, now %s; %d of %d cases differ)" % (dict(zip(a[0]["keys"], vals)), a[0]["table"][diff[0]], b_[0]["table"][diff[0]], len(diff), len(a[0]["table"]))
                elif b_ and a:
                    detail = " (keys compared: reviewed %s, now %s)" % (a[0]["keys"], b_[0]["keys"])
                chk.add(Finding(rule, "%s::%s" % (rule, name), "the comparator %s %s%s" % (name, what, detail), body.where() if body else name))
    chk.rule(rule, "comparators whose decision table over all relative orders of their keys equals the reviewed table", n, floor=floor)
