"""R00-config (thorough tier): the default feature set is a superset of every other feature configuration.

The crate's features gate whole modules (`#[cfg(feature = "check")] mod checker;` ...).  All property rules analyse the MIR of
the default configuration (all five features on).  This rule exports the MIR of the six other configurations of the feature
lattice's generators (no features; each feature alone) and requires every body of those configurations to be present in the
default configuration with identical MIR and every ADT with identical fields - so that no `cfg(not(feature ..))` body or
field exists that the rules never saw.  A body that exists only without some feature is reported as a finding of the
property being checked (its rules did not analyse that code)."""
import hashlib
import json
import re
from . import common
from .common import Finding


_DEFID = re.compile(r"DefId\(\d+:\d+ ~ (\w+)\[[0-9a-f]+\]")


def _h(x):
    # DefId indices and the crate disambiguator hash differ between configurations; the def path that follows them does not
    return hashlib.sha256(_DEFID.sub(r"DefId(\1", json.dumps(x, sort_keys=True)).encode()).hexdigest()


def run(chk):
    base = common.mir_facts("default")
    bh = {b["id"]: _h(b) for b in base["bodies"]}
    ah = {a.get("path") or a.get("id") or a.get("name"): _h(a) for a in base["adts"]} if isinstance(base["adts"], list) else {k: _h(v) for k, v in base["adts"].items()}
    n = 0
    for tag in sorted(common.FEATURE_CONFIGS):
        if tag == "default":
            continue
        with open(common.mir_facts_path(tag)) as fh:
            other = json.load(fh)
        for b in other["bodies"]:
            n += 1
            if b["id"] not in bh:
                chk.add(Finding("R00-config", "R00-config::%s::only::%s" % (tag, b["id"]), "%s exists in the feature configuration '%s' but not with default features: the rules never analysed it" % (b["id"], tag), b.get("file", "")))
            elif bh[b["id"]] != _h(b):
                chk.add(Finding("R00-config", "R00-config::%s::differs::%s" % (tag, b["id"]), "%s has different MIR in the feature configuration '%s' than with default features" % (b["id"], tag), b.get("file", "")))
        adts = other["adts"]
        it = ((a.get("path") or a.get("id") or a.get("name"), a) for a in adts) if isinstance(adts, list) else adts.items()
        for k, a in it:
            n += 1
            if k not in ah or ah[k] != _h(a):
                chk.add(Finding("R00-config", "R00-config::%s::adt::%s" % (tag, k), "type %s differs in (or exists only in) the feature configuration '%s'" % (k, tag)))
        del other
    chk.rule("R00-config", "MIR bodies and types of the 6 non-default feature configurations found identical in the default configuration (which the rules analyse)", n, floor=3000)
