"""rules shared by C14 (sort) and C15 (sort_new_items)"""
import json
import re
from . import mir, sym, refs, guards, diag, c03
from .common import Finding

LAYOUT_FIELDS = {"BlockInfo.uid", "BlockInfo.start_offset", "BlockInfo.end_offset", "Comment.uid"}
ALLOWED_MUTATORS = re.compile(r"(itemlist::ItemList::sort_by|std::slice::sort_by|core::slice::sort_by|std::vec::Vec::clear|.*::get_layout_mut|.*::iter_mut|.*IntoIterator>?::into_iter|.*::into_iter|.*::next|.*::for_each|.*::as_mut|.*::deref_mut|.*::get_mut|.*::index_mut|.*::last_mut|.*::first_mut|.*::by_ref|.*::zip|.*::enumerate)$")


def layout_write(b, S, ev):
    r, fields = sym.path_of(ev[1])
    if not fields:
        return None
    last = fields[-1]
    vals = sorted({guards.fmt_terms({v}) for v in ev[2]})
    return "write %s = %s" % (last.split(".")[-1] if last in LAYOUT_FIELDS else last, "|".join(vals) if vals else "computed")


def sort_effect(b, S, ev):
    nm = ev[1]
    if re.search(r"sort::(sort_objectlist_full|sort_objectlist_new|sort_optional_item)$", nm):
        return "%s(%s)" % (nm.split("::")[-1], guards.fmt_terms(ev[2][0]) if ev[2] else "")
    if re.search(r"(sort_by|sort_unstable_by|sort_by_key|Vec::clear)$", nm):
        return "%s(%s)" % (nm.split("::")[-1], guards.fmt_terms(ev[2][0]) if ev[2] else "")
    return None


def sort_table(prog, fids):
    A = sym.Analyzer(prog, opaque=[r"sort::.*", r".*::get_layout_mut", r".*::get_layout"])
    t = diag.table_for(prog, A, fids, sort_effect, write_pred=layout_write)
    # comparators (functions and closures of sort.rs that return Ordering)
    for fid, b in prog.bodies.items():
        if b.file == "a2lfile/src/sort.rs" and (fid in fids or (b.parent and any(b.parent.startswith(mir.strip_generics(f)) or b.parent.startswith(f) for f in fids))):
            from . import cmpsem
            if "error" not in cmpsem.decision_table(prog, fid):
                continue        # checked semantically (decision table over all relative orders of its keys): R15-cmp / R14-cmp
            rows = diag.ordering_rows(prog, A, fid)
            if rows:
                have = t.setdefault(re.sub(r"\{closure#\d+\}", "{closure}", mir.strip_generics(fid)), [])
                have.extend(rows)
                have.sort(key=lambda r: (r[0], r[1]))
    return t


def frame(chk, rule, prog, entry):
    """everything reachable from `entry` inside sort.rs only writes layout fields and only calls reordering mutators"""
    scope = [f for f in prog.reachable([entry]) if prog.bodies[f].file == "a2lfile/src/sort.rs"]
    A = sym.Analyzer(prog, opaque=[r".*::get_layout_mut", r".*::get_layout"])
    n = 0
    for fid in sorted(scope):
        b = prog.bodies[fid]
        S = A.summary(fid)
        for ev in S.events:
            if ev[3] != fid:
                continue
            if ev[0] == "write":
                r, fields = sym.path_of(ev[1])
                if not fields:
                    continue
                n += 1
                if fields[-1] not in LAYOUT_FIELDS:
                    chk.add(Finding(rule, "%s::write::%s::%s" % (rule, mir.strip_generics(fid), fields[-1]), "%s writes %s: sorting may only change layout information (uid, start_offset, end_offset)" % (fid, ".".join(x.split(".")[-1] for x in fields)), b.where(ev[4])))
            elif ev[0] == "call" and ev[7] and ev[7][0].startswith("&mut") and ev[2] and any(isinstance(t, tuple) and t[0] in ("f", "param") for t in ev[2][0]):
                nm = ev[1]
                if nm.startswith("sort::") or ALLOWED_MUTATORS.match(nm) or nm in prog.bodies and prog.bodies[nm].file == "a2lfile/src/sort.rs":
                    n += 1
                    continue
                if re.search(r"closure", nm) or "FnMut" in nm or "FnOnce" in nm:
                    continue
                n += 1
                chk.add(Finding(rule, "%s::call::%s::%s" % (rule, mir.strip_generics(fid), nm), "%s applies %s to the model: sorting must not add, remove or alter elements" % (fid, nm), b.where(ev[4])))
    chk.rule(rule, "writes and mutating calls in sort.rs reachable from %s confined to layout fields and reordering" % entry, n, floor=10)


def counter_chain(chk, rule, prog, fids, floor=3):
    """after a uid is written from a counter variable, the counter is incremented before the next write from it / before it is returned"""
    n = 0
    for fid in sorted(fids):
        b = prog.bodies.get(fid)
        if b is None:
            continue
        succ = b.succ()
        # blocks that complete `V = (V + c).0`
        incs = {}
        for bi, blk in enumerate(b.blocks):
            tmp = c03.counter_progress(blk)
            for sb in succ[bi]:
                for s in b.blocks[sb]["s"]:
                    if s["k"] == "assign" and s["rv"]["r"] == "use":
                        src = mir.op_place(s["rv"]["a"])
                        if src is not None and src["l"] in tmp and json.dumps(s["p"], sort_keys=True) == tmp[src["l"]] and not s["p"]["p"]:
                            incs.setdefault(s["p"]["l"], set()).add(sb)
        # writes of a field named uid from a counter local
        writes = []
        for bi, blk in enumerate(b.blocks):
            for s in blk["s"]:
                if s["k"] == "assign" and s["p"]["p"] and isinstance(s["p"]["p"][-1], dict) and s["p"]["p"][-1].get("f") == "uid" and s["rv"]["r"] == "use":
                    src = mir.op_place(s["rv"]["a"])
                    if src is not None and not src["p"]:
                        v = src["l"]
                        # follow copies of single-definition temporaries (also across the call that fetches the layout record)
                        v = guards.resolve_copy(b, v)
                        writes.append((bi, v, s["ln"]))
        returned = set()
        for bi, si, s in b.stmts():
            if s["k"] == "assign" and not s["p"]["p"] and s["p"]["l"] == 0 and s["rv"]["r"] == "use":
                src = mir.op_place(s["rv"]["a"])
                if src is not None and not src["p"]:
                    returned.add(src["l"])
        for (wb, v, ln) in writes:
            if v not in incs:
                if v in returned:
                    n += 1
                    chk.add(Finding(rule, "%s::%s::noinc" % (rule, mir.strip_generics(fid)), "%s returns the variable it assigns uids from without ever incrementing it past the last assigned uid: the next list starts at a uid that is already in use" % fid, b.where(ln)))
                continue     # not a counter (constant uid etc.)
            n += 1
            sinks = [x for (x, v2, _) in writes if v2 == v]
            if v in returned:
                sinks += b.return_blocks()
            start = succ[wb]
            # a fresh definition of the counter (e.g. `let mut uid = 4` for the next module) also ends the obligation
            redefs = set()
            for bi2, blk2 in enumerate(b.blocks):
                for s2 in blk2["s"]:
                    if s2["k"] == "assign" and not s2["p"]["p"] and s2["p"]["l"] == v and bi2 not in incs[v]:
                        redefs.add(bi2)
                t2 = blk2["t"]
                if t2["k"] == "call" and not t2["dest"]["p"] and t2["dest"]["l"] == v and t2["t"] is not None:
                    redefs.add(t2["t"])
            avoid = incs[v] | (redefs - {wb})
            start = [x for x in start if x not in avoid]
            path = b.path_avoiding(start, avoid, sinks) if start else None
            if path is not None and not (wb in incs[v] and False):
                # the write block itself may contain the increment after the write: accept if the block is an increment block reached after the write
                chk.add(Finding(rule, "%s::%s" % (rule, mir.strip_generics(fid)), "%s assigns a uid from its counter and can reach the next assignment (or return the counter) without incrementing it: two elements share a uid / the next kind starts at an already used uid, so kinds interleave in the written file" % fid, b.where(ln)))
    chk.rule(rule, "uid assignments from a running counter that is incremented before its next use / before being returned", n, floor=floor)
