"""AST-level table rules on the hand-written reader/writer pair (C01 / C02)

R01-esc   the escape table of Writer::add_quoted_string is inverted entry by entry by parser::unescape_string, and every
          escaped character triggers the escaping path (the fast-path test lists them all)
R01-fmt   Writer::add_float / add_integer format values without width/precision/sign flags (shortest round-trip text)
R01-hex   hex literals are read as unsigned 64-bit patterns and reinterpreted in the field's own width (the writer prints
          negative values of signed fields as two's complement `{:X}`)
"""
import re
from . import astq, spec, mir
from .astq import walk
from .common import Finding

WRITER = "a2lfile/src/writer.rs"
PARSER = "a2lfile/src/parser.rs"


def lit_chars(node):
    out = set()
    for x in walk(node):
        if x.get("t") == "Lit" and x.get("kind") == "char":
            out.add(x["v"])
        elif x.get("t") == "Lit" and x.get("kind") == "byte":
            out.add(chr(x["v"]))
        elif x.get("t") == "PLit":
            l = x["lit"]
            if l.get("kind") == "char":
                out.add(l["v"])
            elif l.get("kind") == "byte":
                out.add(chr(l["v"]))
        elif x.get("t") == "Lit" and x.get("kind") in ("str", "bytestr"):
            out.update(x["v"])
    return out


def method_fn(rel, ty, name):
    for im in astq.impls(rel, trait=False, self_ty=ty):
        f = astq.fn_named(im, name)
        if f:
            return f
    for im in astq.impls(rel):
        if im["self_ty"].startswith(ty):
            f = astq.fn_named(im, name)
            if f:
                return f
    return None


def writer_escape_table(fn):
    """({char: escaped second char}, chars that switch on the slow path, problems)"""
    table = {}
    guard = None
    probs = []
    matches = [x for x in walk(fn["body"]) if x.get("t") == "Match"]
    if len(matches) != 1:
        return None, None, ["expected exactly one match over the characters, found %d" % len(matches)]
    m = matches[0]
    for a in m["arms"]:
        pats = []
        p = a["pat"]
        cases = p["cases"] if p["t"] == "POr" else [p]
        chars = []
        for c in cases:
            if c["t"] == "PLit" and c["lit"].get("kind") in ("char", "byte"):
                chars.append(c["lit"]["v"] if c["lit"]["kind"] == "char" else chr(c["lit"]["v"]))
        if not chars:
            continue
        pushed = []
        for x in walk(a["body"]):
            if x.get("t") == "MethodCall" and x["method"] == "push" and x["args"]:
                arg = x["args"][0]
                if arg.get("t") == "Lit" and arg.get("kind") in ("char", "byte"):
                    pushed.append(arg["v"] if arg["kind"] == "char" else chr(arg["v"]))
                else:
                    pushed.append(None)     # the character itself
            elif x.get("t") == "MethodCall" and x["method"] == "push_str" and x["args"] and x["args"][0].get("t") == "Lit" and x["args"][0].get("kind") == "str":
                pushed.extend(list(x["args"][0]["v"]))      # push_str("\\n") == push('\\'); push('n')
        if len(pushed) != 2 or pushed[0] != "\\":
            probs.append("arm for %r pushes %r (expected a backslash followed by one character)" % (chars, pushed))
            continue
        for ch in chars:
            table[ch] = pushed[1] if pushed[1] is not None else ch
    # the enclosing if
    for x in walk(fn["body"]):
        if x.get("t") == "If" and any(y is m for y in walk(x["then"])):
            guard = lit_chars(x["cond"])
    return table, guard, probs


def reader_unescape_table(fn):
    """{escaped second char: produced char} from the if-chain of unescape_string, chars of the fast-path test"""
    table = {}
    probs = []
    guard = None
    for x in walk(fn["body"]):
        if x.get("t") == "If":
            cond = x["cond"]
            # conjunction  input[idx-1] == A (|| ..)  &&  input[idx] == B   with a push of a literal in the then-branch
            lits = [y for y in walk(cond) if y.get("t") == "Lit" and y.get("kind") == "char"]
            pushes = []
            for st in x["then"]:
                for y in walk(st):
                    if y.get("t") == "MethodCall" and y["method"] == "push" and y["args"] and y["args"][0].get("t") == "Lit" and y["args"][0].get("kind") == "char":
                        pushes.append(y["args"][0]["v"])
                    break_ = False
            if len(lits) >= 2 and len(pushes) == 1 and cond.get("t") == "Binary" and cond["op"] == "&&":
                second = [y["v"] for y in walk(cond["r"]) if y.get("t") == "Lit" and y.get("kind") == "char"]
                first = [y["v"] for y in walk(cond["l"]) if y.get("t") == "Lit" and y.get("kind") == "char"]
                if len(second) == 1 and "\\" in first:
                    table[second[0]] = pushes[0]
            elif guard is None and any(y.get("t") in ("MethodCall",) and y["method"] in ("any", "contains", "find") for y in walk(cond)):
                guard = lit_chars(cond)
    return table, guard, probs


def r01_esc(chk, rule="R01-esc"):
    w = method_fn(WRITER, "Writer", "add_quoted_string")
    r = astq.free_fn(PARSER, "unescape_string")
    n = 0
    if w is None or r is None:
        chk.add(Finding(rule, rule + "::anchor", "Writer::add_quoted_string / parser::unescape_string not found"))
        chk.rule(rule, "escape table entries inverted by the reader", 0, floor=1)
        return
    wt, wguard, wp = writer_escape_table(w)
    rt, rguard, rp = reader_unescape_table(r)
    for p in (wp or []) + (rp or []):
        chk.add(Finding(rule, rule + "::shape::" + p[:60], p, WRITER))
    if wt is None:
        chk.rule(rule, "escape table entries inverted by the reader", 0, floor=1)
        return
    for ch, esc in sorted(wt.items()):
        n += 1
        if rt.get(esc) != ch:
            chk.add(Finding(rule, "%s::inverse::%r" % (rule, ch), "the writer escapes %r as backslash + %r, but unescape_string turns backslash + %r into %r" % (ch, esc, esc, rt.get(esc)), PARSER))
        if wguard is not None and ch not in wguard:
            chk.add(Finding(rule, "%s::fastpath::%r" % (rule, ch), "strings containing %r (and none of %s) are written without escaping: the fast-path test of add_quoted_string does not list a character that the escaping loop handles" % (ch, sorted(wguard)), WRITER))
    if wguard is None:
        pass   # no fast path at all: always escapes
    if rguard is not None and "\\" not in rguard:
        chk.add(Finding(rule, rule + "::reader-fastpath", "unescape_string skips unescaping for strings without %s: a backslash alone no longer triggers it" % sorted(rguard), PARSER))
    for esc, ch in sorted(rt.items()):
        if ch in wt and wt[ch] != esc and esc != ch:
            pass
    chk.rule(rule, "escape table entries of the writer inverted by the reader and covered by the writer's fast-path test", n, floor=6)


def r01_fmt(chk, rule="R01-fmt"):
    n = 0
    for name in ("add_float", "add_integer"):
        f = method_fn(WRITER, "Writer", name)
        if f is None:
            chk.add(Finding(rule, rule + "::anchor::" + name, "Writer::%s not found" % name))
            continue
        for x in walk(f["body"]):
            if x.get("t") == "Macro" and x["path"] in ("write", "format", "writeln", "format_args"):
                for y in walk(x):
                    if y.get("t") == "Lit" and y.get("kind") == "str":
                        for spec_ in re.findall(r"\{([^{}]*)\}", y["v"]):
                            n += 1
                            fmt = spec_.split(":", 1)[1] if ":" in spec_ else ""
                            if fmt not in ("", "e", "0X", "X", "E"):
                                chk.add(Finding(rule, "%s::%s::%s" % (rule, name, fmt), "Writer::%s formats with `{:%s}`: width/precision/sign flags make the written number differ from the shortest text that re-parses to the same value" % (name, fmt), WRITER))
    chk.rule(rule, "format specifications in Writer::add_float/add_integer without width/precision flags", n, floor=4)


def r01_hex(chk, rule="R01-hex"):
    """get_integer: hex text -> u64::from_str_radix(.., 16) -> AsPrimitive::as_ (two's complement in the field's width)"""
    prog = mir.prog()
    n = 0
    found = False
    for fid, b in prog.bodies.items():
        if not fid.startswith("parser::ParserState::") or "get_integer" not in fid or b.kind == "Closure":
            continue
        found = True
        radix = [(bi, t) for bi, t in b.calls() if mir.strip_generics((t.get("res") or "").lstrip("?")).endswith("from_str_radix")]
        asp = [(bi, t) for bi, t in b.calls() if "AsPrimitive" in (t.get("res") or "") or (t.get("fn") or "").endswith("AsPrimitive::as_")]
        # the conversion may sit in a closure of get_integer (`.map(|num_u64| (num_u64.as_(), true))`)
        fam = [c for c in prog.bodies.values() if c.kind == "Closure" and c.parent and (c.parent == fid or c.parent.startswith(fid + "::"))]
        asp_cl = [(c, bi, t) for c in fam for bi, t in c.calls() if "AsPrimitive" in (t.get("res") or "") or (t.get("fn") or "").endswith("AsPrimitive::as_")]
        n += 1
        if not radix:
            chk.add(Finding(rule, rule + "::noradix", "get_integer has no radix-16 parse for hex literals", b.where()))
        for bi, t in radix:
            k = (t.get("f") or {}).get("k", "") if isinstance(t.get("f"), dict) else ""
            src = t.get("src", "")
            fn = t.get("fn") or ""
            ga = t.get("ga") or ""
            callee_txt = json_callee(t)
            if "u64" not in callee_txt:
                chk.add(Finding(rule, rule + "::width", "hex literals are parsed with %s instead of as an unsigned 64-bit pattern: the two's-complement text that the writer produces for negative values of signed fields (e.g. 0xFFFF for -1 in an i16) is rejected" % (callee_txt or "a different type"), b.where(t["ln"])))
            c = mir.const_int(t["args"][1]) if len(t["args"]) > 1 else None
            if c != 16:
                chk.add(Finding(rule, rule + "::radix", "hex literals are parsed with radix %s" % c, b.where(t["ln"])))
        for c, bi, t in asp_cl:
            # inside the closure nothing may reject the value after the reinterpretation either
            if any("ParserError" in (t2.get("res") or "") for bj, t2 in c.calls()):
                chk.add(Finding(rule, rule + "::reject-after-reinterpret", "get_integer constructs a ParserError in the closure that reinterprets the hex digits in the field's width", c.where(t["ln"])))
        if not asp and not asp_cl:
            chk.add(Finding(rule, rule + "::reinterpret", "the parsed 64-bit pattern is not reinterpreted in the field's own width (AsPrimitive::as_)", b.where()))
        # once the digits parsed as u64 the value is accepted: no error is constructed after the reinterpretation
        succ = b.succ()
        for bi, t in asp:
            seen, st = set(), [bi]
            while st:
                x = st.pop()
                if x in seen or b.blocks[x]["cleanup"]:
                    continue
                seen.add(x)
                st.extend(succ[x])
            for x in sorted(seen):
                tt = b.blocks[x]["t"]
                if tt["k"] == "call" and "ParserError" in (tt.get("res") or ""):
                    chk.add(Finding(rule, rule + "::reject-after-reinterpret", "get_integer constructs %s after the hex digits were reinterpreted in the field's width: some bit patterns the writer produces (negative values of signed fields are written as two's complement, e.g. -16 as 0xFFFFFFF0) are refused on reload" % mir.strip_generics(tt["res"]).split("::")[-1], b.where(tt["ln"])))
                    break
    if not found:
        chk.add(Finding(rule, rule + "::anchor", "ParserState::get_integer not found"))
    chk.rule(rule, "hex branch of get_integer: u64 pattern + reinterpretation in the field width", n, floor=1)


def json_callee(t):
    f = t.get("f")
    if isinstance(f, dict):
        return f.get("k", "")
    return ""


def r01_finite(chk, rule="R01-finite"):
    """a float that is read must be writable as text that loads again: `str::parse::<f64>` accepts digit strings whose value
    overflows to infinity (1e999), and `inf` is not a number token for the tokenizer; so somewhere between the parse and the
    write a finiteness test is needed (in the reader: reject; or in the writer: clamp)"""
    prog = mir.prog()
    n = 0
    sites = []
    for fid, b in sorted(prog.bodies.items()):
        short = mir.strip_generics(fid)
        if re.search(r"parser::ParserState::(get_double|get_float)$|writer::Writer::add_float$", short) and b.kind != "Closure":
            n += 1
            fam = [b] + [c for c in prog.bodies.values() if c.kind == "Closure" and c.parent and c.parent.startswith(fid)]
            tests = [t for fb in fam for bi, t in fb.calls() if re.search(r"::(is_finite|is_infinite|is_nan|classify)$", mir.strip_generics((t.get("res") or "").lstrip("?")))]
            sites.append((short, bool(tests), b))
    if sites and not any(ok for _, ok, _ in sites):
        rd = [x for x in sites if "get_double" in x[0]] or sites
        chk.add(Finding(rule, rule + "::no-finiteness-test", "neither the float readers (get_double/get_float) nor Writer::add_float test for infinity/NaN: a number such as 1e999 loads as +inf, is written as `inf`, and the written file does not load", rd[0][2].where()))
    chk.rule(rule, "float reader/writer functions examined for a finiteness test", n, floor=3)


def r01_tokline(chk, rule="R01-tokline"):
    """tokens that can span several lines (String, block Comment, the raw A2ML text): get_line_offset() computes the offset of the
    *next* token as next.line - this.line, and the writer reproduces the token's own line breaks from its text; so the token
    must carry the line on which it ENDS (the `line += count_newlines(span)` update precedes the construction of the token).
    A token that carries its start line makes the following token's offset include the token's own height: that many extra
    line breaks are written, and again on every further load/save cycle."""
    prog = mir.prog()
    n = 0
    for fid in ("tokenizer::tokenize_core", "tokenizer::handle_a2ml"):
        b = prog.bodies.get(fid)
        if b is None:
            chk.add(Finding(rule, rule + "::anchor::" + fid, fid + " not found"))
            continue
        order = {bi: k for k, bi in enumerate(b.rpo())}
        aggs = []
        for bi, si, st in b.stmts():
            if st["k"] == "assign" and st["rv"]["r"] == "agg" and st["rv"].get("kind") == "adt" and st["rv"]["adt"].endswith("tokenizer::A2lToken"):
                kind = "?"
                for fname, op in zip(st["rv"].get("fields", []), st["rv"]["ops"]):
                    if fname == "ttype":
                        pl = mir.op_place(op)
                        if pl is not None:
                            for bj, sj, s2 in b.stmts():
                                if s2["k"] == "assign" and not s2["p"]["p"] and s2["p"]["l"] == pl["l"] and s2["rv"]["r"] == "agg":
                                    kind = s2["rv"].get("v") or "?"
                        elif "k" in op:
                            kind = op["k"].split("::")[-1]
                aggs.append((bi, kind, st["ln"]))
        for ci, t in b.calls():
            if not mir.strip_generics((t.get("res") or "").lstrip("?")).endswith("tokenizer::count_newlines"):
                continue
            # the token construction closest to this update in the straight-line region around it
            best = None
            for (ai, kind, ln) in aggs:
                if b.dominates(ai, ci) or b.dominates(ci, ai):
                    d = abs(order.get(ai, 0) - order.get(ci, 0))
                    if best is None or d < best[0]:
                        best = (d, ai, kind, ln)
            if best is None:
                continue
            n += 1
            _, ai, kind, ln = best
            before = b.dominates(ai, ci) and ai != ci
            if before and not (fid.endswith("handle_a2ml")):
                chk.add(Finding(rule, "%s::%s::%s" % (rule, fid, kind), "%s builds the %s token before adding the token's own line breaks to the line counter: the token carries its start line, so everything after a multi-line %s moves down by its height on every load/save cycle" % (fid, kind, kind), b.where(ln)))
    chk.rule(rule, "line-counter updates for multi-line tokens paired with the construction of their token (A2ML text exempt: A2ml::parse fixes its end offset)", n, floor=3)


def r01_hexfloat(chk, rule="R01-hexfloat"):
    """get_float / get_double: a hex literal in a float position is read as an unsigned 64-bit integer and converted (every hex text
    the integer reader accepts for a u64 field denotes the same value as a limit); it is not routed through a signed or narrower
    integer read, which wraps or rejects the upper half of the range"""
    prog = mir.prog()
    n = 0
    for fid, b in sorted(prog.bodies.items()):
        fn = mir.strip_generics(fid)
        if fn not in ("parser::ParserState::get_float", "parser::ParserState::get_double"):
            continue
        n += 1
        radix = [(bi, t) for bi, t in b.calls() if mir.strip_generics((t.get("res") or "").lstrip("?")).endswith("from_str_radix")]
        if not radix:
            chk.add(Finding(rule, "%s::%s::noradix" % (rule, fn), "%s has no radix-16 parse of its own for hex literals (the value is obtained some other way, e.g. through an integer read of another width)" % fid, b.where()))
        for bi, t in radix:
            if "u64" not in json_callee(t):
                chk.add(Finding(rule, "%s::%s::width" % (rule, fn), "%s parses hex literals with %s, not as an unsigned 64-bit value" % (fid, json_callee(t)), b.where(t["ln"])))
            c = mir.const_int(t["args"][1]) if len(t["args"]) > 1 else None
            if c != 16:
                chk.add(Finding(rule, "%s::%s::radix" % (rule, fn), "%s parses hex literals with radix %s" % (fid, c), b.where(t["ln"])))
        for bi, t in b.calls():
            if mir.strip_generics((t.get("res") or "").lstrip("?")).endswith("ParserState::get_integer"):
                chk.add(Finding(rule, "%s::%s::via-integer" % (rule, fn), "%s reads hex literals through get_integer::<%s>: values outside that integer type wrap or are rejected although they are valid for a float position" % (fid, t.get("ga") or "?"), b.where(t["ln"])))
    chk.rule(rule, "float readers whose hex branch parses an unsigned 64-bit value", n, floor=2)
