"""C05 Layout preservation and edit locality (only the structural clauses; see DESIGN.md section 3, C05)"""
import re
from . import genrules, plumbing, mir, sym, diag

CURSOR_FNS = ("tokenizer::tokenize_core", "tokenizer::handle_a2ml", "tokenizer::find_block_comment_end", "tokenizer::find_string_end", "tokenizer::count_newlines")


def cursor_table(prog):
    A = sym.Analyzer(prog, opaque=[r"tokenizer::.*", r"loader::.*", r"a2ml::.*"])
    out = {}
    for fid in diag.with_new_functions(prog, [f for f in CURSOR_FNS if f in prog.bodies]):
        rows = diag.cursor_rows(prog, A, fid)
        rows.sort(key=lambda r: (r[0], r[1]))
        if rows:
            out[fid] = rows
    return out



CONSUME = re.compile(r"parser::(ParserState::(get_token|expect_token|get_identifier|get_string|get_string_maxlen|get_integer|get_float|get_double|get_next_tag_or_comment)|TokenIter::next)$")
REWIND = re.compile(r"parser::(ParserState::(undo_get_token|set_tokenpos)|TokenIter::back)$")
NEUTRAL = re.compile(r"(get_line_offset|get_incfilename|get_token_text|get_next_id|get_current_line_offset|error_or_log|log_warning|peek_token|get_tokenpos)$")
OFFSET_AFTER_REWIND_OK = {
    # documented hack in the source: step back one token to measure the offset of the /end token of the block, then step forward again
    "ifdata::parse_unknown_ifdata_start": "rewind:undo_get_token",
}


def _toktype_arg(b, t):
    """the A2lTokenType variant passed to expect_token (constant aggregate assigned in the same function), or None"""
    for a in t.get("args", []):
        pl = mir.op_place(a)
        if pl is None or pl["p"]:
            continue
        for blk in b.blocks:
            for s_ in blk["s"]:
                if s_["k"] == "assign" and not s_["p"]["p"] and s_["p"]["l"] == pl["l"] and s_["rv"]["r"] == "agg" and s_["rv"].get("adt") == "tokenizer::A2lTokenType":
                    return s_["rv"].get("v")
    return None


ENTRY_FNS = ("new", "load", "load_from_string", "load_impl", "load_fragment", "load_fragment_file", "<impl specification::A2lFile>::write_to_string", "<impl specification::A2lFile>::write",
             "specification::A2ml::parse", "specification::A2ml::stringify")
ENTRY_CALLS = re.compile(r"(tokenizer::tokenize|parser::ParserState::(new|set_file_version)|ParseableA2lObject>?::parse|a2ml::parse_a2ml|loader::load|load_impl|load_fragment|fmt::Arguments::new|str::(trim\w*|strip_\w+|replace\w*|split\w*|lines|rsplit\w*)|::join|Vec::(clear|pop|remove|truncate|insert|retain)|String::(push_str|push|insert_str|insert)|fs::write|File::create|write_all|Vec::push|stringify|Writer::\w+)$")


def entry_table(prog):
    """the public entry points in lib.rs (load*, load_fragment*, write*, new): which text is handed to the scanner and how the parser
    is set up -- calls with their literal arguments, format templates with the origin of what is inserted, control predicates"""
    from . import c16
    A = sym.Analyzer(prog, opaque=[r".*"])
    fids = [f for f in ENTRY_FNS if f in prog.bodies]

    def eff(b, S, ev):
        nm = mir.strip_generics(ev[1])
        if not ENTRY_CALLS.search(nm):
            return None
        last = nm.split("::")[-1]
        if nm.endswith("fmt::Arguments::new"):
            tmpl = sorted(sym.fmt(t) for t in (ev[2][0] if ev[2] else []))
            pt = b.blocks[ev[6]]["t"]
            ins = []
            # the array of formatting arguments: where each inserted value comes from
            for a in pt["args"][1:]:
                ap = mir.op_place(a)
                if ap is None or ap["p"]:
                    continue
                for bi, si, st in b.stmts():
                    if st["k"] == "assign" and not st["p"]["p"] and st["rv"]["r"] == "agg" and st["rv"].get("kind") == "array":
                        for o in st["rv"]["ops"]:
                            op = mir.op_place(o)
                            if op is not None and not op["p"]:
                                ch = c16.producer_chain(b, op["l"])
                                ins.append("<-".join(x for x in ch if x not in ("new_display", "new_debug")) or "value")
            return "format %s (%s)" % ("|".join(tmpl), ", ".join(sorted(set(ins))))
        lits = []
        for i, a in enumerate(ev[2] or []):
            cs = sorted(sym.fmt(t) for t in a if isinstance(t, tuple) and t[0] == "const")
            if cs and len(cs) == len(a) and all(re.fullmatch(r"true|false|-?\d+_[iu](\d+|size)|\"[^\"]*\"|'.*'", c) for c in cs):
                lits.append("#%d=%s" % (i, "|".join(cs)))
        return "call %s(%s)" % (last, ", ".join(lits))
    return diag.table_for(prog, A, fids, eff)


def last_cursor_op(prog, b):
    """forward may-analysis: for every block the set of operations that moved the token cursor last on some path to its terminator"""
    st = [None] * len(b.blocks)
    st[0] = frozenset(["entry"])
    work = [0]
    succ = b.succ()
    while work:
        x = work.pop()
        o = st[x]
        t = b.blocks[x]["t"]
        if t["k"] == "call":
            nm = mir.strip_generics((t.get("res") or "").lstrip("?"))
            if CONSUME.search(nm):
                lab = "consume:" + nm.split("::")[-1]
                if nm.endswith("::expect_token"):
                    lab += "(%s)" % (_toktype_arg(b, t) or "?")
                o = frozenset([lab])
            elif REWIND.search(nm):
                o = frozenset(["rewind:" + nm.split("::")[-1]])
            elif nm in prog.bodies and (nm.startswith("ifdata::") or nm.startswith("parser::ParserState")) and not NEUTRAL.search(nm):
                o = frozenset(["other:" + nm.split("::")[-1]])
        for y in succ[x]:
            if b.blocks[y]["cleanup"]:
                continue
            new = o if st[y] is None else st[y] | o
            if new != st[y]:
                st[y] = new
                work.append(y)
    return st


def r05_token(chk, rule="R05-token"):
    """hand-written parsers: get_line_offset() measures the token consumed last, so on every path the last operation that moved the
    token cursor before a get_line_offset() call is the call that consumed the value's own token (not a rewind, not another parser)"""
    from .common import Finding
    prog = mir.prog()
    n = 0
    for fid, b in sorted(prog.bodies.items()):
        if b.file == "a2lfile/src/specification.rs":
            continue
        sites = [(bi, t) for bi, t in b.calls() if mir.strip_generics(t.get("res") or "").endswith("::get_line_offset")]
        if not sites:
            continue
        st = last_cursor_op(prog, b)
        for bi, t in sites:
            n += 1
            for last in sorted(st[bi] or ["unreachable"]):
                if last.startswith("consume:") or OFFSET_AFTER_REWIND_OK.get(mir.strip_generics(fid)) == last:
                    continue
                chk.add(Finding(rule, "%s::%s::%s" % (rule, mir.strip_generics(fid), last), "%s reads a line offset when the last operation on the token cursor was `%s`: the offset belongs to a different token than the value stored with it, so the value is written on the wrong line" % (fid, last), b.where(t["ln"])))
    chk.rule(rule, "get_line_offset() calls in hand-written parsers whose last preceding cursor operation on every path consumed the value's own token", n, floor=20)


def _defs_of(b, l, depth=0, seen=None):
    """definitions that may reach local l through plain copies: list of ('call', block, term) / ('const', value) / ('other', stmt)"""
    seen = set() if seen is None else seen
    if l in seen or depth > 8:
        return []
    seen.add(l)
    out = []
    for bi, blk in enumerate(b.blocks):
        for s_ in blk["s"]:
            if s_["k"] == "assign" and not s_["p"]["p"] and s_["p"]["l"] == l:
                rv = s_["rv"]
                if rv["r"] == "use":
                    pl = mir.op_place(rv["a"])
                    if pl is not None and not pl["p"]:
                        out += _defs_of(b, pl["l"], depth + 1, seen)
                    elif pl is None:
                        out.append(("const", mir.const_int(rv["a"])))
                    else:
                        out.append(("other", s_))
                else:
                    out.append(("other", s_))
        t = blk["t"]
        if t["k"] == "call" and t.get("dest") and not t["dest"]["p"] and t["dest"]["l"] == l:
            out.append(("call", bi, t))
    return out


def r05_endtoken(chk, rule="R05-endtoken"):
    """a value stored in a field called `end_offset` is the number of line breaks before the block's `/end` token: when it is measured
    with get_line_offset(), the token consumed last on every path is the one taken by expect_token(.., End) (not the tag identifier
    behind it, which always has offset 0 to its `/end`)"""
    from .common import Finding
    prog = mir.prog()
    n = 0
    for fid, b in sorted(prog.bodies.items()):
        if b.file == "a2lfile/src/specification.rs" or not (b.file or "").startswith("a2lfile/src/"):
            continue
        st = None
        for bi, si, s_ in b.stmts():
            if s_["k"] != "assign" or s_["rv"]["r"] != "agg" or "end_offset" not in (s_["rv"].get("fields") or []):
                continue
            op = s_["rv"]["ops"][s_["rv"]["fields"].index("end_offset")]
            pl = mir.op_place(op)
            if pl is None or pl["p"]:
                continue
            for d in _defs_of(b, pl["l"]):
                if d[0] != "call" or not mir.strip_generics(d[2].get("res") or "").endswith("::get_line_offset"):
                    continue
                n += 1
                if st is None:
                    st = last_cursor_op(prog, b)
                for last in sorted(st[d[1]] or ["unreachable"]):
                    if last == "consume:expect_token(End)" or OFFSET_AFTER_REWIND_OK.get(mir.strip_generics(fid)) == last:
                        continue
                    chk.add(Finding(rule, "%s::%s::%s" % (rule, mir.strip_generics(fid), last), "%s stores an end_offset that was measured when the token consumed last was `%s`, not the `/end` token: the `/end` line of the block is written with the wrong number of line breaks" % (fid, last), b.where(d[2]["ln"])))
    chk.rule(rule, "end_offset fields in hand-written parsers that are filled from get_line_offset() directly behind expect_token(End)", n, floor=3)


def r05_adjacent(chk, rule="R05-adjacent"):
    """get_line_offset(): the offset of a token is the line distance to the token directly before it (comments are tokens that
    carry their own offset, so skipping over them counts their lines twice on every load/save cycle)"""
    from . import panics
    from .common import Finding
    prog = mir.prog()
    n = 0
    for fid, b in prog.bodies.items():
        if not (fid.startswith("parser::ParserState::") and fid.endswith("::get_line_offset")):
            continue
        n += 1
        obs = panics.obligations_of(b, prog)[0]
        idx = set()
        for o in obs:
            if o.kind == "BoundsCheck" and "token_cursor.tokens" in o.desc:
                idx.add(o.desc.split("index=", 1)[1])
        want = {"(arg1.token_cursor.pos Sub 2)", "(arg1.token_cursor.pos Sub 1)"}
        if not want <= idx:
            chk.add(Finding(rule, rule + "::pair", "get_line_offset no longer compares tokens[pos-1] with tokens[pos-2] (indices used: %s)" % sorted(idx), b.where()))
        for x in sorted(idx - want - {"0"}):
            chk.add(Finding(rule, rule + "::index::" + x, "get_line_offset reads the token at index %s: line offsets must be measured between directly adjacent tokens" % x, b.where()))
        if b.natural_loops():
            chk.add(Finding(rule, rule + "::loop", "get_line_offset contains a loop (it searches for another token instead of using the directly preceding one)", b.where()))
    chk.rule(rule, "get_line_offset measures the distance between directly adjacent tokens (indices pos-1 / pos-2, no search loop)", n, floor=1)


def run(chk):
    genrules.r04_grammar(chk, rule="R05-grammar-aux", slot_rule="R05-slot", stop_rule="R05-aux-stop")
    # only the slot findings belong to C05: drop the auxiliary rules' findings (they are reported under C04/C07)
    chk.findings = [f for f in chk.findings if f.rule in ("R05-slot",)]
    chk.rules = [r for r in chk.rules if r["rule"] == "R05-slot"]
    genrules.r01_dual(chk, rule="R05-dual", inc_rule="R05-dual-inc")
    genrules.r05_new(chk)
    genrules.expansion_diffs(chk, "R05-shipped", lambda k: bool(re.search(r"\[[^\]]*\b(stringify|new)\b[^\]]*\]", k)),
                             "generated stringify/new items identical (canonical form) to the generator's output")
    plumbing.r05_plumb(chk)
    r05_adjacent(chk)
    r05_token(chk)
    r05_endtoken(chk)
    # edit locality: after an edit the elements that were already placed keep their relative positions -- sort_new_items renumbers
    # every placed element of a module in the same way (rows of C15's R15-table)
    from . import sortrules
    prog_ = mir.prog()
    fids_ = [f for f in prog_.reachable(["sort::sort_new_items"]) if f.startswith("sort::") and prog_.bodies[f].file == "a2lfile/src/sort.rs"]
    diag.compare(chk, "R05-place", "sort", sortrules.sort_table(prog_, fids_), "uid updates reachable from sort::sort_new_items with their control predicates, compared with the reviewed table", floor=15,
                 fn_filter=lambda fn: fn in {re.sub(r"\{closure#\d+\}", "{closure}", mir.strip_generics(f)) for f in fids_} or fn.split("::{closure}")[0] in {mir.strip_generics(f) for f in fids_})
    diag.compare(chk, "R05-entry", "entry", entry_table(mir.prog()), "public entry points of lib.rs: the text handed to the scanner (wrapper of load_fragment, banner of write), parser set-up, calls with literal arguments; compared with the reviewed table", floor=20)
    from . import writertab
    writertab.compare(chk, "R05-writer", fn_filter=lambda fn: fn.split("::")[-1] in ("add_whitespace", "add_group", "add_str_raw", "add_quoted_string", "add_str"), floor=30)
    diag.compare(chk, "R05-cursor", "cursor", cursor_table(mir.prog()), "steps of the tokenizer's scan position / line counter with their control predicates (which bytes end a token, what is trimmed before /end A2ML), compared with the reviewed table", floor=29)
    chk.assumptions += ["not decided: that every token lands on its input line, and edit locality (line arithmetic over runtime counts)"]
