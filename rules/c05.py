"""C05 Layout preservation and edit locality (only the structural clauses; see DESIGN.md section 3, C05)"""
from . import genrules, plumbing, mir, sym, diag

CURSOR_FNS = ("tokenizer::tokenize_core", "tokenizer::handle_a2ml", "tokenizer::find_block_comment_end", "tokenizer::find_string_end", "tokenizer::count_newlines")


def cursor_table(prog):
    A = sym.Analyzer(prog, opaque=[r"tokenizer::.*", r"loader::.*", r"a2ml::.*"])
    out = {}
    for fid in CURSOR_FNS:
        rows = diag.cursor_rows(prog, A, fid)
        rows.sort(key=lambda r: (r[0], r[1]))
        if rows:
            out[fid] = rows
    return out



def run(chk):
    genrules.r04_grammar(chk, rule="R05-grammar-aux", slot_rule="R05-slot", stop_rule="R05-aux-stop")
    # only the slot findings belong to C05: drop the auxiliary rules' findings (they are reported under C04/C07)
    chk.findings = [f for f in chk.findings if f.rule in ("R05-slot",)]
    chk.rules = [r for r in chk.rules if r["rule"] == "R05-slot"]
    genrules.r01_dual(chk, rule="R05-dual", inc_rule="R05-dual-inc")
    genrules.r05_new(chk)
    genrules.expansion_diffs(chk, "R05-shipped", lambda k: ("[stringify]" in k) or "[new]" in k,
                             "generated stringify/new items identical (canonical form) to the generator's output")
    plumbing.r05_plumb(chk)
    diag.compare(chk, "R05-cursor", "cursor", cursor_table(mir.prog()), "steps of the tokenizer's scan position / line counter with their control predicates (which bytes end a token, what is trimmed before /end A2ML), compared with the reviewed table", floor=29)
    chk.assumptions += ["not decided: that every token lands on its input line, and edit locality (line arithmetic over runtime counts)"]
