"""C18 IF_DATA is interpreted exactly as the applicable A2ML definition says (structural clauses; DESIGN.md section 3, C18)

R18-scalars  chain A2ML keyword -> token -> A2mlTypeSpec -> GenericIfData variant -> payload integer type equals the A2ML scalar table
R18-items    which GenericIfData variant is built under which A2mlTypeSpec variant / token kind, read by which getter (reviewed table)
R18-valid    parse_ifdata reports valid = true only when a specification accepted the block
R18-rewind   speculative parsing restores the token cursor (to a checkpoint taken before) on every no-match exit
R18-cleanup  remove_unknown_ifdata visits every Vec<IfData> of the model and keeps exactly the valid blocks
"""
import json
import os
import re
from . import common, mir, sym, guards, diag, astq, spec, c03
from .common import Finding

SCALARS = {"char": ("Char", "i8"), "int": ("Int", "i16"), "long": ("Long", "i32"), "int64": ("Int64", "i64"), "uchar": ("UChar", "u8"),
           "uint": ("UInt", "u16"), "ulong": ("ULong", "u32"), "uint64": ("UInt64", "u64"), "float": ("Float", "f32"), "double": ("Double", "f64")}
GETTERS = re.compile(r"parser::ParserState::(get_integer|get_float|get_double|get_string|get_string_maxlen|get_identifier)$")


def items_table(prog):
    """rows: [built variant <- getter<generic>, guards] for the functions that build GenericIfData from tokens"""
    out = {}
    A = sym.Analyzer(prog, opaque=[r"parser::.*", r"ifdata::.*", r"a2ml::.*"])
    for fid in ("ifdata::parse_ifdata_item", "ifdata::parse_unknown_ifdata", "ifdata::parse_ifdata_make_block"):
        b = prog.bodies.get(fid)
        if b is None:
            continue
        S = A.summary(fid)
        rows = []
        for bi, blk in enumerate(b.blocks):
            if blk["cleanup"]:
                continue
            for s in blk["s"]:
                if s["k"] == "assign" and s["rv"]["r"] == "agg" and s["rv"].get("kind") == "adt" and s["rv"]["adt"] == "a2ml::GenericIfData":
                    getter = "-"
                    for bj, t in b.calls():
                        nm = mir.strip_generics((t.get("res") or "").lstrip("?"))
                        if GETTERS.match(nm) and t["t"] is not None and b.dominates(t["t"], bi):
                            g = t.get("ga") or ""
                            m = re.findall(r"\b([iuf](?:8|16|32|64))\b", g)
                            cand = nm.split("::")[-1] + ("<%s>" % m[-1] if m and "get_integer" in nm else "")
                            # nearest dominating getter
                            if getter == "-" or b.dominates(best, t["t"]):
                                getter = cand
                                best = t["t"]
                    rows.append(["build %s <- %s" % (s["rv"]["v"], getter), sorted(guards.guard_set(b, S, bi))])
        rows.sort(key=lambda r: (r[0], r[1]))
        out[fid] = rows
    # calls between the IF_DATA parsers and of the cursor functions, with their literal flags (e.g. the is_block flag handed to
    # the fallback parser), and tagged-item constructions
    fids2 = sorted(f for f, b in prog.bodies.items() if b.file == "a2lfile/src/ifdata.rs" and b.kind != "Closure" and "::test" not in f)
    A2 = sym.Analyzer(prog, opaque=[r"ifdata::.*", r"parser::.*", r"a2ml::.*"])
    extra = diag.module_table(prog, A2, fids2, re.compile(r"ifdata::\w+$|parser::ParserState::(set_tokenpos|undo_get_token|get_token|expect_token|get_next_tag_or_comment|get_next_id|get_incfilename)$|HashMap(<.*>)?::insert$|Vec(<.*>)?::push$"),
                              adts=("a2ml::GenericIfDataTaggedItem",), cursors=False)
    for fn, rows in extra.items():
        have = out.setdefault(fn, [])
        # "create the per-tag list if it is not there yet" (insert guarded by a lookup in the same map) is bookkeeping that the
        # entry API does without a row; the item itself is stored by the `push` row
        rows = [r for r in rows if not (r[0] == "call insert()" and any(re.search(r"contains_key\(|discr\(lookup\(", g) for g in r[1]))]
        have.extend(rows)
        have.sort(key=lambda r: (r[0], r[1]))
    return out


A2ML_CALLS = re.compile(r"a2ml::(parse_aml_\w+|tokenize_\w+|require_\w+|nexttoken|make_errtxt|parse_a2ml)$|HashMap(<.*>)?::insert$|Vec(<.*>)?::push$")


def c05_entry(prog):
    from . import c05
    return c05.entry_table(prog)


def a2ml_table(prog):
    """decision table of the A2ML scanner and type parser (a2ml.rs): which sub-parser is called for which token with which flags,
    which A2mlTypeSpec is built, how the scan position and the include state machine move"""
    A = sym.Analyzer(prog, opaque=[r"a2ml::.*", r"loader::.*"])
    fids = sorted(f for f, b in prog.bodies.items() if b.file == "a2lfile/src/a2ml.rs" and b.kind != "Closure" and re.match(r"a2ml::(parse_a|tokenize_|require_|nexttoken|make_errtxt)", f))
    return diag.module_table(prog, A, fids, A2ML_CALLS, adts=("a2ml::A2mlTypeSpec", "a2ml::A2mlTaggedTypeSpec"))


def run(chk):
    prog = mir.prog()
    # ------------------------------------------------------------------ R18-scalars
    n = 0
    # (1) keyword -> TokenType in a2ml::tokenize_keyword_ident (AST), (2) TokenType -> A2mlTypeSpec in the A2ML type parser (AST),
    # (3) A2mlTypeSpec -> GenericIfData variant + getter width (MIR table), (4) payload type of the GenericIfData variant (ADT table)
    f = astq.free_fn("a2lfile/src/a2ml.rs", "tokenize_keyword_ident")
    kw = {}
    if f is None:
        chk.add(Finding("R18-scalars", "R18-scalars::anchor::tokenize_keyword_ident", "a2ml::tokenize_keyword_ident not found"))
    else:
        for x in astq.walk(f["body"]):
            if x.get("t") == "Match":
                for a in x["arms"]:
                    if a["pat"]["t"] == "PLit":
                        kw[a["pat"]["lit"]["v"]] = spec.render(a["body"])
    adt = prog.adts.get("a2ml::GenericIfData")
    payload = {}
    if adt:
        for v in adt["variants"]:
            tys = [fl["ty"] for fl in v["fields"]]
            payload[v["name"]] = tys
    tab = items_table(prog).get("ifdata::parse_ifdata_item", [])
    built = {}
    for eff, gs in tab:
        m = re.fullmatch(r"build (\w+) <- (.*)", eff)
        specs = [re.sub(r".*== ", "", g) for g in gs if re.fullmatch(r"discr\(arg3\) == \w+", g)]
        if m and len(specs) == 1:
            built.setdefault(specs[0], []).append((m.group(1), m.group(2)))
    # TokenType -> A2mlTypeSpec: in the type parser, `TokenType::X => A2mlTypeSpec::Y`
    tok2spec = {}
    for fn in astq.items("a2lfile/src/a2ml.rs"):
        if fn.get("t") == "Fn":
            for x in astq.walk(fn["body"]):
                if x.get("t") == "Match":
                    for a in x["arms"]:
                        pr = spec.render_pat(a["pat"])
                        br = spec.render(a["body"])
                        m1 = re.fullmatch(r"TokenType::(\w+)", pr)
                        m2 = re.search(r"A2mlTypeSpec::(\w+)", br)
                        if m1 and m2 and m1.group(1) in [v[0] for v in SCALARS.values()] + ["Uchar", "Uint", "Ulong", "Uint64"]:
                            tok2spec.setdefault(m1.group(1), set()).add(m2.group(1))
    for k, (variant, ty) in sorted(SCALARS.items()):
        n += 1
        tokv = kw.get(k, "")
        mt = re.fullmatch(r"TokenType::(\w+)", tokv)
        if not mt:
            chk.add(Finding("R18-scalars", "R18-scalars::keyword::" + k, "A2ML keyword `%s` is tokenized as %s" % (k, tokv or "an identifier"), "a2lfile/src/a2ml.rs"))
            continue
        if mt.group(1).lower() != variant.lower():
            chk.add(Finding("R18-scalars", "R18-scalars::keyword::" + k, "A2ML keyword `%s` is tokenized as %s (expected the token of %s)" % (k, tokv, variant), "a2lfile/src/a2ml.rs"))
        sp = tok2spec.get(mt.group(1), set())
        if sp and {x.lower() for x in sp} != {variant.lower()}:
            chk.add(Finding("R18-scalars", "R18-scalars::typespec::" + k, "token %s becomes A2mlTypeSpec::%s (expected %s)" % (tokv, sorted(sp), variant), "a2lfile/src/a2ml.rs"))
        b = built.get(variant, [])
        want_get = ("get_integer<%s>" % ty) if ty[0] in "iu" else ("get_float" if ty == "f32" else "get_double")
        if not b or any(v != variant or g != want_get for v, g in b):
            chk.add(Finding("R18-scalars", "R18-scalars::read::" + k, "A2mlTypeSpec::%s is read as %s (expected GenericIfData::%s via %s)" % (variant, b or "nothing", variant, want_get), "a2lfile/src/ifdata.rs"))
        pt = payload.get(variant, [])
        if not pt or pt[-1] not in (ty, "(%s, bool)" % ty):
            chk.add(Finding("R18-scalars", "R18-scalars::payload::" + k, "GenericIfData::%s carries %s (expected %s)" % (variant, pt, ty), "a2lfile/src/a2ml.rs"))
    chk.rule("R18-scalars", "A2ML scalar types whose keyword/token/typespec/variant/width chain equals the A2ML scalar table", n, floor=10)

    # ------------------------------------------------------------------ R18-items
    diag.compare(chk, "R18-items", "ifdata", items_table(prog), "GenericIfData constructions in the IF_DATA parsers: variant, getter and control predicates compared with the reviewed table", floor=100)

    # ------------------------------------------------------------------ R18-valid
    b = prog.bodies.get("ifdata::parse_ifdata")
    n = 0
    if b is None:
        chk.add(Finding("R18-valid", "R18-valid::anchor", "ifdata::parse_ifdata not found"))
    else:
        S = sym.Analyzer(prog, opaque=[r"ifdata::.*", r"parser::.*"]).summary(b.id)
        trues = 0
        for bi, blk in enumerate(b.blocks):
            for s in blk["s"]:
                if s["k"] == "assign" and not s["p"]["p"] and b.locals[s["p"]["l"]]["ty"] == "bool" and s["rv"]["r"] == "use" and s["rv"]["a"].get("k") == "true" and b.locals[s["p"]["l"]]["n"]:
                    # a named bool set to true: must be under `parse_ifdata_from_spec(..) == Some`
                    gs = guards.guard_set(b, S, bi)
                    n += 1
                    trues += 1
                    if not any(re.search(r"discr\(parse_ifdata_from_spec\(.*\)\) == Some", g) for g in gs):
                        chk.add(Finding("R18-valid", "R18-valid::true", "parse_ifdata sets its validity flag to true outside the branch where a specification accepted the IF_DATA (guards: %s)" % sorted(gs), b.where(s["ln"])))
        calls_unknown = [(bi, t) for bi, t in b.calls() if (t.get("res") or "").endswith("parse_unknown_ifdata_start")]
        for bi, t in calls_unknown:
            n += 1
            gs = guards.guard_set(b, S, bi)
            if any(re.search(r"discr\(parse_ifdata_from_spec\(.*\)\) == Some", g) for g in gs) and not any("is_none" in g for g in gs):
                chk.add(Finding("R18-valid", "R18-valid::fallback", "the fallback parser runs although a specification accepted the block", b.where(t["ln"])))
        if trues == 0:
            chk.add(Finding("R18-valid", "R18-valid::never", "parse_ifdata never reports an IF_DATA as valid", b.where()))
    chk.rule("R18-valid", "assignments of the validity flag / fallback calls in parse_ifdata under the right branch", n, floor=2)

    # ------------------------------------------------------------------ R18-rewind
    n = 0
    for fid in ("ifdata::parse_ifdata_from_spec", "ifdata::parse_ifdata_taggeditem"):
        b = prog.bodies.get(fid)
        if b is None:
            chk.add(Finding("R18-rewind", "R18-rewind::anchor::" + fid, fid + " not found"))
            continue
        gets = [(bi, t) for bi, t in b.calls() if (t.get("res") or "").endswith("get_tokenpos")]
        sets = [(bi, t) for bi, t in b.calls() if (t.get("res") or "").endswith("set_tokenpos")]
        chk_local = {t["dest"]["l"] for bi, t in gets if not t["dest"]["p"] and all(b.dominates(bi, x) for x in b.return_blocks())}
        good_sets = set()
        for bi, t in sets:
            pl = mir.op_place(t["args"][1]) if len(t["args"]) > 1 else None
            src = pl["l"] if pl is not None and not pl["p"] else None
            # follow one copy
            for bj, si, s in b.stmts():
                if s["k"] == "assign" and not s["p"]["p"] and s["p"]["l"] == src and s["rv"]["r"] == "use":
                    p2 = mir.op_place(s["rv"]["a"])
                    if p2 is not None and not p2["p"]:
                        src = p2["l"]
            if src in chk_local:
                good_sets.add(t["t"] if t["t"] is not None else bi)
        # every construction of None / Ok(None) as the return value must be dominated by a restoring set_tokenpos
        for bi, blk in enumerate(b.blocks):
            for s in blk["s"]:
                if s["k"] == "assign" and s["rv"]["r"] == "agg" and s["rv"].get("kind") == "adt" and s["rv"]["adt"] == "std::option::Option" and s["rv"]["v"] == "None":
                    tgt = s["p"]
                    is_ret = tgt["l"] == 0 or any(s2["k"] == "assign" and s2["p"]["l"] == 0 and s2["rv"]["r"] == "agg" and any(mir.op_place(o) is not None and mir.op_place(o)["l"] == tgt["l"] for o in s2["rv"]["ops"]) for s2 in blk["s"])
                    if not is_ret:
                        continue
                    n += 1
                    if not any(b.dominates(g, bi) for g in good_sets):
                        chk.add(Finding("R18-rewind", "R18-rewind::" + fid, "%s returns 'no match' without restoring the token cursor to the checkpoint taken at entry: the tokens it consumed are lost for the next attempt" % fid, b.where(s["ln"])))
    # the Sequence loop of parse_ifdata_item: set_tokenpos(checkpoint) after the loop
    b = prog.bodies.get("ifdata::parse_ifdata_item")
    if b is not None:
        n += 1
        # the loop may live in parse_ifdata_item itself or in a helper split off it (a function the reviewed tree does not know)
        kn = sym.known_functions()
        fam = [b] + [prog.bodies[t["res"]] for bi, t in b.calls() if t.get("res") in prog.bodies and kn is not None and mir.strip_generics(t["res"]) not in kn and prog.bodies[t["res"]].kind != "Closure"]
        sets = [(bi, t) for fb in fam for bi, t in fb.calls() if (t.get("res") or "").endswith("set_tokenpos")]
        gets = [(bi, t) for fb in fam for bi, t in fb.calls() if (t.get("res") or "").endswith("get_tokenpos")]
        if not sets or len(gets) < 2:
            chk.add(Finding("R18-rewind", "R18-rewind::sequence", "the A2ML sequence parser does not restore the cursor to the position after the last complete item", b.where()))
    chk.rule("R18-rewind", "no-match exits of the speculative IF_DATA parsers preceded by set_tokenpos(checkpoint)", n, floor=5)

    # ------------------------------------------------------------------ R18-cleanup
    n = 0
    holders = []
    for aid, adt in prog.adts.items():
        for v in adt["variants"]:
            for fl in v["fields"]:
                if re.fullmatch(r"std::vec::Vec<specification::IfData>", fl["ty"]):
                    holders.append(aid.split("::")[-1] + "." + fl["name"])
    b = prog.bodies.get("ifdata::remove_unknown_ifdata")
    if b is None:
        chk.add(Finding("R18-cleanup", "R18-cleanup::anchor", "ifdata::remove_unknown_ifdata not found (feature ifdata_cleanup)"))
    else:
        S = sym.Analyzer(prog, opaque=[r"ifdata::remove_unknown_ifdata_from_list"]).summary(b.id)
        visited = set()
        for ev in S.events:
            if ev[0] == "call" and ev[1] == "ifdata::remove_unknown_ifdata_from_list":
                for t in ev[2][0]:
                    r, fields = sym.path_of(t)
                    if fields:
                        visited.add(fields[-1])
                # a visit may only depend on the presence of what lies on its own access path (the enclosing Option / the list
                # being iterated): a condition on any other part of the model means the visit is skipped for some models
                # (seed C18t: `let Some(mod_par) = .. else { continue }` placed in front of the remaining visits)
                paths = [sym.fmt(t) for t in ev[2][0]]
                for g in sorted(guards.guard_set(b, S, ev[6])):
                    mentioned = re.findall(r"\barg\d+(?:\.\w+)*", g)
                    if any(not any(pth == q or pth.startswith(q + ".") for pth in paths) for q in mentioned):
                        chk.add(Finding("R18-cleanup", "R18-cleanup::foreign-guard::%s::%s" % ("|".join(p_.split(".")[-2] + "." + p_.split(".")[-1] for p_ in paths), g),
                                        "ifdata_cleanup() visits %s only under `%s`, which is not about the visited path itself: invalid IF_DATA blocks there are kept in models where the condition fails" % (paths, g), b.where(ev[4])))
        for h in sorted(holders):
            n += 1
            if h not in visited:
                chk.add(Finding("R18-cleanup", "R18-cleanup::" + h, "ifdata_cleanup() does not visit %s: invalid IF_DATA blocks there are kept" % h, b.where()))
        fb = prog.bodies.get("ifdata::remove_unknown_ifdata_from_list")
        if fb is None:
            chk.add(Finding("R18-cleanup", "R18-cleanup::anchor2", "remove_unknown_ifdata_from_list not found"))
        else:
            n += 1
            Sf = sym.Analyzer(prog).summary(fb.id)
            gsets = []
            keep = [e for e in Sf.events if e[0] == "call" and e[3] == fb.id and re.search(r"Vec::push$", e[1])]
            rem = [e for e in Sf.events if e[0] == "call" and e[3] == fb.id and re.search(r"Vec::(remove|swap_remove|retain|drain|truncate)$", e[1])]
            for e in keep:
                gs = guards.guard_set(fb, Sf, e[6])
                if not any(re.fullmatch(r".*ifdata_valid", g) or re.search(r"ifdata_valid$|ifdata_valid == |ifdata_valid\)$", g) for g in gs if not g.startswith("!")):
                    chk.add(Finding("R18-cleanup", "R18-cleanup::keep", "blocks are kept under %s instead of `ifdata_valid`" % sorted(gs), fb.where(e[4])))
            if not keep and not rem:
                chk.add(Finding("R18-cleanup", "R18-cleanup::shape", "remove_unknown_ifdata_from_list neither rebuilds nor filters the list", fb.where()))
            # removing by index while stepping the same index skips the element after every removed one
            succ = fb.succ()
            for e in rem:
                if not re.search(r"Vec::(remove|swap_remove)$", e[1]):
                    continue
                blk_inc = set()
                for bi2, blk2 in enumerate(fb.blocks):
                    if c03.counter_progress(blk2):
                        blk_inc.add(bi2)
                loops = fb.natural_loops()
                for h, body in loops.items():
                    if e[6] in body:
                        tails = [t for (t, hh) in fb.back_edges() if hh == h]
                        p = fb.path_avoiding(succ[e[6]], set(), [x for x in blk_inc if x in body])
                        if p is not None:
                            chk.add(Finding("R18-cleanup", "R18-cleanup::index-shift", "an element is removed by index and the index is still advanced in the same iteration: the block following every removed block is skipped, so adjacent invalid IF_DATA blocks survive", fb.where(e[4])))
    chk.rule("R18-cleanup", "Vec<IfData> holders visited by ifdata_cleanup (%d in the model) and the keep filter" % len(holders), n, floor=12)
    # ------------------------------------------------------------------ R18-typespec
    # the A2ML type parser: the function that reads a `taggedunion` (definition or reference to a named one) produces
    # A2mlTypeSpec::TaggedUnion and nothing else; likewise for taggedstruct / struct / enum
    nts = 0
    for kind, var in (("taggedunion", "TaggedUnion"), ("taggedstruct", "TaggedStruct"), ("struct", "Struct"), ("enum", "Enum")):
        fid = "a2ml::parse_aml_type_" + kind
        fb = prog.bodies.get(fid)
        if fb is None:
            chk.add(Finding("R18-typespec", "R18-typespec::anchor::" + kind, fid + " not found"))
            continue
        built = set()
        for bi, si, st in fb.stmts():
            if st["k"] == "assign" and st["rv"]["r"] == "agg" and st["rv"].get("kind") == "adt" and st["rv"]["adt"].endswith("A2mlTypeSpec"):
                built.add(st["rv"]["v"])
        nts += 1
        if built != {var}:
            chk.add(Finding("R18-typespec", "R18-typespec::%s::%s" % (kind, ",".join(sorted(built))), "%s builds A2mlTypeSpec::{%s}: a %s (also one that only refers to a named definition) must become A2mlTypeSpec::%s, otherwise IF_DATA is checked against the wrong multiplicity rules" % (fid, ", ".join(sorted(built)), kind, var), fb.where()))
    # named compound types are registered under their own kind: parse_a2ml stores a named enum / struct / taggedstruct /
    # taggedunion in the map that the reference form (`struct Name;`) of the same kind looks it up in
    pb = prog.bodies.get("a2ml::parse_a2ml")
    if pb is None:
        chk.add(Finding("R18-typespec", "R18-typespec::anchor::parse_a2ml", "a2ml::parse_a2ml not found"))
    else:
        Sp = sym.Analyzer(prog, opaque=[r"a2ml::.*"]).summary(pb.id)
        stored = set()
        for ev in Sp.events:
            if ev[0] == "call" and ev[3] == pb.id and re.search(r"HashMap(<.*>)?::insert$", mir.strip_generics(ev[1])) and ev[2]:
                for t0 in ev[2][0]:
                    m = re.search(r"\.(enums|structs|taggedstructs|taggedunions)$", sym.fmt(t0))
                    if m:
                        # the kind test that guards this insert
                        # nearest enclosing test of the token kind (direct control dependences, innermost first)
                        kinds = set()
                        frontier, seen_b = [ev[6]], set()
                        for _ in range(4):
                            nxt = []
                            for blk_ in frontier:
                                for (sb, taken) in pb.control_deps(blk_):
                                    if (sb, taken) in seen_b:
                                        continue
                                    seen_b.add((sb, taken))
                                    g = guards.switch_desc(pb, Sp, sb, taken)
                                    mk = re.match(r"discr\(.*\) == ((?:Enum|Struct|Taggedstruct|Taggedunion)(?:\|\w+)*)$", g)
                                    if mk:
                                        kinds.update(mk.group(1).split("|"))
                                    else:
                                        nxt.append(sb)
                            if kinds:
                                break
                            frontier = nxt
                        stored.add((m.group(1), tuple(sorted(kinds))))
        want = {("enums", ("Enum",)), ("structs", ("Struct",)), ("taggedstructs", ("Taggedstruct",)), ("taggedunions", ("Taggedunion",))}
        for w in sorted(want - stored):
            nts += 1
            chk.add(Finding("R18-typespec", "R18-typespec::register::" + w[0], "parse_a2ml does not store a named %s definition in `%s` (found: %s): a later reference to the name fails or resolves to another kind" % (w[1][0], w[0], sorted(stored)), pb.where()))
        nts += len(want & stored)
    chk.rule("R18-typespec", "A2ML compound type parsers that build exactly their own A2mlTypeSpec variant", nts, floor=4)
    # ------------------------------------------------------------------ R18-aml
    # interpreted IF_DATA is written back from the same tree: each variant's value goes to the writer unchanged
    from . import writertab
    writertab.compare_ifdata(chk, "R18-writer", floor=22)
    # which definitions the IF_DATA parser tries: ParserState.a2mlspec is filled by load_impl / load_fragment (built-in definition)
    # and by A2ml::parse (in-file definition), by push only
    diag.compare(chk, "R18-spec", "entry", c05_entry(prog), "set-up of the list of A2ML definitions (built-in first, in-file appended): rows of load_impl, load_fragment and A2ml::parse, compared with the reviewed table", floor=8,
                 fn_filter=lambda fn: fn in ("specification::A2ml::parse", "load_impl", "load_fragment"))
    # where the in-file A2ML block ends is decided by tokenizer::handle_a2ml (comments and strings inside the block are skipped so
    # that an `/end` inside them does not end it): its scan steps with their conditions
    from . import c05
    diag.compare(chk, "R18-block", "cursor", c05.cursor_table(prog), "scan-position steps of tokenizer::handle_a2ml (extent of the in-file A2ML block), compared with the reviewed table", floor=5,
                 fn_filter=lambda fn: fn == "tokenizer::handle_a2ml")
    diag.compare(chk, "R18-aml", "a2ml", a2ml_table(prog), "decisions of the A2ML scanner and type parser (sub-parser calls with their literal flags, A2mlTypeSpec constructions, scan position / include state steps) with their control predicates, compared with the reviewed table", floor=100)
    # ------------------------------------------------------------------ R18-maxlen
    from . import c06
    diag.compare(chk, "R18-maxlen", "parser", c06.parser_table(prog), "length test of char[n] strings (get_string_maxlen) with its control predicate, compared with the reviewed table", floor=1,
                 fn_filter=lambda fn: fn.endswith("::get_string_maxlen"))
    chk.assumptions += ["not decided: agreement of parser and definition for all definitions (language semantics)",
                        "oracle/diag_table.json (section ifdata) is a reviewed snapshot of semantic facts"]
