"""A2: access-path provenance -- a flow-insensitive, interprocedural may-analysis over MIR.

Abstract value of a MIR local = set of terms:
   ("param", i)                     the i-th argument of the analysed function
   ("f", base, "Adt.field")         field of a repository ADT (Option/Vec/ItemList/Box/refs/iterators are transparent)
   ("lookup", map, key)             result of HashMap::get/get_mut/remove/index (map,key are terms)
   ("call", callee, (args..))       result of any other call (args: one representative term each, or None)
   ("var", fn, name)                identity of a named local that holds a freshly created value
   ("const", text)
Events (per function, transitively through local callees and closures, all in terms of the function's params):
   ("write", place_term, value_terms, fn, line)
   ("call", callee, (argterms...), fn, line, dest_name)
"""
import re
from . import mir

MAX_TERMS = 48
MAX_DEPTH = 9

# callee name patterns (after strip_generics) whose result carries the access paths of the listed args
TRANSPARENT = [
    (r".*::into_iter$", [0]), (r".*::iter$", [0]), (r".*::iter_mut$", [0]), (r".*Iterator::next$", [0]), (r".*::next$", [0]),
    (r".*::enumerate$", [0]), (r".*::rev$", [0]), (r".*::peekable$", [0]), (r".*::peek$", [0]), (r".*::skip$", [0]), (r".*::take$", [0]),
    (r".*::cloned$", [0]), (r".*::copied$", [0]), (r".*::by_ref$", [0]), (r".*::chain$", [0, 1]), (r".*::zip$", [0, 1]),
    (r".*::as_ref$", [0]), (r".*::as_mut$", [0]), (r".*::as_deref$", [0]), (r".*::as_deref_mut$", [0]),
    (r".*::unwrap$", [0]), (r".*::expect$", [0]), (r".*::unwrap_or$", [0, 1]), (r".*::unwrap_or_default$", [0]), (r".*::unwrap_unchecked$", [0]),
    (r".*::ok$", [0]), (r".*::ok_or$", [0]), (r".*::ok_or_else$", [0]),
    (r".*Deref::deref$", [0]), (r".*DerefMut::deref_mut$", [0]), (r".*::deref$", [0]), (r".*::deref_mut$", [0]),
    (r".*Borrow::borrow$", [0]), (r".*BorrowMut::borrow_mut$", [0]), (r".*::borrow$", [0]),
    (r".*Clone::clone$", [0]), (r".*::clone$", [0]), (r".*ToOwned::to_owned$", [0]), (r".*::to_owned$", [0]),
    (r".*ToString::to_string$", [0]), (r".*::to_string$", [0]), (r".*::as_str$", [0]), (r".*::as_slice$", [0]), (r".*::as_mut_slice$", [0]),
    (r".*::as_bytes$", [0]), (r".*::to_vec$", [0]), (r".*::into_boxed_slice$", [0]),
    (r".*Into::into$", [0]), (r".*From::from$", [0]), (r".*::into$", [0]), (r".*::from$", [0]),
    (r".*::first$", [0]), (r".*::last$", [0]), (r".*::first_mut$", [0]), (r".*::last_mut$", [0]),
    (r"std::mem::take$", [0]), (r"std::mem::replace$", [0]), (r"core::mem::take$", [0]),
    (r".*::values$", [0]), (r".*::values_mut$", [0]), (r".*::keys$", [0]), (r".*::drain$", [0]),
    (r".*Try>?::branch$", [0]), (r".*FromResidual>?::from_residual$", [0]), (r".*::from_output$", [0]),
    (r".*::collect$", [0]), (r".*::to_lowercase$", [0]), (r".*::to_uppercase$", [0]), (r".*::trim$", [0]),
    (r".*::strip_prefix$", [0]), (r".*::strip_suffix$", [0]),
    (r".*::and_then$", [0]), (r".*::filter$", [0]), (r".*::skip_while$", [0]), (r".*::take_while$", [0]),
    (r"std::boxed::Box::new$", [0]), (r"std::option::Option::Some$", [0]),
]
# element access on containers: result carries the container's paths (the element) -- also an event
ELEMENT = [r"<std::vec::Vec as std::ops::Index.*>::index(_mut)?$", r"<\[T\] as std::ops::Index.*>::index(_mut)?$",
           r"std::vec::Vec::get(_mut)?$", r".*slice.*::get(_mut)?$", r"core::slice::<impl \[T\]>::get(_mut)?$",
           r"itemlist::ItemList::get(_mut)?$", r"<itemlist::ItemList as std::ops::Index.*>::index(_mut)?$",
           r"itemlist::ItemList::(iter|iter_mut|into_iter|first|last|get_idx|get_mut_idx)$",
           r"<&('a )?(mut )?itemlist::ItemList as std::iter::IntoIterator>::into_iter$", r"<itemlist::ItemList as std::iter::IntoIterator>::into_iter$",
           r"std::vec::Vec::(swap_remove|remove|pop)$", r"itemlist::ItemList::(swap_remove|swap_remove_idx|pop)$"]
LOOKUP = [r"std::collections::HashMap::(get|get_mut|remove|get_key_value)$", r"<std::collections::HashMap as std::ops::Index.*>::index$",
          r"std::collections::BTreeMap::(get|get_mut|remove)$", r"std::collections::HashSet::(get|take)$"]
# higher-order std functions: closure params bound to the element of arg0 ; result = closure return for these
HOF_MAP_RESULT = [r".*::and_then$", r".*::map$", r".*::filter_map$", r".*::flat_map$", r".*::map_or$", r".*::map_or_else$", r".*::unwrap_or_else$", r".*::or_else$", r".*::find_map$", r".*::then$"]

_TR = [(re.compile(p), a) for p, a in TRANSPARENT]
_EL = [re.compile(p) for p in ELEMENT]
_LK = [re.compile(p) for p in LOOKUP]
_HM = [re.compile(p) for p in HOF_MAP_RESULT]


def short_adt(adt):
    return adt.split("::")[-1]


TRANSPARENT_ADTS = {"itemlist::ItemList"}


def is_repo_adt(adt):
    if adt in TRANSPARENT_ADTS:
        return False
    return not (adt.startswith("std::") or adt.startswith("core::") or adt.startswith("alloc::") or adt.startswith("(")
                or adt.startswith("fnv::") or adt.startswith("hashbrown::"))


def depth(t):
    if not isinstance(t, tuple):
        return 0
    d = 0
    for x in t[1:]:
        if isinstance(x, tuple):
            d = max(d, depth(x))
    return d + 1


def path_of(t):
    """('f',('f',('param',1),'Module.axis_pts'),'AxisPts.conversion') -> (('param',1), ['Module.axis_pts','AxisPts.conversion']) else None"""
    fields = []
    while isinstance(t, tuple) and t[0] == "f":
        fields.append(t[2])
        t = t[1]
    fields.reverse()
    return t, fields


def fmt(t):
    if not isinstance(t, tuple):
        return str(t)
    if t[0] == "param":
        return "arg%d" % t[1]
    if t[0] == "f":
        return fmt(t[1]) + "." + t[2].split(".")[-1]
    if t[0] == "lookup":
        return "lookup(%s, %s)" % (fmt(t[1]), fmt(t[2]))
    if t[0] == "call":
        return "%s(%s)" % (t[1].split("::")[-1], ", ".join(fmt(a) if a is not None else "_" for a in t[2]))
    if t[0] == "var":
        return "var:" + t[2]
    if t[0] == "const":
        return t[1]
    return str(t)


class FnSummary:
    def __init__(self):
        self.events = []       # transitive events in terms of params
        self.ret = set()       # terms of the return value
        self.ret_fields = {}
        self.complete = True   # False if a recursive callee was not expanded


_known = None


def known_functions():
    """oracle/known_functions.json: wildcard opacity applies to the functions of the reviewed tree only (new helpers are expanded)"""
    global _known
    if _known is None:
        import json, os
        from . import common
        p = os.path.join(common.VERIF, "oracle", "known_functions.json")
        _known = set(json.load(open(p))["functions"]) if os.path.exists(p) else None
    return _known


class Analyzer:
    def is_known(self, res):
        if self.known is None:
            return True
        b = self.prog.bodies.get(res)
        if b is not None and (b.kind == "Closure" or b.file == "a2lfile/src/specification.rs"):
            return True
        return mir.strip_generics(res) in self.known

    def __init__(self, prog, opaque=()):
        self.prog = prog
        self.summaries = {}
        self.in_progress = set()
        self.opaque = [re.compile(p) for p in opaque]   # local callees NOT to expand (kept as call events)
        self.known = known_functions()

    # ------------------------------------------------------------------ substitution
    def subst(self, t, binding):
        """returns a set of terms"""
        if t in binding:
            return set(binding[t])
        if not isinstance(t, tuple):
            return {t}
        k = t[0]
        if k == "param":
            return set(binding.get(t, ()))
        if k == "f":
            bases = self.subst(t[1], binding)
            out = set()
            for b in bases:
                out.add(("f", b, t[2]) if not t[2].startswith("#") or (isinstance(b, tuple) and b[0] in ("call", "lookup")) else b)
            return out
        if k == "lookup":
            ms = list(self.subst(t[1], binding))[:4]
            ks = list(self.subst(t[2], binding))[:4]
            return {("lookup", m, kk) for m in ms for kk in ks}
        if k == "call":
            args = []
            for a in t[2]:
                if a is None:
                    args.append(None)
                else:
                    s = sorted(self.subst(a, binding), key=repr)
                    args.append(s[0] if s else None)
            return {("call", t[1], tuple(args))}
        return {t}

    # ------------------------------------------------------------------ per function
    def summary(self, fid):
        if fid in self.summaries:
            return self.summaries[fid]
        if fid in self.in_progress:
            return None
        self.in_progress.add(fid)
        s = self._analyze(fid)
        self.in_progress.discard(fid)
        self.summaries[fid] = s
        return s

    def _analyze(self, fid):
        body = self.prog.bodies[fid]
        S = FnSummary()
        val = {}      # local idx or (idx, fieldkey) -> set(terms)
        closure_of = {}   # local idx -> closure def id
        for i in range(1, body.argc + 1):
            val[i] = {("param", i)}

        def get(key):
            return val.get(key, set())

        def add(key, terms):
            if not terms:
                return False
            cur = val.setdefault(key, set())
            n0 = len(cur)
            for t in terms:
                if len(cur) >= MAX_TERMS:
                    break
                if depth(t) <= MAX_DEPTH:
                    cur.add(t)
            return len(cur) != n0

        def place_terms(p):
            """terms denoted by reading place p (value or the place itself for refs)"""
            l = p["l"]
            proj = p["p"]
            # pseudo-local for first-level field of a local aggregate
            if proj and isinstance(proj[0], dict) and "f" in proj[0] and (l, proj[0]["f"]) in val and not is_repo_adt(proj[0]["adt"]):
                cur = set(val[(l, proj[0]["f"])])
                rest = proj[1:]
            elif len(proj) >= 2 and proj[0] == "*" and isinstance(proj[1], dict) and "f" in proj[1] and proj[1]["adt"] == "(closure)":
                # closure env through a reference: (*_1).k
                cur = {("f", t, "#" + proj[1]["f"]) for t in get(l)}
                rest = proj[2:]
            else:
                cur = set(get(l))
                rest = proj
            for e in rest:
                if e == "*" or e in ("opaque", "unbinder"):
                    continue
                if "f" in e:
                    adt = e["adt"]
                    if is_repo_adt(adt):
                        nm = short_adt(adt) + ("::" + e["v"] if e.get("v") else "") + "." + e["f"]
                        cur = {("f", t, nm) for t in cur}
                    elif adt in ("(tuple)", "(closure)", "(other)"):
                        cur = {(("f", t, "#" + e["f"]) if (isinstance(t, tuple) and t[0] in ("call", "param") and adt != "(tuple)") or (isinstance(t, tuple) and t[0] == "call") else t) for t in cur}
                    else:
                        pass  # std ADT field (Option.0 ...): transparent
                # idx / cidx / sub / down: transparent
            return cur

        def op_terms(op):
            if "k" in op:
                if op.get("fn"):
                    return set()
                m = re.fullmatch(r"(.*)::promoted\[(\d+)\]", op["k"])
                if m:
                    pb = self.prog.bodies.get(m.group(1))
                    if pb is not None:
                        for pi, lit in pb.j.get("promoted", []):
                            if pi == int(m.group(2)) and lit:
                                return {("const", lit)}
                return {("const", op["k"])}
            return place_terms(mir.op_place(op))

        def copy_fields(dst, src):
            ch = False
            for key in list(val.keys()):
                if isinstance(key, tuple) and key[0] == src:
                    ch |= add((dst, key[1]), val[key])
            if src in closure_of and dst not in closure_of:
                closure_of[dst] = closure_of[src]
                ch = True
            return ch

        events = []
        ev_seen = set()

        def emit(ev):
            key = repr(ev[:4]) + (repr(ev[6]) if ev[0] == "call" else "")
            if key not in ev_seen:
                ev_seen.add(key)
                events.append(ev)
                return True
            return False

        fshort = fid

        changed = True
        rounds = 0
        while changed and rounds < 30:
            changed = False
            rounds += 1
            for bi, b in enumerate(body.blocks):
                if b["cleanup"]:
                    continue
                for s in b["s"]:
                    if s["k"] != "assign":
                        continue
                    p = s["p"]
                    rv = s["rv"]
                    r = rv["r"]
                    terms = set()
                    if r == "use":
                        terms = op_terms(rv["a"])
                        src = mir.op_place(rv["a"])
                        if src is not None and not src["p"] and not p["p"]:
                            changed |= copy_fields(p["l"], src["l"])
                    elif r in ("ref", "rawptr"):
                        terms = place_terms(rv["p"])
                        if not rv["p"]["p"] and not p["p"]:
                            changed |= copy_fields(p["l"], rv["p"]["l"])
                        if not terms and not rv["p"]["p"]:
                            # reference to a plain local variable: give it an identity
                            nm = body.locals[rv["p"]["l"]]["n"]
                            if nm:
                                ident = ("var", fshort, nm)
                                changed |= add(rv["p"]["l"], {ident})
                                terms = {ident}
                    elif r == "cast":
                        terms = op_terms(rv["a"])
                        src = mir.op_place(rv["a"])
                        if src is not None and not src["p"] and not p["p"]:
                            changed |= copy_fields(p["l"], src["l"])
                    elif r == "agg":
                        kind = rv.get("kind")
                        if kind in ("tuple", "closure", "array") and not p["p"]:
                            for i, o in enumerate(rv["ops"]):
                                changed |= add((p["l"], str(i)), op_terms(o))
                            if kind == "closure":
                                if closure_of.get(p["l"]) != rv["cl"]:
                                    closure_of[p["l"]] = rv["cl"]
                                    changed = True
                            if kind == "array":
                                for o in rv["ops"]:
                                    terms |= op_terms(o)
                        elif kind == "adt":
                            adt = rv["adt"]
                            if is_repo_adt(adt):
                                # struct construction: record a write of each field into the new value (identity = var or call-like)
                                pass
                            for o in rv["ops"]:
                                terms |= op_terms(o)
                        else:
                            for o in rv["ops"]:
                                terms |= op_terms(o)
                    elif r in ("bin", "un"):
                        terms = set()
                    elif r == "discr":
                        terms = set()
                    # destination
                    if not p["p"]:
                        changed |= add(p["l"], terms)
                    else:
                        # write through a projection
                        first = p["p"][0]
                        if isinstance(first, dict) and "f" in first and not is_repo_adt(first["adt"]) and len(p["p"]) == 1:
                            changed |= add((p["l"], first["f"]), terms)
                        pts = place_terms(p)
                        for pt in pts:
                            if isinstance(pt, tuple) and pt[0] in ("f", "param"):
                                if emit(("write", pt, frozenset(terms), fshort, s["ln"], bi)):
                                    changed = True
                t = b["t"]
                if t["k"] != "call":
                    continue
                res = t.get("res")
                if res is None:
                    continue
                name = mir.strip_generics(res.lstrip("?"))
                args = [op_terms(a) for a in t["args"]]
                argtys = tuple((body.locals[mir.op_place(a)["l"]]["ty"] if (mir.op_place(a) is not None and not mir.op_place(a)["p"]) else "?") for a in t["args"])
                dest = t["dest"]
                rterms = set()
                handled = False
                # closures among the arguments
                cl_args = []
                for ai, a in enumerate(t["args"]):
                    pl = mir.op_place(a)
                    if pl is not None and not pl["p"] and pl["l"] in closure_of:
                        cl_args.append((ai, pl["l"], closure_of[pl["l"]]))
                if res in self.prog.bodies and ("itemlist::ItemList" not in res or not self.is_known(res)) and not (any(rx.match(res) for rx in self.opaque) and self.is_known(res)):
                    sub = self.summary(res)
                    if sub is None:
                        S.complete = False
                    else:
                        binding = {}
                        for i, a in enumerate(args):
                            binding[("param", i + 1)] = a
                        # closures passed to local functions: not expanded (rare)
                        for ev in sub.events:
                            if ev[0] == "write":
                                for pt in self.subst(ev[1], binding):
                                    vt = set()
                                    for v in ev[2]:
                                        vt |= self.subst(v, binding)
                                    if isinstance(pt, tuple) and pt[0] == "f":
                                        changed |= emit(("write", pt, frozenset(vt), ev[3], ev[4], bi))
                            else:
                                nargs = []
                                for a in ev[2]:
                                    st = set()
                                    for x in a:
                                        st |= self.subst(x, binding)
                                    nargs.append(frozenset(st))
                                changed |= emit(("call", ev[1], tuple(nargs), ev[3], ev[4], ev[5], bi, ev[7]))
                        for rt in sub.ret:
                            rterms |= self.subst(rt, binding)
                        if not dest["p"]:
                            for fk, fts in sub.ret_fields.items():
                                st = set()
                                for rt in fts:
                                    st |= self.subst(rt, binding)
                                changed |= add((dest["l"], fk), st)
                        if not sub.complete:
                            S.complete = False
                        handled = True
                        changed |= emit(("call", name, tuple(frozenset(a) for a in args), fshort, t["ln"], body.local_name(dest["l"]) if not dest["p"] else None, bi, argtys))
                if not handled:
                    # closure arguments: instantiate the closure body with element bindings
                    for (ai, cl_local, cl_id) in cl_args:
                        sub = self.summary(cl_id) if cl_id in self.prog.bodies else None
                        if sub is None:
                            continue
                        clb = self.prog.bodies[cl_id]
                        binding = {}
                        envt = ("param", 1)
                        for key in list(val.keys()):
                            if isinstance(key, tuple) and key[0] == cl_local:
                                binding[("f", envt, "#" + key[1])] = val[key]
                        elem = set()
                        for j, a in enumerate(args):
                            if j != ai and j == 0:
                                elem |= a
                        for pi in range(2, clb.argc + 1):
                            binding[("param", pi)] = elem
                        binding[envt] = set()
                        for ev in sub.events:
                            if ev[0] == "write":
                                for pt in self.subst(ev[1], binding):
                                    vt = set()
                                    for v in ev[2]:
                                        vt |= self.subst(v, binding)
                                    if isinstance(pt, tuple) and pt[0] == "f":
                                        changed |= emit(("write", pt, frozenset(vt), ev[3], ev[4], bi))
                            else:
                                nargs = []
                                for a in ev[2]:
                                    st = set()
                                    for x in a:
                                        st |= self.subst(x, binding)
                                    nargs.append(frozenset(st))
                                changed |= emit(("call", ev[1], tuple(nargs), ev[3], ev[4], ev[5], bi, ev[7]))
                        if any(rx.match(name) for rx in _HM):
                            for rt in sub.ret:
                                rterms |= self.subst(rt, binding)
                    changed |= emit(("call", name, tuple(frozenset(a) for a in args), fshort, t["ln"], body.local_name(dest["l"]) if not dest["p"] else None, bi, argtys))
                    if any(rx.match(name) for rx in _LK) and len(args) >= 2:
                        for m in list(args[0])[:4]:
                            for k in list(args[1])[:6]:
                                rterms.add(("lookup", m, k))
                        if not args[0] or not args[1]:
                            rterms.add(("call", name, (None,)))
                    elif any(rx.match(name) for rx in _EL):
                        rterms |= args[0] if args else set()
                    else:
                        tr = None
                        for rx, idxs in _TR:
                            if rx.match(name):
                                tr = idxs
                                break
                        if tr is not None and not (cl_args and any(rx.match(name) for rx in _HM)):
                            for i in tr:
                                if i < len(args):
                                    rterms |= args[i]
                            if cl_args:
                                pass
                        elif (not cl_args and any(rx.match(name) for rx in _HM) and len(t["args"]) == 2 and isinstance(t["args"][1], dict)
                              and t["args"][1].get("fn") and any(rx.match(mir.strip_generics(t["args"][1]["fn"])) and idxs == [0] for rx, idxs in _TR)):
                            # `.map(String::as_str)`, `.map(Clone::clone)`: a function item that is itself transparent, applied
                            # to every element -- the result carries all access paths of the receiver
                            rterms |= args[0]
                        elif not (cl_args and any(rx.match(name) for rx in _HM)):
                            reps = []
                            for a in args:
                                s = sorted(a, key=repr)
                                reps.append(s[0] if s else None)
                            rterms.add(("call", name, tuple(reps)))
                            nm = body.locals[dest["l"]]["n"] if not dest["p"] else None
                            if nm:
                                rterms.add(("var", fshort, nm))
                if not dest["p"]:
                    changed |= add(dest["l"], rterms)
                else:
                    first = dest["p"][0]
                    if isinstance(first, dict) and "f" in first and not is_repo_adt(first["adt"]) and len(dest["p"]) == 1:
                        changed |= add((dest["l"], first["f"]), rterms)
                    for pt in place_terms(dest):
                        if isinstance(pt, tuple) and pt[0] in ("f", "param"):
                            changed |= emit(("write", pt, frozenset(rterms), fshort, t["ln"], bi))
        S.events = events
        S.ret = set(val.get(0, set()))
        S.ret_fields = {k[1]: set(v) for k, v in val.items() if isinstance(k, tuple) and k[0] == 0}
        S.vals = val
        return S
