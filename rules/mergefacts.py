"""facts about merge.rs extracted with the access-path analysis (shared by C08 and C09)"""
import re
from . import mir, sym, refs
from .common import Finding

OPAQUE = [r"merge::calculate_item_actions", r"module::.*::(objects|compu_tabs|typedefs)", r".*::merge_includes", r".*::reset_location", r"merge::make_unique_name"]
NS_CALL = {"objects": "objects", "compu_tabs": "compu_tabs", "typedefs": "typedefs"}


def lookups_in(vals):
    out = []

    def rec(t):
        if isinstance(t, tuple):
            if t[0] == "lookup":
                out.append(t)
            if t[0] == "f":
                rec(t[1])
            elif t[0] == "lookup":
                rec(t[1]); rec(t[2])
            elif t[0] == "call":
                for a in t[2]:
                    if a is not None:
                        rec(a)
    for v in vals:
        rec(v)
    return out


def ns_of_listterm(t):
    """(namespace, root param index) of a term that denotes a namespace's member lists: Module field path or objects()/compu_tabs()/typedefs() view"""
    if isinstance(t, tuple) and t[0] == "call":
        nm = t[1].split("::")[-1]
        if nm in NS_CALL and t[2] and isinstance(t[2][0], tuple) and t[2][0][0] == "param":
            return NS_CALL[nm], t[2][0][1]
        return None, None
    root, path = refs.term_path(t)
    if isinstance(root, tuple) and root[0] == "param" and path:
        return refs.ns_of_list_path(path), root[1]
    return None, None


class MergeFacts:
    def __init__(self, prog):
        self.prog = prog
        self.A = sym.Analyzer(prog, opaque=OPAQUE)
        self.entry = "merge::merge_modules"
        self.S = self.A.summary(self.entry) if self.entry in prog.bodies else None
        self.tables = {}     # table term (call term of calculate_item_actions) -> namespace
        self.table_problems = []
        if self.S is None:
            return
        for ev in self.S.events:
            if ev[0] == "call" and ev[1] == "merge::calculate_item_actions":
                a0 = [t for t in ev[2][0] if not (isinstance(t, tuple) and t[0] == "var")]
                a1 = [t for t in ev[2][1] if not (isinstance(t, tuple) and t[0] == "var")]
                n0 = {ns_of_listterm(t) for t in a0}
                n1 = {ns_of_listterm(t) for t in a1}
                key = ("call", "merge::calculate_item_actions", (sorted(a0, key=repr)[0] if a0 else None, sorted(a1, key=repr)[0] if a1 else None))
                desc = "calculate_item_actions(%s, %s)" % ("|".join(sorted(sym.fmt(t) for t in a0)), "|".join(sorted(sym.fmt(t) for t in a1)))
                if len(n0) == 1 and len(n1) == 1:
                    (ns0, r0), (ns1, r1) = list(n0)[0], list(n1)[0]
                    if ns0 is not None and ns0 == ns1 and r0 == 1 and r1 == 2:
                        self.tables[key] = ns0
                        continue
                self.table_problems.append((desc, ev))

    def table_ns(self, tterm):
        """namespace of a rename/action table term  calculate_item_actions(..).#1 / .#0"""
        if isinstance(tterm, tuple) and tterm[0] == "f" and tterm[2] in ("#0", "#1"):
            return self.tables.get(tterm[1]), tterm[2]
        return None, None

    def rename_writes(self):
        """list of (place path, root, table namespace, key path, key root, event) for every write whose value is looked up in a rename table"""
        out = []
        T = refs.table()
        for ev in self.S.events:
            if ev[0] == "call" and ev[1].endswith("ItemList::rename_item") and len(ev[2]) >= 3:
                # list.rename_item(idx, newname): a write of the element's name field (the name is the key:  get_name(list[idx]))
                for lt in ev[2][0]:
                    lroot, lpath = refs.term_path(lt)
                    if not lpath:
                        continue
                    # the defining name field of that list's element type
                    cands = [pp for k, ps in T["paths"].items() if T["fields"][k]["role"] in ("def", "ref") and k.endswith(".name") for pp in ps
                             if pp.startswith(lpath + "/") and pp.count("/") == lpath.count("/") + 1]
                    for pth in cands:
                        for lk in lookups_in(ev[2][2]):
                            ns, which = self.table_ns(lk[1])
                            # key: get_name(<element of the same list>)
                            kt = lk[2]
                            kroot, kpath = None, None
                            if isinstance(kt, tuple) and kt[0] == "call" and kt[1].endswith("get_name") and kt[2] and kt[2][0] is not None:
                                kroot, kp = refs.term_path(kt[2][0])
                                kpath = pth if kp == lpath else kp
                            else:
                                kroot, kpath = refs.term_path(kt)
                            wev = ("write", None, ev[2][2], ev[3], ev[4], ev[6])
                            out.append((pth, lroot, ns, which, kpath, kroot, lk, wev))
                continue
            if ev[0] != "write":
                continue
            root, path = refs.term_path(ev[1])
            for lk in lookups_in(ev[2]):
                ns, which = self.table_ns(lk[1])
                kroot, kpath = refs.term_path(lk[2])
                out.append((path, root, ns, which, kpath, kroot, lk, ev))
        return out
