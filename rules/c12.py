"""C12 check(): limit plausibility follows data type and conversion (four structural necessary conditions; DESIGN.md section 3, C12)

R12-table  get_datatype_limits == oracle/datatype_limits.json (IEEE / two's-complement limits of the 11 data types)
R12-dep    in calc_compu_method_limits, on every path the two outputs together depend on both raw limits (or on none: constants)
R12-open   the conditions of the swap / the open-range arms equal the reviewed table (guard table of the function)
R12-guards the conditions under which LimitCheckError is reported equal the reviewed table (checker section, shared with R11-guards)
R12-which  the data type handed to calc_compu_method_limits at each call site comes from the right element, and the record-layout
           axis is selected by the AXIS_DESCR's own position (no filtering before enumerate)
"""
import json
import os
import re
from . import common, mir, sym, astq, spec, guards, diag
from .common import Finding

CALC = "checker::calc_compu_method_limits"


def limits_effect(b, S, ev):
    nm = ev[1]
    if nm.endswith("mem::swap"):
        return "swap outputs"
    if nm.endswith("get_datatype_limits"):
        return "raw limits"
    if "FnOnce" in nm or "Fn>::call" in nm or nm.endswith("::call") or "{closure" in nm:
        return "apply inverse function"
    return None


def limits_table(prog):
    A = sym.Analyzer(prog, opaque=[r"checker::.*"])
    return diag.table_for(prog, A, [CALC, "checker::check_limits_valid"], limits_effect)


def run(chk):
    prog = mir.prog()
    # ------------------------------------------------------------------ R12-table
    f = astq.free_fn("a2lfile/src/checker.rs", "get_datatype_limits")
    ora = json.load(open(os.path.join(common.VERIF, "oracle", "datatype_limits.json")))["limits"]
    n = 0
    if f is None:
        chk.add(Finding("R12-table", "R12-table::anchor", "checker::get_datatype_limits not found"))
    else:
        got = {}
        for x in astq.walk(f["body"]):
            if x.get("t") == "Match":
                for a in x["arms"]:
                    pat = spec.render_pat(a["pat"])
                    got[pat.split("::")[-1]] = spec.render(a["body"])
        for dt, (lo, hi) in sorted(ora.items()):
            n += 1
            g = got.get(dt)
            if g is None:
                chk.add(Finding("R12-table", "R12-table::missing::" + dt, "get_datatype_limits has no arm for DataType::%s" % dt, "a2lfile/src/checker.rs"))
                continue
            vals = eval_pair(g)
            if vals is None or not (close(vals[0], lo) and close(vals[1], hi)):
                chk.add(Finding("R12-table", "R12-table::" + dt, "raw limits of %s are %s, expected (%r, %r)" % (dt, g, lo, hi), "a2lfile/src/checker.rs"))
        for dt in sorted(set(got) - set(ora)):
            chk.add(Finding("R12-table", "R12-table::extra::" + dt, "get_datatype_limits has an arm for an unknown data type %s" % dt, "a2lfile/src/checker.rs"))
    chk.rule("R12-table", "data types whose raw limits equal the reference table", n, floor=11)

    # ------------------------------------------------------------------ R12-dep
    b = prog.bodies.get(CALC)
    npaths = 0
    if b is None:
        chk.add(Finding("R12-dep", "R12-dep::anchor", CALC + " not found"))
    else:
        L, U = output_locals(b)
        if L is None:
            chk.add(Finding("R12-dep", "R12-dep::shape", "cannot identify the two limit variables of calc_compu_method_limits (raw limits from get_datatype_limits, returned as a pair)", b.where()))
        else:
            bad = set()
            raw_tuples = {t["dest"]["l"] for bi, t in b.calls() if (t.get("res") or "").endswith("get_datatype_limits") and not t["dest"]["p"]}
            for path in acyclic_paths(b):
                npaths += 1
                dep = {L: {"lower"}, U: {"upper"}}
                changed = set()
                tmp = {}
                for bi in path:
                    blk = b.blocks[bi]
                    for s in blk["s"]:
                        if s["k"] != "assign" or s["p"]["p"]:
                            continue
                        d = s["p"]["l"]
                        srcs = set()
                        for op in mir.operands_of_rvalue(s["rv"]) + ([{"c": s["rv"]["p"]}] if s["rv"]["r"] == "ref" else []):
                            pl = mir.op_place(op)
                            if pl is not None:
                                srcs |= dep.get(pl["l"], tmp.get(pl["l"], set()))
                        if d in (L, U):
                            init = False
                            if s["rv"]["r"] == "use":
                                ipl = mir.op_place(s["rv"]["a"])
                                if ipl is not None and ipl["p"] and isinstance(ipl["p"][0], dict) and ipl["p"][0].get("adt") == "(tuple)" and ipl["l"] in raw_tuples:
                                    dep[d] = {"lower"} if ipl["p"][0]["f"] == "0" else {"upper"}
                                    init = True
                            if not init:
                                dep[d] = srcs
                                changed.add(d)
                        else:
                            tmp[d] = srcs
                    t = blk["t"]
                    if t["k"] == "call" and not t["dest"]["p"]:
                        srcs = set()
                        for a in t["args"]:
                            pl = mir.op_place(a)
                            if pl is not None:
                                srcs |= dep.get(pl["l"], tmp.get(pl["l"], set()))
                        d = t["dest"]["l"]
                        nm = t.get("res") or ""
                        if nm.endswith("mem::swap"):
                            dep[L], dep[U] = dep[U], dep[L]
                            changed |= {L, U}
                        elif d in (L, U):
                            dep[d] = srcs
                            changed.add(d)
                        else:
                            tmp[d] = srcs
                if changed:
                    tot = dep[L] | dep[U]
                    if tot and tot != {"lower", "upper"}:
                        bad.add((tuple(sorted(dep[L])), tuple(sorted(dep[U]))))
                    elif tot and (dep[L] == dep[U] and len(dep[L]) == 2) and False:
                        pass
            for dl, du in sorted(bad):
                chk.add(Finding("R12-dep", "R12-dep::lower<-%s::upper<-%s" % ("+".join(dl) or "const", "+".join(du) or "const"), "on some path calc_compu_method_limits computes the lower limit from the raw %s limit and the upper limit from the raw %s limit: one raw limit is lost (overwritten-variable pattern), the reported range is wrong" % ("/".join(dl) or "no", "/".join(du) or "no"), b.where()))
    chk.rule("R12-dep", "acyclic paths through calc_compu_method_limits on which the outputs depend on both raw limits or on neither", npaths, floor=8)

    # ------------------------------------------------------------------ R12-open (guard table)
    diag.compare(chk, "R12-open", "limits", limits_table(prog), "calls that decide the computed range (raw limits, inverse function, swap) with their control predicates, compared with the reviewed table", floor=3)

    # ------------------------------------------------------------------ R12-guards
    # the LimitCheckError rows of the checker table (shared with R11-guards): for every element kind the diagnostic is pushed exactly
    # when check_limits_valid fails -- no further condition on the element (seed C12v: no limit check for a MEASUREMENT with VIRTUAL)
    from . import c11
    diag.compare(chk, "R12-guards", "checker", c11.checker_table(prog), "LimitCheckError push sites of checker.rs with their control predicates, compared with the reviewed table", floor=5,
                 row_filter=lambda r: "LimitCheckError" in r[0])

    # ------------------------------------------------------------------ R12-which
    A = sym.Analyzer(prog, opaque=[r"checker::calc_compu_method_limits", r"checker::check_limits_valid", r"module::.*::(objects|compu_tabs|typedefs)"])
    S = A.summary("checker::check") if "checker::check" in prog.bodies else None
    nw = 0
    got = set()
    if S is not None:
        for ev in S.events:
            if ev[0] == "call" and ev[1] == CALC and len(ev[2]) >= 2:
                for t in ev[2][1]:
                    got.add((mir.strip_generics(ev[3]), re.sub(r"^arg1\.project\.module\.", "", sym.fmt(t))))
        nw = len(got)
        ora_w = json.load(open(os.path.join(common.VERIF, "oracle", "datatype_limits.json")))["datatype_sources"]
        want = {(a, c) for a, c in ora_w}
        for x in sorted(got - want):
            chk.add(Finding("R12-which", "R12-which::new::%s::%s" % x, "%s derives limits from the data type %s, which is not one of the reviewed sources" % x, "a2lfile/src/checker.rs"))
        for x in sorted(want - got):
            chk.add(Finding("R12-which", "R12-which::missing::%s::%s" % x, "%s no longer derives limits from the data type %s" % x, "a2lfile/src/checker.rs"))
        # no filtering between the AXIS_DESCR list and the enumerate() whose index selects AXIS_PTS_X/_Y/_Z/_4/_5
        cb = prog.bodies.get("checker::check_characteristic_common")
        if cb is not None:
            Sf = sym.Analyzer(prog, opaque=[r"checker::.*", r"module::.*"]).summary(cb.id)
            for ev in Sf.events:
                if ev[0] == "call" and ev[3] == cb.id and re.search(r"Iterator::(filter|filter_map|skip|skip_while|take_while|step_by|rev|flat_map)$", ev[1]):
                    if any("axis_descr" in sym.fmt(t) for a in ev[2][:1] for t in a):
                        nw += 1
                        chk.add(Finding("R12-which", "R12-which::filtered-index::" + ev[1].split("::")[-1], "check_characteristic_common applies %s to the AXIS_DESCR list before enumerate(): the index no longer is the axis position, so a STD_AXIS is compared with the data type of a different AXIS_PTS_x" % ev[1].split("::")[-1], cb.where(ev[4])))
    chk.rule("R12-which", "call sites of calc_compu_method_limits with the provenance of their data type argument", nw, floor=8)
    # ------------------------------------------------------------------ R12-side
    # check_limits_valid: the lower comparison involves only the lower limits (declared, calculated and the tolerance derived from
    # the calculated lower limit), the upper comparison only the upper limits: a tolerance taken from the other side (or from both)
    # accepts limits far outside the range on the side with the smaller magnitude
    cb = prog.bodies.get("checker::check_limits_valid")
    ns = 0
    if cb is None:
        chk.add(Finding("R12-side", "R12-side::anchor", "checker::check_limits_valid not found"))
    else:
        dep = {}
        changed = True

        def place_dep(pl):
            if pl is None:
                return set()
            if 1 <= pl["l"] <= cb.argc and pl["p"] and isinstance(pl["p"][0], dict) and pl["p"][0].get("adt") == "(tuple)":
                return {"%s.%s" % ("declared" if pl["l"] == 1 else "calculated", "lower" if pl["p"][0]["f"] == "0" else "upper")}
            if 1 <= pl["l"] <= cb.argc:
                side = "declared" if pl["l"] == 1 else "calculated"
                return {side + ".lower", side + ".upper"}
            return set(dep.get(pl["l"], set()))
        cmps = []
        while changed:
            changed = False
            cmps = []
            for bi, blk in enumerate(cb.blocks):
                if blk["cleanup"]:
                    continue
                for st in blk["s"]:
                    if st["k"] != "assign":
                        continue
                    srcs = set()
                    for op in mir.operands_of_rvalue(st["rv"]):
                        srcs |= place_dep(mir.op_place(op))
                    if st["rv"]["r"] == "ref":
                        srcs |= place_dep(st["rv"]["p"])
                    if st["rv"]["r"] == "bin" and st["rv"]["op"] in ("Le", "Lt", "Ge", "Gt"):
                        cmps.append((bi, st, srcs))
                    d = st["p"]["l"]
                    if not srcs <= dep.get(d, set()):
                        dep[d] = dep.get(d, set()) | srcs
                        changed = True
                t = blk["t"]
                if t["k"] == "call":
                    srcs = set()
                    for a in t["args"]:
                        srcs |= place_dep(mir.op_place(a))
                    d = t["dest"]["l"]
                    if not srcs <= dep.get(d, set()):
                        dep[d] = dep.get(d, set()) | srcs
                        changed = True
        sides = []
        for bi, st, srcs in cmps:
            if not any(x.startswith("declared") for x in srcs):
                continue        # e.g. the preceding `lower > upper` swap of the calculated values
            ns += 1
            sides.append(srcs)
            if not (srcs <= {"declared.lower", "calculated.lower"} or srcs <= {"declared.upper", "calculated.upper"}):
                chk.add(Finding("R12-side", "R12-side::mixed::" + "+".join(sorted(srcs)), "check_limits_valid compares a declared limit using values of both sides (%s): the tolerance of one limit must be derived from that limit alone" % ", ".join(sorted(srcs)), cb.where(st["ln"])))
        if ns and not (any("declared.lower" in x for x in sides) and any("declared.upper" in x for x in sides)):
            chk.add(Finding("R12-side", "R12-side::coverage", "check_limits_valid does not compare both declared limits", cb.where()))
    chk.rule("R12-side", "comparisons of check_limits_valid that involve one side only (declared/calculated lower, or declared/calculated upper)", ns, floor=2)
    # the limits that are compared are read from the file by get_float / get_double (hex notation included)
    from . import textrules
    textrules.r01_hexfloat(chk, rule="R12-hexfloat")
    from . import c13
    c13.shared(chk, "R12-list", "the conversion and the record layout of an element are found by name through ItemList")
    chk.assumptions += ["not decided: the value of the tolerance and the exactness ('reported exactly when')"]


_INT_LIMITS = {}
for _bits in (8, 16, 32, 64, 128):
    _INT_LIMITS["u%d::MIN" % _bits] = 0
    _INT_LIMITS["u%d::MAX" % _bits] = 2 ** _bits - 1
    _INT_LIMITS["i%d::MIN" % _bits] = -(2 ** (_bits - 1))
    _INT_LIMITS["i%d::MAX" % _bits] = 2 ** (_bits - 1) - 1
_FLOAT_LIMITS = {"f32::MIN": "-3.4028234663852886e38", "f32::MAX": "3.4028234663852886e38", "f64::MIN": "-1.7976931348623157e308", "f64::MAX": "1.7976931348623157e308"}


def _file_consts():
    """f64 constants declared in checker.rs (`const FLOAT16_MAX: f64 = 6.5504e+4_f64;`)"""
    out = {}
    for it in astq.items("a2lfile/src/checker.rs"):
        if it.get("t") == "Const" and it.get("name") and it.get("e") is not None:
            out[it["name"]] = spec.render(it["e"])
    return out


def eval_num(x, consts, depth=0):
    """value of a constant f64 expression: literals, unary minus, `<int|float type>::MIN/MAX [as f64]`, named constants of the file"""
    x = x.strip()
    for _ in range(4):
        if x.startswith("(") and x.endswith(")") and x.count("(") == x.count(")"):
            inner = x[1:-1]
            bal = 0
            ok = True
            for ch in inner:
                bal += ch == "("
                bal -= ch == ")"
                if bal < 0:
                    ok = False
            if ok:
                x = inner.strip()
                continue
        break
    m = re.fullmatch(r"(.*?)\s+as\s+f64", x)
    if m:
        return eval_num(m.group(1), consts, depth)
    if x.startswith("-"):
        v = eval_num(x[1:], consts, depth)
        return None if v is None else -v
    if x in _INT_LIMITS:
        return float(_INT_LIMITS[x])
    if x in _FLOAT_LIMITS:
        return float(_FLOAT_LIMITS[x])
    if x in consts and depth < 3:
        return eval_num(consts[x], consts, depth + 1)
    x2 = re.sub(r"_?f64$", "", x).replace("_", "")
    try:
        return float(x2)
    except ValueError:
        return None


def eval_pair(txt):
    m = re.fullmatch(r"\((.*), (.*)\)", txt)
    if not m:
        return None
    consts = _file_consts()
    out = [eval_num(x, consts) for x in m.groups()]
    return None if None in out else out


def close(a, b):
    return a == b or abs(a - b) <= 1e-9 * max(abs(a), abs(b))


def output_locals(b):
    """the two f64 locals that receive get_datatype_limits(..).0/.1 and are returned as (L, U)"""
    src = None
    for bi, t in b.calls():
        if (t.get("res") or "").endswith("get_datatype_limits") and not t["dest"]["p"]:
            src = t["dest"]["l"]
    if src is None:
        return None, None
    L = U = None
    for bi, si, s in b.stmts():
        if s["k"] == "assign" and not s["p"]["p"] and s["rv"]["r"] == "use":
            pl = mir.op_place(s["rv"]["a"])
            if pl is not None and pl["l"] == src and len(pl["p"]) == 1 and isinstance(pl["p"][0], dict):
                if pl["p"][0]["f"] == "0":
                    L = s["p"]["l"]
                elif pl["p"][0]["f"] == "1":
                    U = s["p"]["l"]
    return L, U


def acyclic_paths(b, limit=4000):
    succ = b.succ()
    out = []
    st = [(0, [0])]
    while st and len(out) < limit:
        x, path = st.pop()
        ss = [y for y in succ[x] if not b.blocks[y]["cleanup"]]
        if not ss:
            if b.blocks[x]["t"]["k"] == "return":
                out.append(path)
            continue
        for y in ss:
            if y in path:
                continue
            st.append((y, path + [y]))
    return out
