"""R19-typed / R19-genpanic / R19-table: translation validation of the typed IF_DATA code that the in-tree generator
(a2lmacros/src/a2mlspec.rs + codegenerator/{data_structure,ifdata_parser,ifdata_writer}.rs, compiled into specscan) emits for
the reference invocations in oracle/a2ml_invocations.

The contract that makes load/store a round trip is stated here once, independently of the generator:

  library parse_ifdata_item(spec)     A2ML member             generated field / parse() / store()
  ---------------------------------   ---------------------   ------------------------------------------------------------
  V(line,(val,is_hex)) / V(line,val)  scalar s                RT[s]; items.get(k).ACC[s]()?;  GenericIfData::V[s](loc_j.., self.f)
  String(line, val)                   char[n]                 String; get_stringval; GenericIfData::String(loc_j, self.f..)
  Array([V;n])                        s[n]                    [RT;n]; get_array + n element reads by .get(i); GenericIfData::Array
  EnumItem(line, name)                enum                    E; E::parse(&slot_k); self.f.store(loc_j)
  Struct(file,0,[..])                 struct                  S; S::parse(&slot_k) with get_struct_items; self.f.store()
  Sequence([..])                      ( member )*             Vec<X>; get_sequence loop; GenericIfData::Sequence
  TaggedStruct/TaggedUnion{tag->[..]} taggedstruct/union      per item one field Option<T> | Vec<T>; slot_k.get_single_optitem(tag,T::parse)
                                                              | get_multiple_optitems; store element k = the container with one
                                                              GenericIfDataTaggedItem{tag,is_block,..} per item, inserted under tag
  Block{items: struct members | [x]}  content of a tagged item T with get_block_items and the flattened members

slot index k = position of the member; location index j = position among the members that are not tagged containers.
Every statement of a generated parse()/store() that matches none of these productions is reported (fail closed)."""
import re
from . import common, astq, a2mlread
from .common import Finding
from .spec import render, render_pat

SC = {
    # A2ML keyword: (rust type, accessor, GenericIfData variant, has is_hex, A2mlTypeSpec variant, TokenType variant)
    "char": ("i8", "get_integer_i8", "Char", True, "Char", "Char"),
    "int": ("i16", "get_integer_i16", "Int", True, "Int", "Int"),
    "long": ("i32", "get_integer_i32", "Long", True, "Long", "Long"),
    "int64": ("i64", "get_integer_i64", "Int64", True, "Int64", "Int64"),
    "uchar": ("u8", "get_integer_u8", "UChar", True, "UChar", "Uchar"),
    "uint": ("u16", "get_integer_u16", "UInt", True, "UInt", "Uint"),
    "ulong": ("u32", "get_integer_u32", "ULong", True, "ULong", "Ulong"),
    "uint64": ("u64", "get_integer_u64", "UInt64", True, "UInt64", "Uint64"),
    "float": ("f32", "get_float", "Float", False, "Float", "Float"),
    "double": ("f64", "get_double", "Double", False, "Double", "Double"),
}
GEN = "a2lmacros/src/codegenerator"
LAYOUT = ("incfile", "line", "uid", "start_offset", "end_offset")


class Ctx:
    def __init__(self, chk, inv, spec_tree, items):
        self.chk = chk
        self.inv = inv
        self.types = {}
        for t in spec_tree["types"]:
            if t[0] in a2mlread.COMPOUND and t[1]:
                self.types[(t[0], t[1])] = t
        self.structs = {i["name"]: i for i in items if i["t"] == "Struct"}
        self.enums = {i["name"]: i for i in items if i["t"] == "Enum"}
        self.fns = {}
        for i in items:
            if i["t"] == "Impl" and not i.get("trait"):
                for f in i["items"]:
                    if f.get("t") == "Fn":
                        self.fns[(i["self_ty"], f["sig"]["name"])] = f
        self.done = set()
        self.n = 0
        self.npanic = 0

    def bad(self, ty, what, msg, rule="R19-typed", where=None):
        self.chk.add(Finding(rule, "%s::%s::%s::%s" % (rule, self.inv, ty, what), "%s (reference invocation %s, generated type %s)" % (msg, self.inv, ty), where or GEN))

    def resolve(self, t):
        """spec node -> node with body (follow structref/enumref/...)"""
        if t[0].endswith("ref"):
            k = (t[0][:-3], t[1])
            if k not in self.types:
                raise common.EngineFailure("reference invocation %s refers to unknown type %s %s" % (self.inv, k[0], k[1]))
            return self.types[k]
        return t


# --------------------------------------------------------------------------------------------- expression abstraction

def unref(e):
    while isinstance(e, dict) and e.get("t") in ("Ref", "Try") or (isinstance(e, dict) and e.get("t") == "Unary" and e.get("op") == "*"):
        e = e["e"]
    return e


def slot(e):
    """X.get(K).unwrap_or_else(|| &GenericIfData::None) -> (X, K);  a plain variable -> (X, None)"""
    e = unref(e)
    if e.get("t") == "Path":
        return (e["path"], None)
    if e.get("t") == "MethodCall" and e["method"] == "unwrap_or_else" and len(e["args"]) == 1:
        clo = e["args"][0]
        r = e["recv"]
        if clo.get("t") == "Closure" and render(unref_block(clo["body"])).endswith("GenericIfData::None") and r.get("t") == "MethodCall" and r["method"] == "get" and len(r["args"]) == 1:
            idx = r["args"][0]
            base = unref(r["recv"])
            if idx.get("t") == "Lit" and idx["kind"] == "int" and base.get("t") == "Path":
                return (base["path"], int(idx["v"]))
    return None


def unref_block(e):
    e = unref(e)
    while isinstance(e, dict) and e.get("t") == "Block" and len(e["stmts"]) == 1 and e["stmts"][0]["t"] == "ExprStmt":
        e = unref(e["stmts"][0]["e"])
    return e


def pshape(e):
    e0 = e
    e = unref(e)
    t = e.get("t")
    if t == "MethodCall":
        s = slot(e["recv"])
        if s is not None:
            if e["method"] in ("get_single_optitem", "get_multiple_optitems") and len(e["args"]) == 2:
                tag, fn = e["args"]
                if tag.get("t") == "Lit" and tag["kind"] == "str" and fn.get("t") == "Path" and fn["path"].endswith("::parse"):
                    return ("opt" if e["method"] == "get_single_optitem" else "multi", s, tag["v"], fn["path"][:-7])
            elif not e["args"]:
                return ("acc", e["method"], s)
    if t == "Call" and e["f"].get("t") == "Path" and e["f"]["path"].endswith("::parse") and len(e["args"]) == 1:
        s = slot(e["args"][0])
        if s is not None:
            return ("sub", e["f"]["path"][:-7], s)
    if t == "Block":
        st = e["stmts"]
        # { let arrayitems = SLOT.get_array()?; [ e0, e1, .. ] }
        if len(st) == 2 and st[0]["t"] == "Let" and st[1]["t"] == "ExprStmt":
            init = unref(st[0]["init"])
            arr = unref(st[1]["e"])
            if init.get("t") == "MethodCall" and init["method"] == "get_array" and arr.get("t") == "Array" and st[0]["pat"].get("name") == "arrayitems":
                s = slot(init["recv"])
                if s is not None:
                    return ("array", s, tuple(pshape(x) for x in arr["elems"]))
        # { let seqitems = SLOT.get_sequence()?; let mut out = Vec::new(); for seqitem in seqitems { out.push(E); } out }
        if len(st) == 4 and st[0]["t"] == "Let" and st[1]["t"] == "Let" and st[2]["t"] == "ExprStmt" and st[3]["t"] == "ExprStmt":
            init = unref(st[0]["init"])
            loop = st[2]["e"]
            if init.get("t") == "MethodCall" and init["method"] == "get_sequence" and loop.get("t") == "For" and render(unref(loop["iter"])) == st[0]["pat"].get("name") \
                    and render(st[1]["init"]) == "Vec::new()" and render(st[3]["e"]) == st[1]["pat"].get("name") and len(loop["body"]) == 1:
                s = slot(init["recv"])
                push = unref(loop["body"][0].get("e"))
                if s is not None and push.get("t") == "MethodCall" and push["method"] == "push" and render(push["recv"]) == st[1]["pat"].get("name") and loop["pat"].get("name"):
                    inner = push["args"][0]
                    if unref(inner).get("t") == "Tuple":    # location info of an integer: (line, is_hex)
                        return ("seq", s, loop["pat"]["name"], tuple(pshape(x) for x in unref(inner)["elems"]))
                    return ("seq", s, loop["pat"]["name"], pshape(inner))
    if t == "Tuple":
        return ("tuple", tuple(pshape(x) for x in e["elems"]))
    return ("?", render(e0)[:160])


def self_field(e):
    """self.f / *item / item -> name"""
    e = unref(e)
    if e.get("t") == "Field" and e["base"].get("t") == "Path" and e["base"]["path"] == "self":
        return e["name"]
    if e.get("t") == "Path" and "::" not in e["path"]:
        return "$" + e["path"]
    if e.get("t") == "MethodCall" and e["method"] == "to_owned" and not e["args"]:
        return self_field(e["recv"])
    return None


def loc_index(e):
    """self.__block_info.item_location.J[.0|.1|[idx]..] -> (J, suffix)"""
    e = unref(e)
    suffix = []
    while True:
        if e.get("t") == "Field":
            b = e["base"]
            if b.get("t") == "Field" and b["name"] == "item_location" and render(b["base"]) == "self.__block_info":
                if not e["name"].isdigit():
                    return None
                return (int(e["name"]), tuple(reversed(suffix)))
            suffix.append("." + e["name"])
            e = b
        elif e.get("t") == "Index":
            suffix.append("[%s]" % render(e["idx"]))
            e = e["base"]
        elif e.get("t") == "MethodCall" and e["method"] == "unwrap_or_else" and e["recv"].get("t") == "MethodCall" and e["recv"]["method"] == "get":
            suffix.append("[%s]" % render(e["recv"]["args"][0]))
            e = e["recv"]["recv"]
        elif e.get("t") in ("Unary", "Ref"):
            e = e["e"]
        else:
            return None


def variant_of(path):
    m = re.fullmatch(r"(?:a2lfile::)?GenericIfData::(\w+)", path)
    return m.group(1) if m else None


def sshape(e, ctx_ty=None):
    e0 = e
    e = unref(e)
    t = e.get("t")
    if t == "MethodCall" and e["method"] == "store":
        f = self_field(e["recv"])
        if f is not None:
            if not e["args"]:
                return ("sub", f)
            if len(e["args"]) == 1:
                li = loc_index(e["args"][0])
                if li is not None:
                    return ("enum", f, li)
    if t == "Path" and variant_of(e["path"]) == "None":
        return ("none",)
    if t == "Call" and e["f"].get("t") == "Path" and variant_of(e["f"]["path"]):
        v = variant_of(e["f"]["path"])
        a = e["args"]
        if len(a) == 2:
            if unref(a[1]).get("t") == "Tuple" and len(unref(a[1])["elems"]) == 2:
                val, hx = unref(a[1])["elems"]
                l0, l1 = loc_index(a[0]), loc_index(hx)
                f = self_field(val)
                if f and l0 and l1:
                    return ("int", v, f, l0, l1)
            else:
                f = self_field(a[1])
                l0 = loc_index(a[0])
                if f and l0:
                    return ("val", v, f, l0)
        if len(a) == 1 and unref(a[0]).get("t") == "Block":
            st = unref(a[0])["stmts"]
            if v in ("Array", "Sequence"):
                # { let mut c = Vec::new(); for (idx, item) in self.f.iter().enumerate() { c.push(E); } c }
                if len(st) == 3 and st[0]["t"] == "Let" and render(st[0]["init"]) == "Vec::new()" and st[1]["t"] == "ExprStmt" and st[1]["e"].get("t") == "For" and render(st[2].get("e")) == st[0]["pat"].get("name"):
                    loop = st[1]["e"]
                    it = unref(loop["iter"])
                    m = re.fullmatch(r"self\.(\w+)\.iter\(\)\.enumerate\(\)", render(it))
                    if m and render_pat(loop["pat"]) in ("(idx, item)",) and len(loop["body"]) == 1:
                        push = unref(loop["body"][0].get("e"))
                        if push.get("t") == "MethodCall" and push["method"] == "push" and render(push["recv"]) == st[0]["pat"].get("name"):
                            return ("array" if v == "Array" else "seq", m.group(1), sshape(push["args"][0]))
            if v in ("TaggedStruct", "TaggedUnion"):
                r = tagged_store(st)
                if r is not None:
                    return ("tagged", v, r)
    return ("?", render(e0)[:160])


def tagged_item_struct(n):
    for x in astq.walk(n):
        if x.get("t") == "Struct" and x["path"].endswith("GenericIfDataTaggedItem"):
            return x
    return None


def tagged_store(st):
    """statements of the TaggedStruct({..}) block -> [(tag, field, is_block, multi, insert_tag, layout_ok)] or None"""
    if not st or st[0]["t"] != "Let" or not render(st[0]["init"]).endswith("HashMap::new()") or render(st[-1].get("e")) != st[0]["pat"].get("name"):
        return None
    outname = st[0]["pat"]["name"]
    out = []
    body = st[1:-1]
    i = 0

    def inserts(n):
        r = []
        for x in astq.walk(n):
            if x.get("t") == "MethodCall" and x["method"] == "insert" and render(x["recv"]) == outname and len(x["args"]) == 2:
                k = unref(x["args"][0])
                if k.get("t") == "MethodCall" and k["method"] == "to_string" and k["recv"].get("t") == "Lit":
                    r.append(k["recv"]["v"])
                else:
                    r.append("?" + render(k))
        return r

    def item_of(n, var, field, multi, ins):
        ts = tagged_item_struct(n)
        if ts is None:
            return None
        d = {f["name"]: f["e"] for f in ts["fields"]}
        tag = unref(d.get("tag") or {})
        tagv = tag["recv"]["v"] if tag.get("t") == "MethodCall" and tag["method"] == "to_string" and tag["recv"].get("t") == "Lit" else "?" + render(d.get("tag"))
        isb = d.get("is_block")
        isb = isb["v"] if isb is not None and isb.get("t") == "Lit" and isb["kind"] == "bool" else "?" + render(isb)
        layout = []
        for nm in LAYOUT:
            got = render(unref_call(d.get(nm)))
            if got != "%s.__block_info.%s" % (var, nm):
                layout.append("%s<-%s" % (nm, got))
        data_ok = render(d.get("data")) == var + ".store()"
        extra = sorted(set(d) - set(LAYOUT) - {"tag", "data", "is_block"})
        return (tagv, field, isb, multi, tuple(ins), tuple(layout), data_ok, tuple(extra))

    while i < len(body):
        s = body[i]
        e = s.get("e") if s["t"] == "ExprStmt" else None
        if e is not None and e.get("t") == "If" and e["cond"].get("t") == "LetCond" and e["else"] is None:
            pat = render_pat(e["cond"]["pat"])
            m = re.fullmatch(r"Some\((\w+)\)", pat)
            f = self_field(e["cond"]["e"])
            if m and f:
                it = item_of(e["then"], m.group(1), f, False, inserts(e["then"]))
                if it is None:
                    return None
                out.append(it)
                i += 1
                continue
            return None
        if s["t"] == "Let" and render(s["init"]) == "Vec::new()" and i + 2 < len(body) + 0 and body[i + 1]["t"] == "ExprStmt" and body[i + 1]["e"].get("t") == "For":
            loop = body[i + 1]["e"]
            f = self_field(loop["iter"])
            var = loop["pat"].get("name")
            cond = body[i + 2].get("e") if body[i + 2]["t"] == "ExprStmt" else None
            if f and var and cond is not None and cond.get("t") == "If":
                it = item_of(loop["body"], var, f, True, inserts(cond["then"]))
                if it is None:
                    return None
                out.append(it)
                i += 3
                continue
            return None
        return None
    return out


def unref_call(e):
    """x.clone() -> x"""
    if e is None:
        return None
    e = unref(e)
    if e.get("t") == "MethodCall" and e["method"] == "clone" and not e["args"]:
        return unref(e["recv"])
    return e


# --------------------------------------------------------------------------------------------- expectations from the spec

def flatten_block(ctx, d):
    """members of the Block that the library builds for the content `d` of a tagged item (parse_ifdata_make_block)"""
    if d is None:
        return []
    r = ctx.resolve(d) if d[0].endswith("ref") else d
    if r[0] == "struct":
        return list(r[2])
    return [d]


def norm_ty(s):
    return re.sub(r"\s+", "", s).replace("usize", "")


def check_struct(ctx, ty, kind, members):
    """ty: generated Rust type; kind: 'block' | 'struct'; members: spec members in order"""
    if (ty, kind) in ctx.done:
        return
    ctx.done.add((ty, kind))
    S = ctx.structs.get(ty)
    parse = ctx.fns.get((ty, "parse"))
    store = ctx.fns.get((ty, "store"))
    if S is None or parse is None or store is None:
        ctx.bad(ty, "missing", "the expansion has no struct / parse() / store() for this type")
        return
    fields = [f for f in S["fields"] if f["name"] != "__block_info"]
    # ---- parse(): header
    pst = parse["body"]
    want_params = 4 if kind == "block" else 1
    if len(parse["sig"]["params"]) != want_params:
        ctx.bad(ty, "parse-signature", "parse() takes %d parameters, the %s protocol of the library passes %d" % (len(parse["sig"]["params"]), kind, want_params))
    getter = "get_block_items" if kind == "block" else "get_struct_items"
    if not pst or pst[0]["t"] != "Let" or render(pst[0]["init"]) != "data.%s()?" % getter or render_pat(pst[0]["pat"]) != "(incfile, line, input_items)":
        ctx.bad(ty, "parse-header", "parse() does not start with `let (incfile, line, input_items) = data.%s()?`: %s" % (getter, render(pst[0].get("init")) if pst else "empty body"))
        return
    lit = None
    for s in pst[1:]:
        if s["t"] == "ExprStmt":
            e = unref(s["e"])
            if e.get("t") == "Call" and render(e["f"]) == "Ok" and e["args"] and e["args"][0].get("t") == "Struct":
                lit = e["args"][0]
        elif s["t"] == "Let" and kind == "struct" and s["pat"].get("t") == "PType" and s["pat"]["pat"].get("name") in ("__uid", "__start_offset", "__end_offset") and render(s["init"]) == "0":
            continue
        else:
            ctx.bad(ty, "parse-stmt::" + render(s.get("init") or s.get("e"))[:60], "unrecognised statement in parse()")
    if lit is None or lit["path"] not in (ty, "Self"):
        ctx.bad(ty, "parse-result", "parse() does not end in Ok(%s { .. })" % ty)
        return
    pf = {f["name"]: f["e"] for f in lit["fields"]}
    if [f["name"] for f in lit["fields"]] != [f["name"] for f in S["fields"]]:
        ctx.bad(ty, "parse-fields", "parse() builds the fields %s, the struct has %s" % ([f["name"] for f in lit["fields"]], [f["name"] for f in S["fields"]]))
        return
    # ---- store(): header
    sst = store["body"]
    elems = None
    if len(sst) == 1 and sst[0]["t"] == "ExprStmt":
        e = unref(sst[0]["e"])
        if kind == "block" and e.get("t") == "Struct" and variant_of(e["path"]) == "Block":
            d = {f["name"]: f["e"] for f in e["fields"]}
            if render(d.get("incfile")) == "self.__block_info.incfile.clone()" and render(d.get("line")) == "self.__block_info.line" and d.get("items", {}).get("t") == "Macro" and d["items"]["path"] == "vec" and set(d) == {"incfile", "line", "items"}:
                elems = d["items"].get("args")
        if kind == "struct" and e.get("t") == "Call" and variant_of(render(e["f"])) == "Struct" and len(e["args"]) == 3:
            a = e["args"]
            if render(a[0]) == "self.__block_info.incfile.clone()" and render(a[1]) == "self.__block_info.line" and a[2].get("t") == "Macro" and a[2]["path"] == "vec":
                elems = a[2].get("args")
    if elems is None:
        ctx.bad(ty, "store-header", "store() is not `GenericIfData::%s` built from self.__block_info.incfile / .line and a vec![..] of items" % ("Block {..}" if kind == "block" else "Struct(..)"))
        return
    # ---- item_location tuple of parse()
    bi = pf.get("__block_info")
    locs = None
    if bi is not None and bi.get("t") == "Struct":
        bd = {f["name"]: render(f["e"]) for f in bi["fields"]}
        for nm, want in (("incfile", "incfile"), ("line", "line"), ("uid", "__uid"), ("start_offset", "__start_offset"), ("end_offset", "__end_offset")):
            ctx.n += 1
            if bd.get(nm) != want:
                ctx.bad(ty, "layout::" + nm, "parse() fills __block_info.%s from %s instead of %s" % (nm, bd.get(nm), want))
        for f in bi["fields"]:
            if f["name"] == "item_location":
                le = unref(f["e"])
                locs = [x for x in le["elems"]] if le.get("t") == "Tuple" else [le]
    if locs is None:
        ctx.bad(ty, "layout::item_location", "parse() does not build __block_info.item_location")
        return
    # ---- walk the members
    k = 0          # slot index
    j = 0          # location index
    fi = 0         # field index
    exp_elems = 0

    def field():
        nonlocal fi
        if fi >= len(fields):
            return None
        f = fields[fi]
        fi += 1
        return f

    for mem in members:
        m = mem
        r = ctx.resolve(m) if m[0].endswith("ref") else m
        ek = elems[k] if k < len(elems) else None
        if ek is None:
            ctx.bad(ty, "store-count", "store() emits %d items, the specification has more members (member %d: %s)" % (len(elems), k, m[0]))
            return
        ss = sshape(ek)
        if r[0] in ("taggedstruct", "taggedunion"):
            want_v = "TaggedStruct" if r[0] == "taggedstruct" else "TaggedUnion"
            got_items = ss[2] if ss[0] == "tagged" else None
            if ss[0] != "tagged" or ss[1] != want_v:
                ctx.bad(ty, "store::%d" % k, "item %d of store() should be GenericIfData::%s built from the tagged items, found %s" % (k, want_v, ss[:2]))
                got_items = None
            for n_it, it in enumerate(r[2]):
                _, tag, is_block, repeat, d = it
                f = field()
                if f is None:
                    ctx.bad(ty, "field-missing::" + tag, "no field for the tagged item \"%s\"" % tag)
                    return
                ps = pshape(pf[f["name"]])
                ctx.n += 1
                kind_p = "multi" if repeat else "opt"
                if ps[0] not in ("opt", "multi"):
                    ctx.bad(ty, "parse::" + f["name"], "field %s (tagged item \"%s\") is not read with get_single_optitem/get_multiple_optitems: %s" % (f["name"], tag, ps))
                    continue
                sub = ps[3]
                if ps[0] != kind_p:
                    ctx.bad(ty, "parse::%s::multiplicity" % f["name"], "tagged item \"%s\" is %s in the specification but read with %s" % (tag, "repeating" if repeat else "not repeating", "get_multiple_optitems" if ps[0] == "multi" else "get_single_optitem"))
                if ps[1] != ("input_items", k):
                    ctx.bad(ty, "parse::%s::slot" % f["name"], "tagged item \"%s\" is read from item %s, its container is member %d" % (tag, ps[1], k))
                if ps[2] != tag:
                    ctx.bad(ty, "parse::%s::tag" % f["name"], "field %s is looked up under the tag \"%s\", the specification says \"%s\"" % (f["name"], ps[2], tag))
                want_ty = ("Vec<%s>" if repeat else "Option<%s>") % sub
                if norm_ty(f["ty"]) != norm_ty(want_ty):
                    ctx.bad(ty, "field::%s::type" % f["name"], "field %s has type %s, expected %s" % (f["name"], f["ty"], want_ty))
                if got_items is not None:
                    if n_it >= len(got_items):
                        ctx.bad(ty, "store::%s::missing" % f["name"], "store() does not emit the tagged item \"%s\"" % tag)
                    else:
                        gtag, gf, gisb, gmulti, gins, glayout, gdata, gextra = got_items[n_it]
                        if gtag != tag or list(gins) != [tag]:
                            ctx.bad(ty, "store::%s::tag" % f["name"], "store() emits the item of field %s with tag \"%s\" and inserts it under %s, the specification says \"%s\"" % (f["name"], gtag, list(gins), tag))
                        if gf != f["name"]:
                            ctx.bad(ty, "store::%s::field" % f["name"], "store() emits tagged item \"%s\" from field %s, parse() reads it into %s" % (tag, gf, f["name"]))
                        if gisb != is_block:
                            ctx.bad(ty, "store::%s::is_block" % f["name"], "store() marks tagged item \"%s\" with is_block=%s, the specification says %s (the writer decides /begin../end from it)" % (tag, gisb, is_block))
                        if gmulti != repeat:
                            ctx.bad(ty, "store::%s::multiplicity" % f["name"], "store() treats tagged item \"%s\" as %s" % (tag, "repeating" if gmulti else "single"))
                        for l in glayout:
                            ctx.bad(ty, "store::%s::layout::%s" % (f["name"], l.split("<-")[0]), "store() fills the layout field %s of tagged item \"%s\" from the wrong source" % (l, tag))
                        if not gdata or gextra:
                            ctx.bad(ty, "store::%s::data" % f["name"], "store() does not fill data of tagged item \"%s\" from the item's own store()" % tag)
                check_struct(ctx, sub, "block", flatten_block(ctx, d))
            if got_items is not None and len(got_items) > len(r[2]):
                ctx.bad(ty, "store::%d::extra" % k, "store() emits %d tagged items in item %d, the specification has %d" % (len(got_items), k, len(r[2])))
            k += 1
            continue
        f = field()
        if f is None:
            ctx.bad(ty, "field-missing::%d" % k, "no field for member %d (%s)" % (k, m[0]))
            return
        ps = pshape(pf[f["name"]])
        lk = locs[j] if j < len(locs) else None
        ctx.n += 1
        name = f["name"]
        if lk is None:
            ctx.bad(ty, "layout::item_location::%s" % name, "item_location has no element %d for field %s" % (j, name))
        else:
            used = {slot(x["recv"]) for x in astq.walk(lk) if x.get("t") == "MethodCall" and x["method"] in ("get_line", "get_int_is_hex", "get_array", "get_sequence")}
            used = {u for u in used if u is not None and u[0] == "input_items"}
            if used != {("input_items", k)}:
                ctx.bad(ty, "layout::item_location::%s::slot" % name, "location element %d (field %s, member %d) is read from %s" % (j, name, k, sorted(used)))
        if r[0] == "scalar" or (r[0] == "array" and r[1] == ("scalar", "char")):
            if r[0] == "scalar":
                rt, acc, var, ishex = SC[r[1]][:4]
            else:
                rt, acc, var, ishex = "String", "get_stringval", "String", False
            if norm_ty(f["ty"]) != rt:
                ctx.bad(ty, "field::%s::type" % name, "field %s has type %s, member %d is %s: expected %s" % (name, f["ty"], k, a2ml_name(m), rt))
            if ps != ("acc", acc, ("input_items", k)):
                ctx.bad(ty, "parse::" + name, "field %s (member %d, %s) should be read with input_items.get(%d)..%s(), found %s" % (name, k, a2ml_name(m), k, acc, ps))
            want = ("int", var, name, (j, (".0",)), (j, (".1",))) if ishex else ("val", var, name, (j, ()))
            if ss != want:
                ctx.bad(ty, "store::" + name, "item %d of store() should be GenericIfData::%s of field %s with location %d, found %s" % (k, var, name, j, ss))
            if lk is not None:
                lp = pshape(lk)
                wantl = ("tuple", (("acc", "get_line", ("input_items", k)), ("acc", "get_int_is_hex", ("input_items", k)))) if ishex else ("acc", "get_line", ("input_items", k))
                if lp != wantl:
                    ctx.bad(ty, "layout::item_location::%s::shape" % name, "location element %d of field %s is %s" % (j, name, lp))
        elif r[0] == "array":
            el = ctx.resolve(r[1]) if r[1][0].endswith("ref") else r[1]
            n = int(r[2], 0)
            if el[0] != "scalar":
                raise common.EngineFailure("reference invocation %s: arrays of %s are not modelled" % (ctx.inv, el[0]))
            rt, acc, var, ishex = SC[el[1]][:4]
            if norm_ty(f["ty"]) != "[%s;%d]" % (rt, n):
                ctx.bad(ty, "field::%s::type" % name, "field %s has type %s, expected [%s; %d]" % (name, f["ty"], rt, n))
            want = ("array", ("input_items", k), tuple(("acc", acc, ("arrayitems", i)) for i in range(n)))
            if ps != want:
                ctx.bad(ty, "parse::" + name, "field %s (member %d, %s[%d]) should read %d elements of get_array() with %s by checked access, found %s" % (name, k, el[1], n, n, acc, str(ps)[:200]))
            wants = ("array", name, ("int", var, "$item", (j, ("[idx]", ".0")), (j, ("[idx]", ".1"))) if ishex else ("val", var, "$item", (j, ("[idx]",))))
            if lk is not None:
                one = (lambda i: ("tuple", (("acc", "get_line", ("arrayitems", i)), ("acc", "get_int_is_hex", ("arrayitems", i))))) if ishex else (lambda i: ("acc", "get_line", ("arrayitems", i)))
                wantl = ("array", ("input_items", k), tuple(one(i) for i in range(n)))
                if pshape(lk) != wantl:
                    ctx.bad(ty, "layout::item_location::%s::shape" % name, "location element %d of the array field %s does not read line%s of elements 0..%d in order: %s" % (j, name, "/is_hex" if ishex else "", n - 1, str(pshape(lk))[:200]))
            if ss != wants:
                ctx.bad(ty, "store::" + name, "item %d of store() should be GenericIfData::Array of %s elements of field %s, found %s" % (k, var, name, str(ss)[:200]))
        elif r[0] == "enum":
            sub = norm_ty(f["ty"])
            if ps != ("sub", sub, ("input_items", k)):
                ctx.bad(ty, "parse::" + name, "field %s (member %d, enum) should be %s::parse(&input_items.get(%d)..), found %s" % (name, k, sub, k, ps))
            if ss != ("enum", name, (j, ())):
                ctx.bad(ty, "store::" + name, "item %d of store() should be self.%s.store(location %d), found %s" % (k, name, j, ss))
            check_enum(ctx, sub, r[2])
        elif r[0] == "struct":
            sub = norm_ty(f["ty"])
            if ps != ("sub", sub, ("input_items", k)):
                ctx.bad(ty, "parse::" + name, "field %s (member %d, struct) should be %s::parse(&input_items.get(%d)..), found %s" % (name, k, sub, k, ps))
            if ss != ("sub", name):
                ctx.bad(ty, "store::" + name, "item %d of store() should be self.%s.store(), found %s" % (k, name, ss))
            check_struct(ctx, sub, "struct", list(r[2]))
        elif r[0] == "seq":
            el = ctx.resolve(r[1]) if r[1][0].endswith("ref") else r[1]
            if el[0] == "struct":
                m2 = re.fullmatch(r"Vec<(\w+)>", norm_ty(f["ty"]))
                sub = m2.group(1) if m2 else "?"
                if not m2:
                    ctx.bad(ty, "field::%s::type" % name, "field %s has type %s, expected Vec<..>" % (name, f["ty"]))
                if ps != ("seq", ("input_items", k), "seqitem", ("sub", sub, ("seqitem", None))):
                    ctx.bad(ty, "parse::" + name, "field %s (member %d, sequence of struct) should loop over get_sequence() and call %s::parse, found %s" % (name, k, sub, str(ps)[:200]))
                if ss != ("seq", name, ("sub", "$item")):
                    ctx.bad(ty, "store::" + name, "item %d of store() should be GenericIfData::Sequence of item.store(), found %s" % (k, str(ss)[:200]))
                check_struct(ctx, sub, "struct", list(el[2]))
                if lk is not None and pshape(lk) != ("seq", ("input_items", k), "seqitem", ("acc", "get_line", ("seqitem", None))):
                    ctx.bad(ty, "layout::item_location::%s::shape" % name, "location element %d of the sequence field %s is %s" % (j, name, str(pshape(lk))[:200]))
            elif el[0] == "scalar" or (el[0] == "array" and el[1] == ("scalar", "char")):
                rt, acc, var, ishex = SC[el[1]][:4] if el[0] == "scalar" else ("String", "get_stringval", "String", False)
                if norm_ty(f["ty"]) != "Vec<%s>" % rt:
                    ctx.bad(ty, "field::%s::type" % name, "field %s has type %s, expected Vec<%s>" % (name, f["ty"], rt))
                if ps != ("seq", ("input_items", k), "seqitem", ("acc", acc, ("seqitem", None))):
                    ctx.bad(ty, "parse::" + name, "field %s (member %d, sequence of %s) should loop over get_sequence() with %s, found %s" % (name, k, a2ml_name(el), acc, str(ps)[:200]))
                if ss[:2] != ("seq", name) or ss[2][:2] != (("int" if ishex else "val"), var):
                    ctx.bad(ty, "store::" + name, "item %d of store() should be GenericIfData::Sequence of %s, found %s" % (k, var, str(ss)[:200]))
                wl = (("acc", "get_line", ("seqitem", None)), ("acc", "get_int_is_hex", ("seqitem", None))) if ishex else ("acc", "get_line", ("seqitem", None))
                if lk is not None and pshape(lk) != ("seq", ("input_items", k), "seqitem", wl):
                    ctx.bad(ty, "layout::item_location::%s::shape" % name, "location element %d of the sequence field %s is %s" % (j, name, str(pshape(lk))[:200]))
            else:
                raise common.EngineFailure("reference invocation %s: sequences of %s are not modelled" % (ctx.inv, el[0]))
        else:
            raise common.EngineFailure("reference invocation %s: member kind %s is not modelled" % (ctx.inv, r[0]))
        k += 1
        j += 1
    if fi != len(fields):
        ctx.bad(ty, "field-extra", "the struct has %d fields beyond the members of the specification: %s" % (len(fields) - fi, [f["name"] for f in fields[fi:]]))
    if len(elems) != k:
        ctx.bad(ty, "store-count", "store() emits %d items, the specification has %d members" % (len(elems), k))
    # ---- no panicking construct in parse()
    genpanic(ctx, ty, parse)


def a2ml_name(m):
    if m[0] == "scalar":
        return m[1]
    if m[0] == "array":
        return "%s[%s]" % (a2ml_name(m[1]), m[2])
    return m[0]


def check_enum(ctx, ty, enumerators):
    if (ty, "enum") in ctx.done:
        return
    ctx.done.add((ty, "enum"))
    E = ctx.enums.get(ty)
    parse = ctx.fns.get((ty, "parse"))
    store = ctx.fns.get((ty, "store"))
    if E is None or parse is None or store is None:
        ctx.bad(ty, "missing", "the expansion has no enum / parse() / store() for this type")
        return
    names = [e[0] for e in enumerators]
    p_arms = {}
    for x in astq.walk(parse["body"]):
        if x.get("t") == "Match":
            for a in x["arms"]:
                if a["pat"].get("t") == "PLit":
                    p_arms[render_pat(a["pat"]).strip('"')] = render(unref_block(a["body"]))
    s_arms = {}
    for x in astq.walk(store["body"]):
        if x.get("t") == "Match":
            for a in x["arms"]:
                b = unref_block(a["body"])
                if b.get("t") == "Lit" and b["kind"] == "str":
                    s_arms[render_pat(a["pat"])] = b["v"]
    variants = [v["name"] for v in E["variants"]]
    ctx.n += len(names)
    if sorted(p_arms) != sorted(names):
        ctx.bad(ty, "enum::parse", "parse() accepts the names %s, the specification has %s" % (sorted(p_arms), sorted(names)))
    back = {}
    for nm, body in p_arms.items():
        m = re.fullmatch(r"Ok\(Self::(\w+)\)", body)
        if not m:
            ctx.bad(ty, "enum::parse::" + nm, "parse() maps \"%s\" to %s" % (nm, body))
            continue
        back[m.group(1)] = nm
    if len(back) != len(p_arms) or sorted(back) != sorted(variants):
        ctx.bad(ty, "enum::variants", "parse() produces the variants %s, the enum has %s (names must map one to one)" % (sorted(back), sorted(variants)))
    for pat, nm in s_arms.items():
        v = pat.split("::")[-1]
        if back.get(v) != nm:
            ctx.bad(ty, "enum::store::" + v, "store() writes variant %s as \"%s\", parse() reads it from \"%s\"" % (v, nm, back.get(v)))
    if len(s_arms) != len(variants):
        ctx.bad(ty, "enum::store", "store() covers %d of %d variants" % (len(s_arms), len(variants)))
    # EnumItem both ways
    if "GenericIfData::EnumItem" not in render_fn(parse) or "GenericIfData::EnumItem" not in render_fn(store):
        ctx.bad(ty, "enum::variant", "parse()/store() of the enum do not use GenericIfData::EnumItem")
    genpanic(ctx, ty, parse)


def render_fn(fn):
    return " ".join(render(x) for x in astq.walk(fn["body"]) if x.get("t") in ("Path", "Call", "PTupleStruct")) + " ".join(render_pat(x) for x in astq.walk(fn["body"]) if str(x.get("t", "")).startswith("P") and x.get("t") != "Path")


PANIC_METHODS = {"unwrap", "expect", "unwrap_unchecked", "swap_remove", "remove", "split_at", "copy_from_slice"}
PANIC_MACROS = {"panic", "unreachable", "unimplemented", "todo", "assert", "assert_eq", "assert_ne"}


def genpanic(ctx, ty, fn):
    ctx.npanic += 1
    for x in astq.walk(fn["body"]):
        t = x.get("t")
        what = None
        if t == "Index":
            what = "index expression %s" % render(x)
        elif t == "MethodCall" and x["method"] in PANIC_METHODS:
            what = "call of .%s()" % x["method"]
        elif t == "Macro" and x["path"] in PANIC_MACROS:
            what = "%s!" % x["path"]
        elif t == "Binary" and x["op"] in ("+", "-", "*", "/", "%", "<<", ">>"):
            what = "arithmetic %s" % render(x)
        elif t == "Cast":
            continue
        if what:
            ctx.bad(ty, "%s::%s" % (fn["sig"]["name"], re.sub(r"\d+", "N", what)[:60]), "generated %s::%s contains a panicking construct (%s): a shape mismatch of the IF_DATA must give Err/None" % (ty, fn["sig"]["name"], what), rule="R19-genpanic", where=GEN + "/ifdata_parser.rs")


def interface(ctx, root):
    """load_from_ifdata / store_to_ifdata of the root type"""
    lf = ctx.fns.get((root, "load_from_ifdata"))
    sf = ctx.fns.get((root, "store_to_ifdata"))
    if lf is None or sf is None:
        ctx.bad(root, "interface", "load_from_ifdata / store_to_ifdata missing")
        return
    ctx.n += 2
    call = None
    for x in astq.walk(lf["body"]):
        if x.get("t") == "Call" and render(x["f"]) == "Self::parse":
            call = x
    want = ["ifdata_items", "ifdata.get_layout().uid", "ifdata.get_layout().start_offset", "ifdata.get_layout().end_offset"]
    if call is None or [render(a) for a in call["args"]] != want:
        ctx.bad(root, "interface::load", "load_from_ifdata should call Self::parse(%s), found %s" % (", ".join(want), [render(a) for a in call["args"]] if call else None), where="a2lmacros/src/a2mlspec.rs")
    txt = [render(s.get("e")) for s in sf["body"]]
    if sorted(txt) != sorted(["ifdata.ifdata_valid = true", "ifdata.ifdata_items = Some(self.store())"]):
        ctx.bad(root, "interface::store", "store_to_ifdata should set ifdata_valid and ifdata_items = Some(self.store()), found %s" % txt, where="a2lmacros/src/a2mlspec.rs")
    genpanic(ctx, root, lf)
    def tests_valid(x):
        if x.get("t") != "If":
            return False
        c = render(x["cond"]).replace(" ", "")
        if c == "ifdata.ifdata_valid":
            return True
        # guard clause: `if !ifdata.ifdata_valid { return None; }`
        if c in ("!ifdata.ifdata_valid", "!(ifdata.ifdata_valid)") and any(y.get("t") == "Return" for y in astq.walk(x.get("then") or x.get("body") or {})):
            return True
        return False
    for x in astq.walk(lf["body"]):
        if tests_valid(x):
            break
    else:
        ctx.bad(root, "interface::load::valid", "load_from_ifdata does not test ifdata.ifdata_valid", where="a2lmacros/src/a2mlspec.rs")


# --------------------------------------------------------------------------------------------- library side tables

def lib_table(chk):
    """R19-table: the library sites that take part in the same contract (a2lfile/src/a2ml.rs, ifdata.rs)"""
    n = 0
    A = "a2lfile/src/a2ml.rs"
    # accessors
    impls = [i for i in astq.impls(A, trait=False, self_ty="GenericIfData")]
    fns = {}
    for i in impls:
        for f in astq.fns(i):
            fns[f["sig"]["name"]] = f
    for kw, (rt, acc, var, ishex, tsv, tokv) in sorted(SC.items()):
        n += 1
        f = fns.get(acc)
        if f is None:
            chk.add(Finding("R19-table", "R19-table::accessor::%s::missing" % acc, "GenericIfData::%s not found" % acc, A))
            continue
        pats = {p["path"].split("::")[-1] for x in astq.walk(f["body"]) for p in astq.walk(x.get("pat") or {}) if p.get("t") == "PTupleStruct"} if False else set()
        for x in astq.walk(f["body"]):
            if str(x.get("t", "")) == "PTupleStruct" and "GenericIfData" in x.get("path", ""):
                pats.add(x["path"].split("::")[-1])
        ret = norm_ty(f["sig"]["ret"])
        if pats != {var}:
            chk.add(Finding("R19-table", "R19-table::accessor::%s::variant" % acc, "%s (A2ML %s) matches the variants %s, expected exactly GenericIfData::%s" % (acc, kw, sorted(pats), var), A))
        if not ret.startswith("Result<%s," % rt):
            chk.add(Finding("R19-table", "R19-table::accessor::%s::type" % acc, "%s returns %s, expected Result<%s, ..>" % (acc, f["sig"]["ret"], rt), A))
    for acc, var in (("get_stringval", "String"), ("get_array", "Array"), ("get_sequence", "Sequence")):
        n += 1
        f = fns.get(acc)
        pats = set()
        if f is not None:
            for x in astq.walk(f["body"]):
                if str(x.get("t", "")) == "PTupleStruct" and "GenericIfData" in x.get("path", ""):
                    pats.add(x["path"].split("::")[-1])
        if pats != {var}:
            chk.add(Finding("R19-table", "R19-table::accessor::%s::variant" % acc, "%s matches the variants %s, expected exactly GenericIfData::%s" % (acc, sorted(pats), var), A))
    for acc, var in (("get_block_items", "Block"), ("get_struct_items", "Struct")):
        n += 1
        f = fns.get(acc)
        pats = set()
        if f is not None:
            for x in astq.walk(f["body"]):
                if str(x.get("t", "")) in ("PTupleStruct", "PStruct") and "GenericIfData" in x.get("path", ""):
                    pats.add(x["path"].split("::")[-1])
        if pats != {var}:
            chk.add(Finding("R19-table", "R19-table::accessor::%s::variant" % acc, "%s matches the variants %s, expected exactly GenericIfData::%s" % (acc, sorted(pats), var), A))
    # parse_ifdata_item: A2mlTypeSpec::X => GenericIfData::Y
    I = "a2lfile/src/ifdata.rs"
    f = astq.free_fn(I, "parse_ifdata_item")
    arms = {}
    if f is not None:
        for x in astq.walk(f["body"]):
            if x.get("t") == "Match" and render(x["e"]) == "spec":
                for a in x["arms"]:
                    pat = render_pat(a["pat"])
                    m = re.match(r"A2mlTypeSpec::(\w+)", pat)
                    if m:
                        arms[m.group(1)] = {variant_of(p["path"]) for p in astq.walk(a["body"]) if p.get("t") == "Path" and variant_of(p["path"])}
    want = {tsv: {var} for kw, (rt, acc, var, ishex, tsv, tokv) in SC.items()}
    want.update({"None": {"None"}, "Array": {"String", "Array"}, "Enum": {"EnumItem"}, "Struct": {"Struct"}, "Sequence": {"Sequence"}, "TaggedStruct": {"TaggedStruct"}, "TaggedUnion": {"TaggedUnion"}})
    for tsv, vs in sorted(want.items()):
        n += 1
        if arms.get(tsv) != vs:
            chk.add(Finding("R19-table", "R19-table::parse_ifdata_item::" + tsv, "parse_ifdata_item builds %s for A2mlTypeSpec::%s, expected %s" % (sorted(arms.get(tsv) or []), tsv, sorted(vs)), I))
    # integer width at the reading site: the variant's payload type decides get_integer::<T>; compare the enum declaration
    en = [e for nm, e in astq.enums(A).items() if nm == "GenericIfData"]
    if en:
        decl = {v["name"]: [norm_ty(x["ty"]) for x in v.get("fields", [])] for v in en[0]["variants"]}
        for kw, (rt, acc, var, ishex, tsv, tokv) in sorted(SC.items()):
            n += 1
            wantp = ["u32", "(%s,bool)" % rt] if ishex else ["u32", rt]
            if decl.get(var) != wantp:
                chk.add(Finding("R19-table", "R19-table::payload::" + var, "GenericIfData::%s carries %s, expected %s" % (var, decl.get(var), wantp), A))
    else:
        chk.add(Finding("R19-table", "R19-table::payload::anchor", "enum GenericIfData not found", A))
    # keyword -> TokenType -> A2mlTypeSpec
    kwmap, tsmap = {}, {}
    for it in astq.items(A):
        if it.get("t") != "Fn":
            continue
        for x in astq.walk(it["body"]):
            if x.get("t") == "Match":
                for a in x["arms"]:
                    pat = a["pat"]
                    body = render(unref_block(a["body"]))
                    if pat.get("t") == "PLit":
                        m = re.fullmatch(r"TokenType::(\w+)", body)
                        if m:
                            kwmap[render_pat(pat).strip('"')] = m.group(1)
                    m1 = re.fullmatch(r"TokenType::(\w+)", render_pat(pat))
                    m2 = re.fullmatch(r"Ok\(\(None, A2mlTypeSpec::(\w+)\)\)", body)
                    if m1 and m2:
                        tsmap[m1.group(1)] = m2.group(1)
    for kw, (rt, acc, var, ishex, tsv, tokv) in sorted(SC.items()):
        n += 1
        if kwmap.get(kw) != tokv or tsmap.get(tokv) != tsv:
            chk.add(Finding("R19-table", "R19-table::keyword::" + kw, "the A2ML keyword %s is tokenized as %s and typed as %s, expected TokenType::%s / A2mlTypeSpec::%s" % (kw, kwmap.get(kw), tsmap.get(kwmap.get(kw)), tokv, tsv), A))
    chk.rule("R19-table", "library sites of the typed-access contract (accessor <-> variant <-> payload type <-> A2mlTypeSpec <-> keyword) compared with the reference table", n, floor=50)


def run(chk):
    facts = common.a2ml_text_facts()
    n = 0
    npanic = 0
    ntypes = 0
    for fn, d in sorted(facts.items()):
        if "error" in d:
            continue        # reported by R19-text
        for k, s in enumerate(d["specs"]):
            inv = "%s#%d" % (fn, k)
            tree = a2mlread.structure_of_tree(s["input"])
            ctx = Ctx(chk, inv, tree, s["items"])
            root = root_name(s["input"])
            if tree["ifdata"] is None or root is None:
                raise common.EngineFailure("reference invocation %s has no <Name> / block \"IF_DATA\"" % inv)
            check_struct(ctx, root, "block", flatten_block(ctx, tree["ifdata"]))
            interface(ctx, root)
            n += ctx.n
            npanic += ctx.npanic
            ntypes += len(ctx.done)
    chk.rule("R19-typed", "members, tagged items, enumerators and layout fields of the reference invocations whose generated field type, parse() read and store() item agree with the specification", n, floor=120, extra={"generated_types": ntypes})
    chk.rule("R19-genpanic", "generated parse()/load_from_ifdata functions free of panicking constructs (index, unwrap, arithmetic, panicking macros)", npanic, floor=25)
    lib_table(chk)


def root_name(tree):
    toks = a2mlread.tokens_from_tree(tree)
    if len(toks) >= 3 and toks[0] == ("p", "<") and toks[1][0] == "id" and toks[2] == ("p", ">"):
        return toks[1][1]
    return None
