"""C17 Encoding independence (DESIGN.md section 3, C17)

R17-panic   panic obligations in loader::load / read_data / decode_raw_bytes (totality)
R17-decode  decision table of the decoder: which conversion (UTF-8, UTF-16 LE/BE, UTF-32 LE/BE, Latin-1) is tried under which
            byte-order-mark / zero-byte heuristics, what is stripped, what happens when a conversion fails (reviewed table)
"""
import re
from . import mir, panics, scopes, sym, diag

LOADER_CALLS = re.compile(r"(from_utf8|from_utf16|from_utf8_lossy|from_utf8_unchecked|char::from_u32|from_u32|from_le_bytes|from_be_bytes|strip_prefix|starts_with|String::push|String::push_str|Vec(<.*>)?::push|loader::\w+|fs::File::open|Read>?::read_to_end|read_to_end|read_to_string|fs::read|metadata|chunks|chunks_exact|collect|decode_utf16|is_char_boundary)$")


def loader_table(prog):
    A = sym.Analyzer(prog, opaque=[r"loader::.*"])
    fids = sorted(f for f, b in prog.bodies.items() if b.file == "a2lfile/src/loader.rs" and b.kind != "Closure" and not f.startswith("loader::test"))
    return diag.module_table(prog, A, fids, LOADER_CALLS, adts=("A2lError",))


def run(chk):
    prog = mir.prog()
    panics.run_scope(chk, "R17-panic", prog, scopes.decode_scope(prog), what="panic obligations in loader::load / read_data / decode_raw_bytes", floor=30)
    diag.compare(chk, "R17-decode", "loader", loader_table(prog), "decisions of the file loader / decoder (conversion calls, stripped prefixes, scan steps) with their control predicates, compared with the reviewed table", floor=20)
    chk.assumptions += ["not decided: that each encoding yields the same model (value-level decoding); R17-decode fixes which conversion is chosen when"]
