"""C17 Encoding independence: totality only (DESIGN.md section 3, C17)"""
from . import mir, panics, scopes


def run(chk):
    prog = mir.prog()
    panics.run_scope(chk, "R17-panic", prog, scopes.decode_scope(prog), what="panic obligations in loader::load / read_data / decode_raw_bytes", floor=30)
    chk.assumptions += ["not decided: that each encoding yields the same model (value-level decoding)"]
