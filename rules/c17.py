"""C17 Encoding independence (DESIGN.md section 3, C17)

R17-panic   panic obligations in loader::load / read_data / decode_raw_bytes (totality)
R17-decode  decision table of the decoder: which conversion (UTF-8, UTF-16 LE/BE, UTF-32 LE/BE, Latin-1) is tried under which
            byte-order-mark / zero-byte heuristics, what is stripped, what happens when a conversion fails (reviewed table)
"""
import re
from . import mir, panics, scopes, sym, diag

LOADER_CALLS = re.compile(r"(from_utf8|from_utf16|from_utf8_lossy|from_utf8_unchecked|char::from_u32|from_u32|from_le_bytes|from_be_bytes|strip_prefix|starts_with|String::push|String::push_str|Vec(<.*>)?::push|loader::\w+|fs::File::open|Read>?::read_to_end|read_to_end|read_to_string|fs::read|metadata|chunks|chunks_exact|collect|decode_utf16|is_char_boundary)$")


def loader_table(prog):
    A = sym.Analyzer(prog, opaque=[r"loader::.*"])
    fids = sorted(f for f, b in prog.bodies.items() if b.file == "a2lfile/src/loader.rs" and b.kind != "Closure" and not f.startswith("loader::test"))
    return diag.module_table(prog, A, fids, LOADER_CALLS, adts=("A2lError",))


def run(chk):
    prog = mir.prog()
    # "no byte sequence makes the loader panic": the decoder, and the scanner that is the first to look at the decoded text byte by byte
    # (slices of the text at computed positions must fall on character boundaries)
    scope = set(scopes.decode_scope(prog)) | {f for f, b in prog.bodies.items() if b.file in ("a2lfile/src/loader.rs", "a2lfile/src/tokenizer.rs") and "::test" not in f and "::tests" not in f}
    panics.run_scope(chk, "R17-panic", prog, scope, what="panic obligations in loader.rs (load / read_data / decode_raw_bytes) and in the scanner tokenizer.rs", floor=170)
    diag.compare(chk, "R17-decode", "loader", loader_table(prog), "decisions of the file loader / decoder (conversion calls, stripped prefixes, scan steps) with their control predicates, compared with the reviewed table", floor=20)
    chk.assumptions += ["not decided: that each encoding yields the same model (value-level decoding); R17-decode fixes which conversion is chosen when"]
