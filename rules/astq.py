"""helpers over the syn JSON AST produced by `specscan ast`"""
from . import common

_cache = {}


def files():
    if "f" not in _cache:
        _cache["f"] = common.ast_facts()
    return _cache["f"]


def file(rel):
    return files().get(rel)


def walk(n):
    """all dict nodes of a subtree, pre-order"""
    st = [n]
    while st:
        x = st.pop()
        if isinstance(x, dict):
            yield x
            for v in reversed(list(x.values())):
                if isinstance(v, (dict, list)):
                    st.append(v)
        elif isinstance(x, list):
            for v in reversed(x):
                if isinstance(v, (dict, list)):
                    st.append(v)


def items(rel, recurse_mods=True):
    f = file(rel)
    if f is None:
        return []
    out = []

    def rec(its):
        for it in its:
            out.append(it)
            if recurse_mods and it.get("t") == "Mod" and it.get("items") and not it.get("cfg_test"):
                rec(it["items"])
    rec(f["items"])
    return out


def impls(rel, trait=None, self_ty=None):
    for it in items(rel):
        if it.get("t") != "Impl":
            continue
        if trait is not None:
            tr = it.get("trait")
            if trait is False:
                if tr is not None:
                    continue
            elif tr is None or not (tr == trait or tr.startswith(trait + " <") or tr.startswith(trait + "<")):
                continue
        if self_ty is not None and it["self_ty"] != self_ty:
            continue
        yield it


def fns(impl):
    for it in impl["items"]:
        if it.get("t") == "Fn":
            yield it


def fn_named(impl, name):
    for f in fns(impl):
        if f["sig"]["name"] == name:
            return f
    return None


def free_fn(rel, name):
    for it in items(rel):
        if it.get("t") == "Fn" and it["sig"]["name"] == name:
            return it
    return None


def structs(rel):
    return {it["name"]: it for it in items(rel) if it.get("t") == "Struct"}


def enums(rel):
    return {it["name"]: it for it in items(rel) if it.get("t") == "Enum"}


def is_path(e, name):
    return isinstance(e, dict) and e.get("t") == "Path" and e["path"] == name


def strip_ref(e):
    while isinstance(e, dict) and e.get("t") in ("Ref",) :
        e = e["e"]
    while isinstance(e, dict) and e.get("t") == "Unary" and e["op"] == "*":
        e = e["e"]
    return e


def field_chain(e):
    """self.a.b.0 -> ("self", ["a","b","0"]) ; None if not a pure field chain on a path"""
    e = strip_ref(e)
    fields = []
    while isinstance(e, dict) and e.get("t") == "Field":
        fields.append(e["name"])
        e = strip_ref(e["base"])
    if isinstance(e, dict) and e.get("t") == "Path":
        fields.reverse()
        return e["path"], fields
    return None


def method_calls(n, method=None):
    for x in walk(n):
        if x.get("t") == "MethodCall" and (method is None or x["method"] == method):
            yield x


def lit_str(e):
    if isinstance(e, dict) and e.get("t") == "Lit" and e.get("kind") == "str":
        return e["v"]
    return None
