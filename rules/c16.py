"""C16 /include transparency (structural clauses; see DESIGN.md section 3, C16)"""
from . import genrules


def run(chk):
    genrules.r16_merge(chk)
    genrules.r01_dual(chk, rule="R16-dual-aux", inc_rule="R16-writer")
    chk.findings = [f for f in chk.findings if f.rule in ("R16-merge", "R16-writer")]
    chk.rules = [r for r in chk.rules if r["rule"] in ("R16-merge", "R16-writer")]
    genrules.expansion_diffs(chk, "R16-shipped", lambda k: "merge_includes" in k,
                             "generated A2lObject impls (merge_includes/reset_location) identical (canonical form) to the generator's output")
    chk.assumptions += ["not decided: model equality with the flattened text; path resolution on disk"]
