"""C16 /include is transparent for loading and preserved by writing (structural clauses; DESIGN.md section 3, C16)

R16-merge    generated merge_includes: own incfile reset + every child element visited
R16-writer   generated stringify: a child is written only if its own incfile is None and passes its own incfile to the group
R16-ifdata   GenericIfData::merge_includes recurses into every variant that contains further items (as write_item does) and
             clears every incfile it passes
R16-fileid   tokenize(): the next file id advances by the number of files the nested tokenize() returned, whose names/data are appended
R16-err      tokenize(): a failed load of an include file produces IncludeFileError (not a dropped error); reviewed guard table
R03-rec      (shared with C03) the include recursion is unbounded: a self-including file aborts - reported under C03
"""
import re
import json
import os
from . import genrules, mir, sym, guards, diag, panics, common
from .common import Finding

GID = "a2ml::GenericIfData"


def dispatch_rows(prog):
    """[token type, reaching condition within one pass of the scanner loop] for every token built in tokenize_core"""
    A = sym.Analyzer(prog, opaque=[r"tokenizer::.*", r"loader::.*", r"a2ml::.*"])
    b = prog.bodies.get("tokenizer::tokenize_core")
    if b is None:
        return None
    S = A.summary(b.id)
    out = []
    for bi, si, st in b.stmts():
        if st["k"] == "assign" and st["rv"]["r"] == "agg" and st["rv"].get("adt") == "tokenizer::A2lToken":
            pl = mir.op_place(st["rv"]["ops"][st["rv"]["fields"].index("ttype")])
            v = None
            for bj, sj, s2 in b.stmts():
                if pl is not None and s2["k"] == "assign" and not s2["p"]["p"] and s2["p"]["l"] == pl["l"] and s2["rv"]["r"] == "agg":
                    v = s2["rv"].get("v")
            out.append([v or "?", canon(guards.reach_formula(b, S, bi)), b.where(st["ln"])])
    # the character classes the branches test: a predicate function's return condition is a row of its own
    for fid in sorted(prog.bodies):
        cb = prog.bodies[fid]
        if fid.startswith("tokenizer::is_") and cb.kind != "Closure" and cb.locals and cb.locals[0]["ty"] == "bool":
            f = guards.value_formula(cb, A.summary(fid), 0)
            out.append(["class " + fid.split("::")[-1], canon(f) if f is not None else None, cb.where()])
    return out


def canon(f):
    """and/or flattened and operands ordered: the same condition written in a different order is the same row"""
    if isinstance(f, list) and f and f[0] in ("and", "or"):
        ops = []
        for x in f[1:]:
            c = canon(x)
            if isinstance(c, list) and c and c[0] == f[0]:
                ops += c[1:]
            else:
                ops.append(c)
        uniq = []
        for o in sorted(ops, key=lambda o: json.dumps(o, sort_keys=True)):
            if o not in uniq:
                uniq.append(o)
        return [f[0]] + uniq if len(uniq) != 1 else uniq[0]
    if isinstance(f, list):
        return [canon(x) if isinstance(x, list) and x and x[0] in ("and", "or") else x for x in f]
    return f


def _ctx_root(b, pl):
    """local that holds the ParseContext a place `(*)ctx.field` is read from (references followed)"""
    l = pl["l"]
    for _ in range(8):
        nxt = None
        for blk in b.blocks:
            for st in blk["s"]:
                if st["k"] == "assign" and not st["p"]["p"] and st["p"]["l"] == l:
                    rv = st["rv"]
                    src = rv["p"] if rv["r"] == "ref" else (mir.op_place(rv["a"]) if rv["r"] == "use" else None)
                    if src is not None and all(x == "*" for x in src["p"]):
                        nxt = src["l"]
        if nxt is None or nxt == l:
            break
        l = nxt
    return l


def _field_src(b, l, field, depth=0):
    """follow plain copies of local l back to a read `<place>.field` of a ParseContext; returns that place or None"""
    if depth > 6:
        return None
    for bj, sj, s2 in b.stmts():
        if s2["k"] == "assign" and not s2["p"]["p"] and s2["p"]["l"] == l and s2["rv"]["r"] == "use":
            src = mir.op_place(s2["rv"]["a"])
            if src is None:
                continue
            if src["p"] and isinstance(src["p"][-1], dict) and src["p"][-1].get("f") == field and src["p"][-1].get("adt") == "parser::ParseContext":
                return src
            if not src["p"]:
                r = _field_src(b, src["l"], field, depth + 1)
                if r is not None:
                    return r
    return None


def _call_def(b, l, suffix, depth=0):
    if depth > 6:
        return None
    for bj, t in b.calls():
        if t.get("dest") and not t["dest"]["p"] and t["dest"]["l"] == l and mir.strip_generics(t.get("res") or "").endswith(suffix):
            return t
    for bj, sj, s2 in b.stmts():
        if s2["k"] == "assign" and not s2["p"]["p"] and s2["p"]["l"] == l and s2["rv"]["r"] == "use":
            src = mir.op_place(s2["rv"]["a"])
            if src is not None and not src["p"]:
                r = _call_def(b, src["l"], suffix, depth + 1)
                if r is not None:
                    return r
    return None


def r16_origin(chk, prog, rule="R16-origin"):
    """an element's include origin (`incfile`) and its `line` describe the same token: wherever a value with both fields is built from
    a ParseContext, get_incfilename() is given the fileid of the very context whose line is stored (taking the file of the
    enclosing context makes the writer emit the element inline and its children as /include, or the reverse)"""
    n = 0
    for fid, b in sorted(prog.bodies.items()):
        if not (b.file or "").startswith("a2lfile/src/"):
            continue
        for bi, si, st in b.stmts():
            if st["k"] != "assign" or st["rv"]["r"] != "agg":
                continue
            f = st["rv"].get("fields") or []
            if "incfile" not in f or "line" not in f:
                continue
            inc = mir.op_place(st["rv"]["ops"][f.index("incfile")])
            lin = mir.op_place(st["rv"]["ops"][f.index("line")])
            if inc is None or lin is None or inc["p"] or lin["p"]:
                continue
            src = _field_src(b, lin["l"], "line")
            lroot = _ctx_root(b, src) if src is not None else None
            iroot = None
            t = _call_def(b, inc["l"], "::get_incfilename")
            if t is not None and len(t["args"]) >= 2:
                a = mir.op_place(t["args"][1])
                if a is not None and not a["p"]:
                    src = _field_src(b, a["l"], "fileid")
                    iroot = _ctx_root(b, src) if src is not None else None
            if lroot is None or iroot is None:
                continue
            n += 1
            if lroot != iroot:
                chk.add(Finding(rule, "%s::%s::%s" % (rule, mir.strip_generics(fid), st["rv"].get("adt", "?").split("::")[-1]), "%s builds a %s whose `line` comes from the context `%s` but whose include origin is looked up with the fileid of `%s`: the element is attributed to a different file than the token it starts with" % (fid, st["rv"].get("adt"), b.local_name(lroot), b.local_name(iroot)), b.where(st["ln"])))
    chk.rule(rule, "values built with both `incfile` and `line`: both taken from the same ParseContext", n, floor=172)


RESOLVE_CALLS = re.compile(r"(Path::(new|parent|join|exists|is_absolute|is_file|is_relative|with_file_name)|PathBuf::(push|from|join)|OsString::from|From<.*>>::from|::from|str::replace|::replace|Option::filter|canonicalize)$")


def resolve_table(prog):
    """decisions of loader::make_include_filename: which candidate path is built and returned under which tests"""
    A = sym.Analyzer(prog, opaque=[r"loader::.*"])
    fids = [f for f in ("loader::make_include_filename",) if f in prog.bodies]
    fids = diag.with_new_functions(prog, fids)
    return diag.module_table(prog, A, fids, RESOLVE_CALLS, cursors=False)


def r16_dispatch(chk, prog, rule="R16-dispatch"):
    """the scanner's if/else-if chain decides by precedence which kind of token a character starts (an unquoted include path is tried
    before an identifier, a block keyword before a path ...): per token kind, the condition under which it is built within one
    pass of the loop equals the reviewed one (logically, or up to the order of operands where the operand descriptions are too
    coarse to decide equivalence)"""
    cur = dispatch_rows(prog)
    pth = os.path.join(common.VERIF, "oracle", "token_dispatch.json")
    n = 0
    if cur is None or not os.path.exists(pth):
        chk.add(Finding(rule, rule + "::anchor", "tokenizer::tokenize_core or oracle/token_dispatch.json not found"))
    else:
        ora = json.load(open(pth))["rows"]
        left = list(cur)
        n = len(cur)
        for tt, fo in ora:
            hit = None
            for r in left:
                if r[0] != tt:
                    continue
                if json.dumps(r[1], sort_keys=True) == json.dumps(fo, sort_keys=True) or guards.equivalent(fo, r[1]) is True:
                    hit = r
                    break
            if hit is not None:
                left.remove(hit)
            else:
                chk.add(Finding(rule, "%s::%s::missing" % (rule, tt), ("the character class %s of the scanner no longer accepts exactly the reviewed characters" % tt[6:]) if tt.startswith("class ") else "tokenize_core no longer builds a %s token under the reviewed condition (precedence of the scanner's branches changed, or a test was altered)" % tt, "a2lfile/src/tokenizer.rs"))
        for r in left:
            chk.add(Finding(rule, "%s::%s::new" % (rule, r[0]), "tokenize_core builds a %s token under a condition that is not in the reviewed table" % r[0], r[2]))
    chk.rule(rule, "token constructions in tokenize_core with their in-iteration reaching condition, and the scanner's character classes, compared with the reviewed table", n, floor=13)


def producer_chain(b, l, depth=0):
    """names of the calls a value went through on its way into local l (copies and references skipped), nearest first"""
    if depth > 6 or 1 <= l <= b.argc:
        return []
    defs = []
    for bi, blk in enumerate(b.blocks):
        if blk["cleanup"]:
            continue
        for st in blk["s"]:
            if st["k"] == "assign" and not st["p"]["p"] and st["p"]["l"] == l:
                defs.append(("s", st))
        t = blk["t"]
        if t["k"] == "call" and t.get("dest") and not t["dest"]["p"] and t["dest"]["l"] == l:
            defs.append(("c", t))
    if len(defs) != 1:
        return []
    k, d = defs[0]
    if k == "s":
        rv = d["rv"]
        pl = rv["p"] if rv["r"] == "ref" else (mir.op_place(rv["a"]) if rv["r"] in ("use", "cast") else None)
        return producer_chain(b, pl["l"], depth + 1) if pl is not None else []
    nm = mir.strip_generics((d.get("res") or "").lstrip("?")).split("::")[-1]
    if nm in ("deref", "deref_mut", "as_ref", "as_mut", "borrow", "as_str", "into", "from"):
        ip = mir.op_place(d["args"][0]) if d["args"] else None
        return producer_chain(b, ip["l"], depth + 1) if ip is not None else []
    ip = mir.op_place(d["args"][0]) if d["args"] else None
    return [nm] + (producer_chain(b, ip["l"], depth + 1) if ip is not None and not ip["p"] else [])


def tokenizer_table(prog):
    A = sym.Analyzer(prog, opaque=[r"tokenizer::.*", r"loader::.*", r"a2ml::.*"])
    out = {}
    for fid in ("tokenizer::tokenize", "a2ml::tokenize_include", "a2ml::tokenize_a2ml"):
        rows = diag.agg_rows(prog, A, fid, {"tokenizer::TokenizerError"})
        b = prog.bodies.get(fid)
        if b is None:
            continue
        S = A.summary(fid)
        cseen = set()
        for ev in S.events:
            if ev[0] == "call" and ev[3] == fid and (ev[1], ev[6]) in cseen:
                continue
            if ev[0] == "call" and ev[3] == fid:
                cseen.add((ev[1], ev[6]))
            if ev[0] == "call" and ev[3] == fid and re.search(r"(tokenizer::tokenize|a2ml::tokenize_a2ml|a2ml::tokenize_tag|a2ml::tokenize_number|a2ml::tokenize_keyword_ident|a2ml::tokenize_include|a2ml::make_errtxt|loader::load|loader::make_include_filename|Vec::append|Vec::extend_from_slice|Vec::extend|Vec::push|String::push_str)$", ev[1]):
                eff = "call " + ev[1].split("::")[-1] + ("(%s)" % guards.fmt_terms(ev[2][0]) if re.search(r"(append|extend_from_slice|extend|push|push_str)$", ev[1]) else "")
                if ev[1].endswith("String::push_str"):
                    # what is appended to the flattened text: the calls the appended value went through (a slice taken as it is, or
                    # trimmed / converted on the way)
                    pt = b.blocks[ev[6]]["t"]
                    ap = mir.op_place(pt["args"][1]) if len(pt.get("args", [])) > 1 else None
                    if ap is not None and not ap["p"]:
                        eff += " <- " + ("<-".join(producer_chain(b, ap["l"])) or "value")
                rows.append([eff, sorted(guards.guard_set(b, S, ev[6]))])
        rows.sort(key=lambda r: (r[0], r[1]))
        out[fid] = rows
    # resolution of the include file name relative to the including file
    fid = "loader::make_include_filename"
    b = prog.bodies.get(fid)
    if b is not None:
        S = A2 = sym.Analyzer(prog, opaque=[r"loader::.*"]).summary(fid)
        rows = []
        for ev in S.events:
            if ev[0] == "call" and ev[3] == fid and re.search(r"std::path::|ffi::os_str|OsString", ev[1]):
                nm = mir.strip_generics(ev[1])
                if re.search(r"(Path::new|as_ref|deref|from|borrow|to_owned|into|as_os_str)$", nm):
                    continue
                rows.append(["path " + "::".join(nm.split("::")[-2:]), sorted(guards.guard_set(b, S, ev[6]))])
        rows.sort(key=lambda r: (r[0], r[1]))
        out[fid] = rows
    return out


def r16_fileid(chk, rule="R16-fileid"):
    prog = mir.prog()
    b = prog.bodies.get("tokenizer::tokenize")
    n = 0
    if b is None:
        chk.add(Finding(rule, rule + "::anchor", "tokenizer::tokenize not found"))
    else:
        obs, fz = panics.obligations_of(b, prog)
        adv = [o for o in obs if o.kind == "Overflow:Add" and re.search(r"Add len\(.*filenames\)", o.desc)]
        n = 1
        if not adv:
            others = sorted({o.desc for o in obs if o.kind == "Overflow:Add"})
            chk.add(Finding(rule, rule + "::advance", "after tokenizing an included file the next file id is not advanced by the number of files that call returned (additions found: %s): a later /include reuses the id of a nested include and its tokens are read against the wrong file's text" % others, b.where()))
        S = sym.Analyzer(prog, opaque=[r"tokenizer::.*", r"loader::.*"]).summary(b.id)
        apps = [e for e in S.events if e[0] == "call" and e[3] == b.id and e[1].endswith("Vec::append")]
        names = {guards.fmt_terms(e[2][1]) for e in apps if len(e[2]) > 1}
        for want in ("filenames", "filedata", "tokens"):
            n += 1
            if not any(want in x for x in names):
                chk.add(Finding(rule, rule + "::append::" + want, "tokenize() does not append the nested result's %s to its own" % want, b.where()))
        # Vec::append empties its argument: the count of nested files must be read before the nested names are moved out
        for o in adv:
            for e in apps:
                if len(e[2]) > 1 and "filenames" in guards.fmt_terms(e[2][1]):
                    n += 1
                    if not b.dominates(o.bb, e[6]) or o.bb == e[6]:
                        chk.add(Finding(rule, rule + "::advance-after-append", "tokenize() reads the number of nested file names after Vec::append moved them out (append leaves its argument empty): the next file id does not advance, sibling /include files share one id and line offsets are computed across different files", b.where(o.line)))
    chk.rule(rule, "file-id bookkeeping of nested includes (id advance read before the names are moved, names/data/tokens appended)", n, floor=5)



def run(chk):
    genrules.r16_merge(chk)
    genrules.r01_dual(chk, rule="R16-dual-aux", inc_rule="R16-writer")
    chk.findings = [f for f in chk.findings if f.rule in ("R16-merge", "R16-writer")]
    chk.rules = [r for r in chk.rules if r["rule"] in ("R16-merge", "R16-writer")]
    genrules.expansion_diffs(chk, "R16-shipped", lambda k: "merge_includes" in k or re.search(r"\bA2ml\b.*\bparse\b", k) is not None,
                             "generated A2lObject impls (merge_includes/reset_location) identical (canonical form) to the generator's output")
    from . import writertab
    writertab.compare(chk, "R16-group", fn_filter=lambda fn: fn.split("::")[-1] in ("add_group",), floor=15)
    prog = mir.prog()
    # ------------------------------------------------------------------ R16-ifdata
    adt = prog.adts.get(GID)
    n = 0
    if adt is None:
        chk.add(Finding("R16-ifdata", "R16-ifdata::anchor", "a2ml::GenericIfData not found"))
    else:
        containers = [v["name"] for v in adt["variants"] if any("GenericIfData" in f["ty"] for f in v["fields"])]
        with_inc = [v["name"] for v in adt["variants"] if any(f["name"] == "incfile" or (f["ty"].startswith("std::option::Option<std::string::String>")) for f in v["fields"])]
        A = sym.Analyzer(prog, opaque=[r"a2ml::.*"])
        b = prog.bodies.get("a2ml::GenericIfData::merge_includes")
        if b is None:
            chk.add(Finding("R16-ifdata", "R16-ifdata::anchor2", "GenericIfData::merge_includes not found"))
        else:
            S = A.summary(b.id)
            rec = set()
            for ev in S.events:
                if ev[0] == "call" and ev[3] == b.id and ev[1].endswith("GenericIfData::merge_includes"):
                    for g in guards.guard_set(b, S, ev[6]):
                        m = re.fullmatch(r"discr\(arg1\) == (.*)", g)
                        if m:
                            rec.update(m.group(1).split("|"))
            # the descent and the reset are unconditional: they depend only on the variant and on the iteration over the items
            for ev in S.events:
                blk = ev[6] if ev[0] == "call" else (ev[5] if ev[0] == "write" else None)
                if blk is None or ev[3] != b.id or (ev[0] == "call" and not ev[1].endswith("GenericIfData::merge_includes")):
                    continue
                if ev[0] == "write" and not re.search(r"incfile|\.0$", sym.fmt(ev[1])):
                    continue
                extra = [g for g in guards.guard_set(b, S, blk) if not re.fullmatch(r"discr\(arg1\) == \w+(\|\w+)*", g) and not re.fullmatch(r"discr\(arg1(\.(\d+|items))*(\|arg1(\.(\d+|items))*)*\) == Some", g)]
                n += 1
                if extra:
                    chk.add(Finding("R16-ifdata", "R16-ifdata::conditional::" + ("recurse" if ev[0] == "call" else "clear"), "GenericIfData::merge_includes %s only under the additional condition %s: items below an element that was not itself included (or already cleared) keep their /include origin" % ("descends into nested items" if ev[0] == "call" else "clears the include origin", extra), b.where(ev[4])))
            cleared = set()
            for ev in S.events:
                if ev[0] == "write" and ev[3] == b.id:
                    r, fields = sym.path_of(ev[1])
                    if fields and re.search(r"GenericIfData::(\w+)\.(incfile|0)$", fields[-1]) and not ev[2]:
                        cleared.add(re.search(r"GenericIfData::(\w+)\.", fields[-1]).group(1))
            for v in containers:
                n += 1
                if v not in rec:
                    chk.add(Finding("R16-ifdata", "R16-ifdata::recurse::" + v, "GenericIfData::merge_includes does not descend into %s values: tagged items below them keep their include origin, and after merge_includes() the file is written with /include directives in the middle of the IF_DATA instead of the data" % v, b.where()))
            for v in with_inc:
                n += 1
                if v not in cleared:
                    chk.add(Finding("R16-ifdata", "R16-ifdata::clear::" + v, "GenericIfData::merge_includes does not clear the incfile of %s values" % v, b.where()))
            # sibling: write_item / write recurse into the same containers
            wrec = set()
            for wid in ("a2ml::GenericIfData::write_item", "a2ml::GenericIfData::write"):
                wb = prog.bodies.get(wid)
                if wb is None:
                    continue
                Sw = A.summary(wid)
                for ev in Sw.events:
                    if ev[0] == "call" and ev[3] == wid and re.search(r"GenericIfData::(write_item|write)$", ev[1]):
                        for g in guards.guard_set(wb, Sw, ev[6]):
                            m = re.fullmatch(r"discr\(arg\d\) == (.*)", g)
                            if m:
                                wrec.update(x for x in m.group(1).split("|") if x in containers)
            for v in sorted(wrec - rec):
                chk.add(Finding("R16-ifdata", "R16-ifdata::sibling::" + v, "the writer walks into %s values but merge_includes does not" % v, b.where()))
    chk.rule("R16-ifdata", "GenericIfData variants that contain further items / carry an include origin handled by merge_includes", n, floor=8)

    r16_fileid(chk)
    r16_dispatch(chk, prog)
    r16_origin(chk, prog)

    diag.compare(chk, "R16-resolve", "resolve", resolve_table(prog), "include path resolution (make_include_filename): separator normalisation, absolute paths, the directory of the including file tried first, fallback to the name as written; compared with the reviewed table", floor=5)
    # include files (A2L and A2ML) are read through loader::load: what it does with the bytes of a file (decoding, removal of a
    # byte order mark) applies to every included file exactly as to the main file
    from . import c17
    diag.compare(chk, "R16-load", "loader", c17.loader_table(prog), "loader::load (used for the main file and for every /include): its steps with their control predicates, compared with the reviewed table", floor=4,
                 fn_filter=lambda fn: fn == "loader::load")
    # ------------------------------------------------------------------ R16-err
    diag.compare(chk, "R16-err", "tokenizer", tokenizer_table(prog), "include handling in tokenize()/tokenize_include(): error constructions and nested calls with their control predicates, compared with the reviewed table", floor=8)
    chk.assumptions += ["not decided: model equality with the flattened text; path resolution on disk"]
