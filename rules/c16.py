"""C16 /include is transparent for loading and preserved by writing (structural clauses; DESIGN.md section 3, C16)

R16-merge    generated merge_includes: own incfile reset + every child element visited
R16-writer   generated stringify: a child is written only if its own incfile is None and passes its own incfile to the group
R16-ifdata   GenericIfData::merge_includes recurses into every variant that contains further items (as write_item does) and
             clears every incfile it passes
R16-fileid   tokenize(): the next file id advances by the number of files the nested tokenize() returned, whose names/data are appended
R16-err      tokenize(): a failed load of an include file produces IncludeFileError (not a dropped error); reviewed guard table
R03-rec      (shared with C03) the include recursion is unbounded: a self-including file aborts - reported under C03
"""
import re
from . import genrules, mir, sym, guards, diag, panics
from .common import Finding

GID = "a2ml::GenericIfData"


def tokenizer_table(prog):
    A = sym.Analyzer(prog, opaque=[r"tokenizer::.*", r"loader::.*", r"a2ml::.*"])
    out = {}
    for fid in ("tokenizer::tokenize", "a2ml::tokenize_include", "a2ml::tokenize_a2ml"):
        rows = diag.agg_rows(prog, A, fid, {"tokenizer::TokenizerError"})
        b = prog.bodies.get(fid)
        if b is None:
            continue
        S = A.summary(fid)
        cseen = set()
        for ev in S.events:
            if ev[0] == "call" and ev[3] == fid and (ev[1], ev[6]) in cseen:
                continue
            if ev[0] == "call" and ev[3] == fid:
                cseen.add((ev[1], ev[6]))
            if ev[0] == "call" and ev[3] == fid and re.search(r"(tokenizer::tokenize|a2ml::tokenize_a2ml|a2ml::tokenize_tag|a2ml::tokenize_number|a2ml::tokenize_keyword_ident|a2ml::tokenize_include|a2ml::make_errtxt|loader::load|loader::make_include_filename|Vec::append|Vec::extend_from_slice|Vec::extend|Vec::push|String::push_str)$", ev[1]):
                rows.append(["call " + ev[1].split("::")[-1] + ("(%s)" % guards.fmt_terms(ev[2][0]) if re.search(r"(append|extend_from_slice|extend|push|push_str)$", ev[1]) else ""), sorted(guards.guard_set(b, S, ev[6]))])
        rows.sort(key=lambda r: (r[0], r[1]))
        out[fid] = rows
    # resolution of the include file name relative to the including file
    fid = "loader::make_include_filename"
    b = prog.bodies.get(fid)
    if b is not None:
        S = A2 = sym.Analyzer(prog, opaque=[r"loader::.*"]).summary(fid)
        rows = []
        for ev in S.events:
            if ev[0] == "call" and ev[3] == fid and re.search(r"std::path::|ffi::os_str|OsString", ev[1]):
                nm = mir.strip_generics(ev[1])
                if re.search(r"(Path::new|as_ref|deref|from|borrow|to_owned|into|as_os_str)$", nm):
                    continue
                rows.append(["path " + "::".join(nm.split("::")[-2:]), sorted(guards.guard_set(b, S, ev[6]))])
        rows.sort(key=lambda r: (r[0], r[1]))
        out[fid] = rows
    return out


def r16_fileid(chk, rule="R16-fileid"):
    prog = mir.prog()
    b = prog.bodies.get("tokenizer::tokenize")
    n = 0
    if b is None:
        chk.add(Finding(rule, rule + "::anchor", "tokenizer::tokenize not found"))
    else:
        obs, fz = panics.obligations_of(b, prog)
        adv = [o for o in obs if o.kind == "Overflow:Add" and re.search(r"Add len\(.*filenames\)", o.desc)]
        n = 1
        if not adv:
            others = sorted({o.desc for o in obs if o.kind == "Overflow:Add"})
            chk.add(Finding(rule, rule + "::advance", "after tokenizing an included file the next file id is not advanced by the number of files that call returned (additions found: %s): a later /include reuses the id of a nested include and its tokens are read against the wrong file's text" % others, b.where()))
        S = sym.Analyzer(prog, opaque=[r"tokenizer::.*", r"loader::.*"]).summary(b.id)
        apps = [e for e in S.events if e[0] == "call" and e[3] == b.id and e[1].endswith("Vec::append")]
        names = {guards.fmt_terms(e[2][1]) for e in apps if len(e[2]) > 1}
        for want in ("filenames", "filedata", "tokens"):
            n += 1
            if not any(want in x for x in names):
                chk.add(Finding(rule, rule + "::append::" + want, "tokenize() does not append the nested result's %s to its own" % want, b.where()))
        # Vec::append empties its argument: the count of nested files must be read before the nested names are moved out
        for o in adv:
            for e in apps:
                if len(e[2]) > 1 and "filenames" in guards.fmt_terms(e[2][1]):
                    n += 1
                    if not b.dominates(o.bb, e[6]) or o.bb == e[6]:
                        chk.add(Finding(rule, rule + "::advance-after-append", "tokenize() reads the number of nested file names after Vec::append moved them out (append leaves its argument empty): the next file id does not advance, sibling /include files share one id and line offsets are computed across different files", b.where(o.line)))
    chk.rule(rule, "file-id bookkeeping of nested includes (id advance read before the names are moved, names/data/tokens appended)", n, floor=5)



def run(chk):
    genrules.r16_merge(chk)
    genrules.r01_dual(chk, rule="R16-dual-aux", inc_rule="R16-writer")
    chk.findings = [f for f in chk.findings if f.rule in ("R16-merge", "R16-writer")]
    chk.rules = [r for r in chk.rules if r["rule"] in ("R16-merge", "R16-writer")]
    genrules.expansion_diffs(chk, "R16-shipped", lambda k: "merge_includes" in k,
                             "generated A2lObject impls (merge_includes/reset_location) identical (canonical form) to the generator's output")
    from . import writertab
    writertab.compare(chk, "R16-group", fn_filter=lambda fn: fn.split("::")[-1] in ("add_group",), floor=15)
    prog = mir.prog()
    # ------------------------------------------------------------------ R16-ifdata
    adt = prog.adts.get(GID)
    n = 0
    if adt is None:
        chk.add(Finding("R16-ifdata", "R16-ifdata::anchor", "a2ml::GenericIfData not found"))
    else:
        containers = [v["name"] for v in adt["variants"] if any("GenericIfData" in f["ty"] for f in v["fields"])]
        with_inc = [v["name"] for v in adt["variants"] if any(f["name"] == "incfile" or (f["ty"].startswith("std::option::Option<std::string::String>")) for f in v["fields"])]
        A = sym.Analyzer(prog, opaque=[r"a2ml::.*"])
        b = prog.bodies.get("a2ml::GenericIfData::merge_includes")
        if b is None:
            chk.add(Finding("R16-ifdata", "R16-ifdata::anchor2", "GenericIfData::merge_includes not found"))
        else:
            S = A.summary(b.id)
            rec = set()
            for ev in S.events:
                if ev[0] == "call" and ev[3] == b.id and ev[1].endswith("GenericIfData::merge_includes"):
                    for g in guards.guard_set(b, S, ev[6]):
                        m = re.fullmatch(r"discr\(arg1\) == (.*)", g)
                        if m:
                            rec.update(m.group(1).split("|"))
            # the descent and the reset are unconditional: they depend only on the variant and on the iteration over the items
            for ev in S.events:
                blk = ev[6] if ev[0] == "call" else (ev[5] if ev[0] == "write" else None)
                if blk is None or ev[3] != b.id or (ev[0] == "call" and not ev[1].endswith("GenericIfData::merge_includes")):
                    continue
                if ev[0] == "write" and not re.search(r"incfile|\.0$", sym.fmt(ev[1])):
                    continue
                extra = [g for g in guards.guard_set(b, S, blk) if not re.fullmatch(r"discr\(arg1\) == \w+(\|\w+)*", g) and not re.fullmatch(r"discr\(arg1(\.(\d+|items))*(\|arg1(\.(\d+|items))*)*\) == Some", g)]
                n += 1
                if extra:
                    chk.add(Finding("R16-ifdata", "R16-ifdata::conditional::" + ("recurse" if ev[0] == "call" else "clear"), "GenericIfData::merge_includes %s only under the additional condition %s: items below an element that was not itself included (or already cleared) keep their /include origin" % ("descends into nested items" if ev[0] == "call" else "clears the include origin", extra), b.where(ev[4])))
            cleared = set()
            for ev in S.events:
                if ev[0] == "write" and ev[3] == b.id:
                    r, fields = sym.path_of(ev[1])
                    if fields and re.search(r"GenericIfData::(\w+)\.(incfile|0)$", fields[-1]) and not ev[2]:
                        cleared.add(re.search(r"GenericIfData::(\w+)\.", fields[-1]).group(1))
            for v in containers:
                n += 1
                if v not in rec:
                    chk.add(Finding("R16-ifdata", "R16-ifdata::recurse::" + v, "GenericIfData::merge_includes does not descend into %s values: tagged items below them keep their include origin, and after merge_includes() the file is written with /include directives in the middle of the IF_DATA instead of the data" % v, b.where()))
            for v in with_inc:
                n += 1
                if v not in cleared:
                    chk.add(Finding("R16-ifdata", "R16-ifdata::clear::" + v, "GenericIfData::merge_includes does not clear the incfile of %s values" % v, b.where()))
            # sibling: write_item / write recurse into the same containers
            wrec = set()
            for wid in ("a2ml::GenericIfData::write_item", "a2ml::GenericIfData::write"):
                wb = prog.bodies.get(wid)
                if wb is None:
                    continue
                Sw = A.summary(wid)
                for ev in Sw.events:
                    if ev[0] == "call" and ev[3] == wid and re.search(r"GenericIfData::(write_item|write)$", ev[1]):
                        for g in guards.guard_set(wb, Sw, ev[6]):
                            m = re.fullmatch(r"discr\(arg\d\) == (.*)", g)
                            if m:
                                wrec.update(x for x in m.group(1).split("|") if x in containers)
            for v in sorted(wrec - rec):
                chk.add(Finding("R16-ifdata", "R16-ifdata::sibling::" + v, "the writer walks into %s values but merge_includes does not" % v, b.where()))
    chk.rule("R16-ifdata", "GenericIfData variants that contain further items / carry an include origin handled by merge_includes", n, floor=8)

    r16_fileid(chk)

    # ------------------------------------------------------------------ R16-err
    diag.compare(chk, "R16-err", "tokenizer", tokenizer_table(prog), "include handling in tokenize()/tokenize_include(): error constructions and nested calls with their control predicates, compared with the reviewed table", floor=8)
    chk.assumptions += ["not decided: model equality with the flattened text; path resolution on disk"]
