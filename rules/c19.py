"""C19 a2ml_specification! typed access (structural clauses; DESIGN.md section 3, C19)"""
from . import mir, panics, scopes, plumbing


def run(chk):
    prog = mir.prog()
    panics.run_scope(chk, "R19-total", prog, scopes.ifdata_access_scope(prog), what="panic obligations in the GenericIfData::get_* accessors (structural mismatch must yield Err, not a panic)", floor=4)
    plumbing.r19_sibling(chk)
    plumbing.r05_plumb(chk, rule="R19-plumb", files=("a2lfile/src/a2ml.rs",))
    chk.assumptions += ["not decided: value round trip through store/load"]
