"""C19 a2ml_specification! typed access (structural clauses; DESIGN.md section 3, C19)

R19-total    no panic obligation in the GenericIfData::get_* accessors (a shape mismatch yields Err)
R19-sibling  get_single_optitem / get_multiple_optitems hand (data, uid, start_offset, end_offset) to the generated parsers
R19-plumb    layout fields of the IF_DATA writer are fed from their own sources
R19-text     for the reference invocations (oracle/a2ml_invocations, together every A2ML construct), the plain-A2ML constant
             produced by the in-tree generator, read by an independent A2ML reader, has the same structure as the macro input
R19-typed    for the same invocations the generated typed code (struct fields, parse(), store()) agrees member by member
             with the macro input and with the library's accessors (see a2mltyped.py)
"""
from . import mir, panics, scopes, plumbing, common, a2mlread, a2mltyped
from .common import Finding


def r19_text(chk):
    facts = common.a2ml_text_facts()
    n = 0
    constructs = set()
    for fn, d in sorted(facts.items()):
        where = "verif:oracle/a2ml_invocations/" + fn
        if "error" in d:
            chk.add(Finding("R19-text", "R19-text::generator-failed::" + fn, "the in-tree generator fails on the reference invocation %s: %s" % (fn, d["error"][-400:]), where))
            continue
        for k, s in enumerate(d["specs"]):
            key = "%s#%d" % (fn, k)
            try:
                a = a2mlread.structure_of_tree(s["input"])
            except a2mlread.A2mlError as e:
                raise common.EngineFailure("reference invocation %s is not readable: %s" % (key, e))
            constructs |= a2mlread.constructs(a)
            texts = [(nm, v) for nm, v in s["consts"].items() if nm.endswith("_TEXT")]
            if len(texts) != 1:
                chk.add(Finding("R19-text", "R19-text::no-constant::" + key, "the expansion of %s has %d *_TEXT constants (expected one A2ML text constant)" % (key, len(texts)), "a2lmacros/src/a2mlspec.rs"))
                continue
            nm, text = texts[0]
            try:
                b = a2mlread.structure_of_text(text)
            except a2mlread.A2mlError as e:
                chk.add(Finding("R19-text", "R19-text::unreadable::" + key, "%s generated for %s is not well-formed A2ML: %s" % (nm, key, e), "a2lmacros/src/a2mlspec.rs"))
                continue
            n += a2mlread.count_nodes(a)
            df = a2mlread.diff(a, b)
            if df:
                chk.add(Finding("R19-text", "R19-text::differs::" + key + "::" + df.split(":")[0], "%s generated for %s does not describe the structure of the macro input: %s (input vs text)" % (nm, key, df), "a2lmacros/src/a2mlspec.rs"))
    missing = a2mlread.ALL_CONSTRUCTS - constructs
    if missing:
        raise common.EngineFailure("reference invocations do not use the A2ML constructs %s" % sorted(missing))
    chk.rule("R19-text", "A2ML nodes (types, members, tagged items, enumerators) of the reference invocations compared between macro input and generated text constant", n, floor=90)


def thorough(chk):
    """R19-typecheck (thorough tier): the expansion of the reference invocations by the in-tree generator type-checks against
    /repo's a2lfile (cargo check of a scratch crate that replaces the registry a2lmacros by the in-tree one; nothing is run)."""
    import os, shutil, subprocess, tempfile
    inv = os.path.join(common.VERIF, "oracle", "a2ml_invocations")
    base = tempfile.mkdtemp(prefix="verif-c19-")
    n = 0
    try:
        os.makedirs(os.path.join(base, "src"))
        with open(os.path.join(base, "Cargo.toml"), "w") as fh:
            fh.write('[package]\nname = "c19witness"\nversion = "0.0.0"\nedition = "2021"\n[dependencies]\na2lfile = { path = "%s/a2lfile" }\n[patch.crates-io]\na2lmacros = { path = "%s/a2lmacros" }\n[workspace]\n' % (common.REPO, common.REPO))
        shutil.copy(os.path.join(common.REPO, "Cargo.lock"), os.path.join(base, "Cargo.lock"))
        mods = []
        for fn in sorted(os.listdir(inv)):
            src = open(os.path.join(inv, fn)).read()
            if not fn.endswith(".rs") or "verif: no-typecheck" in src:
                continue
            n += 1
            mods.append("#[allow(dead_code, unused_imports)]\nmod m_%s {\n    use a2lfile::*;\n%s\n}\n" % (fn[:-3], src))
        with open(os.path.join(base, "src", "lib.rs"), "w") as fh:
            fh.write("\n".join(mods))
        env = dict(os.environ, CARGO_TARGET_DIR=os.path.join(base, "target"), CARGO_NET_OFFLINE="true")
        # drop the registry a2lmacros from the copied lock file: cargo then resolves the dependency to the [patch] (in-tree) crate
        lock = open(os.path.join(base, "Cargo.lock")).read()
        blocks = lock.split("\n[[package]]\n")
        blocks = [b for b in blocks if not b.startswith('name = "a2lmacros"')]
        with open(os.path.join(base, "Cargo.lock"), "w") as fh:
            fh.write("\n[[package]]\n".join(blocks))
        t = subprocess.run(["cargo", "tree", "--offline", "-i", "a2lmacros"], cwd=base, env=env, stdout=subprocess.PIPE, stderr=subprocess.STDOUT, text=True)
        if "/a2lmacros)" not in t.stdout:
            raise common.EngineFailure("witness crate does not link the in-tree a2lmacros: " + t.stdout[-300:])
        r = subprocess.run(["cargo", "check", "--offline", "--message-format=short"], cwd=base, env=env, stdout=subprocess.PIPE, stderr=subprocess.STDOUT, text=True)
        if r.returncode != 0:
            errs = [l for l in r.stdout.splitlines() if "error" in l][:6]
            if any("could not compile `a2lfile`" in l or "could not compile `a2lmacros`" in l for l in r.stdout.splitlines()):
                raise common.EngineFailure("the tree does not build: " + " | ".join(errs))
            chk.add(Finding("R19-typecheck", "R19-typecheck::reference-invocations", "the code generated by the in-tree generator for the reference invocations does not type-check against a2lfile: " + " | ".join(errs), "a2lmacros/src/codegenerator"))
    finally:
        shutil.rmtree(base, ignore_errors=True)
    chk.rule("R19-typecheck", "reference invocations whose expansion by the in-tree generator type-checks against the library (cargo check of a scratch crate, nothing executed)", n, floor=2)


def r19_maxlen(chk):
    """a typed `char[N]` member holds strings of up to N bytes: what the typed side stores must be accepted again when the written
    file is loaded (length test of get_string_maxlen, rule R18-maxlen of C18)"""
    from . import c06, diag, mir
    prog = mir.prog()
    diag.compare(chk, "R19-maxlen", "parser", c06.parser_table(prog), "length test of char[n] strings (get_string_maxlen) with its control predicate, compared with the reviewed table", floor=1,
                 fn_filter=lambda fn: fn.endswith("::get_string_maxlen"))


def run(chk):
    prog = mir.prog()
    panics.run_scope(chk, "R19-total", prog, scopes.ifdata_access_scope(prog), what="panic obligations in the GenericIfData::get_* accessors (structural mismatch must yield Err, not a panic)", floor=4)
    plumbing.r19_sibling(chk)
    plumbing.r05_plumb(chk, rule="R19-plumb", files=("a2lfile/src/a2ml.rs",))
    r19_text(chk)
    r19_maxlen(chk)
    # typed decoding starts from the tree that the A2ML-driven parser built: its decisions (C18's R18-items table)
    from . import c18, diag
    diag.compare(chk, "R19-items", "ifdata", c18.items_table(prog), "decisions of the A2ML-driven IF_DATA parser (variant built, getter, cursor operations, comment skipping) with their control predicates, compared with the reviewed table", floor=60)
    a2mltyped.run(chk)
    chk.assumptions += ["not decided: value round trip through store/load for arbitrary values; R19-text / R19-typed decide the generator on the reference invocations only (the 'programs' quantifier of the property is that fixed set)"]
