"""Conditional constant propagation over MIR for small pure scalar code.

`Env` maps locals to known scalar constants (ints / bools); unknown otherwise.  `eval_fn` folds a call of a local pure function
whose arguments are all known (straight-line + switch, no loops, no memory); a few std predicates on u8/char are built in.
`explore` walks the CFG from a block with a partial environment, following only the feasible successor when a switch operand is
known and all successors otherwise."""
import re

_INT = re.compile(r"^(-?\d+)_(u8|u16|u32|u64|usize|i8|i16|i32|i64|isize|u128|i128)$")
_CHAR = re.compile(r"^'(.*)'$")


def const_of(op):
    if "k" not in op:
        return None
    k = op["k"]
    if k == "true":
        return True
    if k == "false":
        return False
    m = _INT.match(k)
    if m:
        return int(m.group(1))
    m = re.match(r"^b'(.*)'$", k)
    if m:
        return _unesc(m.group(1))
    m = _CHAR.match(k)
    if m and op.get("ty") == "char":
        return _unesc(m.group(1))
    return None


def _unesc(s):
    table = {"\\n": 10, "\\r": 13, "\\t": 9, "\\\\": 92, "\\'": 39, '\\"': 34, "\\0": 0}
    if s in table:
        return table[s]
    if len(s) == 1:
        return ord(s)
    m = re.match(r"^\\x([0-9a-fA-F]{2})$", s) or re.match(r"^\\u\{([0-9a-fA-F]+)\}$", s)
    if m:
        return int(m.group(1), 16)
    return None


def _ascii(pred):
    return lambda a: 0 <= a[0] < 128 and pred(chr(a[0]))


STD = {
    "is_ascii_whitespace": lambda a: a[0] in (9, 10, 12, 13, 32),
    "is_ascii_alphanumeric": _ascii(lambda c: c.isalnum()),
    "is_ascii_alphabetic": _ascii(lambda c: c.isalpha()),
    "is_ascii_digit": _ascii(lambda c: c.isdigit()),
    "is_ascii_hexdigit": _ascii(lambda c: c in "0123456789abcdefABCDEF"),
    "is_ascii_punctuation": _ascii(lambda c: c in "!\"#$%&'()*+,-./:;<=>?@[\\]^_`{|}~"),
    "is_ascii_uppercase": _ascii(lambda c: c.isupper()),
    "is_ascii_lowercase": _ascii(lambda c: c.islower()),
    "is_ascii_control": lambda a: a[0] < 32 or a[0] == 127,
    "is_ascii_graphic": lambda a: 33 <= a[0] <= 126,
    "is_ascii": lambda a: 0 <= a[0] < 128,
}

BIN = {
    "Eq": lambda a, b: a == b, "Ne": lambda a, b: a != b, "Lt": lambda a, b: a < b, "Le": lambda a, b: a <= b,
    "Gt": lambda a, b: a > b, "Ge": lambda a, b: a >= b,
    "BitAnd": lambda a, b: (a and b) if isinstance(a, bool) else a & b, "BitOr": lambda a, b: (a or b) if isinstance(a, bool) else a | b,
    "BitXor": lambda a, b: (a != b) if isinstance(a, bool) else a ^ b,
}


def op_val(env, op):
    c = const_of(op)
    if c is not None:
        return c
    pl = op.get("c") or op.get("m")
    if pl is not None and not pl["p"]:
        return env.get(pl["l"])
    if pl is not None and len(pl["p"]) == 1 and pl["p"][0] == "*":      # *self for &u8 receivers
        return env.get(("deref", pl["l"]), env.get(pl["l"]))
    return None


def step_stmt(env, s):
    if s["k"] != "assign":
        return
    dst = s["p"]
    if dst["p"]:
        return
    rv = s["rv"]
    val = None
    if rv["r"] == "use":
        val = op_val(env, rv["a"])
    elif rv["r"] == "ref":
        pl = rv["p"]
        if not pl["p"]:
            val = env.get(pl["l"])          # a reference to a known scalar: remember the scalar (only read through)
    elif rv["r"] == "bin" and rv["op"] in BIN:
        a, b = op_val(env, rv["a"]), op_val(env, rv["b"])
        if a is not None and b is not None:
            val = BIN[rv["op"]](a, b)
    elif rv["r"] == "un" and rv["op"] == "Not":
        a = op_val(env, rv["a"])
        if isinstance(a, bool):
            val = not a
    elif rv["r"] == "cast":
        val = op_val(env, rv["a"])
    if val is None:
        env.pop(dst["l"], None)
    else:
        env[dst["l"]] = val


def call_val(prog, env, t, depth=0):
    name = (t.get("res") or t.get("fn") or "").lstrip("?")
    args = [op_val(env, a) for a in t["args"]]
    if any(a is None for a in args):
        return None
    last = re.sub(r"<.*>", "", name).split("::")[-1]
    if last in STD and ("core::num" in name or "core::char" in name or "u8" in name or "char" in name):
        return bool(STD[last](args))
    if name in prog.bodies and depth < 6:
        return eval_fn(prog, prog.bodies[name], args, depth + 1)
    return None


def eval_fn(prog, b, args, depth=0):
    """value returned by the pure scalar function b for constant args, or None when it cannot be folded"""
    env = {i + 1: a for i, a in enumerate(args)}
    bi = 0
    for _ in range(400):
        blk = b.blocks[bi]
        for s in blk["s"]:
            if s["k"] == "assign" and s["p"]["p"]:
                return None
            step_stmt(env, s)
        t = blk["t"]
        if t["k"] == "return":
            return env.get(0)
        if t["k"] == "goto":
            bi = t["t"]
        elif t["k"] == "switch":
            v = op_val(env, t["d"])
            if v is None:
                return None
            bi = next((tb for tv, tb in t["ts"] if int(tv) == int(v)), t["o"])
        elif t["k"] == "call":
            v = call_val(prog, env, t, depth)
            if v is None or t["dest"]["p"] or t.get("t") is None:
                return None
            env[t["dest"]["l"]] = v
            bi = t["t"]
        else:
            return None
    return None


def explore(prog, b, start, env, inside, head, limit=4000):
    """all control paths from block `start` with environment `env` that stay `inside`; returns (exits, spins): blocks outside
    `inside` that are reached, and True if some path comes back to `head`"""
    exits, spin_paths = set(), []
    st = [(start, dict(env), (start,))]
    seen = 0
    while st and seen < limit:
        bi, e, path = st.pop()
        seen += 1
        blk = b.blocks[bi]
        for s in blk["s"]:
            step_stmt(e, s)
        t = blk["t"]
        nxt = []
        if t["k"] == "goto":
            nxt = [t["t"]]
        elif t["k"] == "switch":
            v = op_val(e, t["d"])
            if v is None:
                nxt = sorted({tb for _, tb in t["ts"]} | {t["o"]})
            else:
                nxt = [next((tb for tv, tb in t["ts"] if int(tv) == int(v)), t["o"])]
        elif t["k"] == "call":
            v = call_val(prog, e, t)
            if not t["dest"]["p"]:
                if v is None:
                    e.pop(t["dest"]["l"], None)
                else:
                    e[t["dest"]["l"]] = v
            if t.get("t") is not None:
                nxt = [t["t"]]
        elif t["k"] in ("assert", "drop"):
            if t.get("t") is not None:
                nxt = [t["t"]]
        elif t["k"] == "return":
            exits.add(bi)
            continue
        for n in nxt:
            if b.blocks[n].get("cleanup"):
                continue
            if n == head:
                spin_paths.append(path + (n,))
            elif n not in inside:
                exits.add(n)
            elif path.count(n) < 2:
                st.append((n, dict(e), path + (n,)))
    return exits, spin_paths


def sentinel_sites(b):
    """(loop head, loop blocks, switch block, constant block, local, constant): a comparison inside a loop, neither of whose
    edges leaves the loop, where one edge only assigns a constant to a local that the other edge loads from memory"""
    out = []
    for head, blocks in b.natural_loops().items():
        for bi in sorted(blocks):
            t = b.blocks[bi]["t"]
            if t["k"] != "switch" or t.get("dty") != "bool":
                continue
            succs = sorted({tb for _, tb in t["ts"]} | {t["o"]})
            if len(succs) != 2 or not all(x in blocks for x in succs):
                continue
            for cb in succs:
                blk = b.blocks[cb]
                if blk["t"]["k"] != "goto" or len(blk["s"]) != 1:
                    continue
                s = blk["s"][0]
                if s["k"] == "assign" and not s["p"]["p"] and s["rv"]["r"] == "use" and const_of(s["rv"]["a"]) is not None and b.locals[s["p"]["l"]]["ty"] in ("u8", "char"):
                    other = [x for x in succs if x != cb][0]
                    # the other edge must define the same local from a non-constant (an indexed read) before the join
                    join = blk["t"]["t"]
                    seen, st, defs = set(), [other], False
                    while st:
                        x = st.pop()
                        if x in seen or x == join or x not in blocks:
                            continue
                        seen.add(x)
                        for s2 in b.blocks[x]["s"]:
                            if s2["k"] == "assign" and not s2["p"]["p"] and s2["p"]["l"] == s["p"]["l"] and const_of(s2["rv"].get("a", {})) is None:
                                defs = True
                        tt = b.blocks[x]["t"]
                        st.extend([tt["t"]] if tt.get("t") is not None and tt["k"] != "switch" else (sorted({tb for _, tb in tt["ts"]} | {tt["o"]}) if tt["k"] == "switch" else []))
                    if defs:
                        out.append((head, blocks, bi, cb, s["p"]["l"], const_of(s["rv"]["a"])))
    return out


def sentinel_spins(prog, b, head, blocks, cb, rounds=6):
    """does the loop, once the constant is substituted, always leave?  returns a list of block paths that come back to the head
    with an environment already seen (the loop would run forever at that point)"""
    bad = []
    seen_envs = set()
    work = [({}, ())]
    for _ in range(rounds):
        nxt = []
        for env, prefix in work:
            exits, spins = explore_env(prog, b, cb, env, blocks, head)
            for path, e in spins:
                key = tuple(sorted((k, v) for k, v in e.items() if isinstance(k, int)))
                if key in seen_envs:
                    bad.append(prefix + path)
                else:
                    seen_envs.add(key)
                    nxt.append((e, prefix + path))
        work = nxt
        if not work or bad:
            break
    if work and not bad:
        bad = [w[1] for w in work]
    return bad


def explore_env(prog, b, start, env, inside, head, limit=6000):
    """like explore(), but returns the environments of the paths that come back to `head` and learns `x == c` from switches"""
    exits, spins = set(), []
    st = [(start, dict(env), (start,))]
    n = 0
    while st and n < limit:
        bi, e, path = st.pop()
        n += 1
        blk = b.blocks[bi]
        eqdef = {}
        for s in blk["s"]:
            step_stmt(e, s)
            if s["k"] == "assign" and not s["p"]["p"] and s["rv"]["r"] == "bin" and s["rv"]["op"] in ("Eq", "Ne"):
                a, c = s["rv"]["a"], const_of(s["rv"]["b"])
                pl = a.get("c") or a.get("m")
                if pl is not None and not pl["p"] and c is not None:
                    eqdef[s["p"]["l"]] = (pl["l"], c, s["rv"]["op"] == "Eq")
        # copies: `tmp = copy x; flag = Eq(tmp, c)`: resolve tmp to x when tmp was assigned from x in this block
        copies = {}
        for s in blk["s"]:
            if s["k"] == "assign" and not s["p"]["p"] and s["rv"]["r"] == "use":
                pl = s["rv"]["a"].get("c") or s["rv"]["a"].get("m")
                if pl is not None and not pl["p"]:
                    copies[s["p"]["l"]] = pl["l"]
        t = blk["t"]
        branches = []
        if t["k"] == "goto":
            branches = [(t["t"], None)]
        elif t["k"] == "switch":
            v = op_val(e, t["d"])
            d = t["d"].get("c") or t["d"].get("m")
            if v is None:
                for n2 in sorted({tb for _, tb in t["ts"]} | {t["o"]}):
                    learn = None
                    if d is not None and not d["p"] and d["l"] in eqdef:
                        src, c, is_eq = eqdef[d["l"]]
                        truth = not any(tb == n2 and int(tv) == 0 for tv, tb in t["ts"]) if n2 != t["o"] or True else None
                        is_false_edge = any(tb == n2 and int(tv) == 0 for tv, tb in t["ts"])
                        if (is_eq and not is_false_edge) or (not is_eq and is_false_edge):
                            learn = (copies.get(src, src), c)
                    branches.append((n2, learn))
            else:
                branches = [(next((tb for tv, tb in t["ts"] if int(tv) == int(v)), t["o"]), None)]
        elif t["k"] == "call":
            v = call_val(prog, e, t)
            if not t["dest"]["p"]:
                if v is None:
                    e.pop(t["dest"]["l"], None)
                else:
                    e[t["dest"]["l"]] = v
            if t.get("t") is not None:
                branches = [(t["t"], None)]
        elif t["k"] in ("assert", "drop"):
            if t.get("t") is not None:
                branches = [(t["t"], None)]
        elif t["k"] == "return":
            exits.add(bi)
            continue
        for n2, learn in branches:
            if b.blocks[n2].get("cleanup"):
                continue
            e2 = dict(e)
            if learn is not None:
                e2[learn[0]] = learn[1]
            if n2 == head:
                spins.append((path + (n2,), e2))
            elif n2 not in inside:
                exits.add(n2)
            elif path.count(n2) < 2:
                st.append((n2, e2, path + (n2,)))
    return exits, spins
