"""reference-site table helpers (oracle/refsites.json) and conversion between table paths and sym terms"""
import json
import os
from . import common, sym, dsl

_tab = None


def table():
    global _tab
    if _tab is None:
        with open(os.path.join(common.VERIF, "oracle", "refsites.json")) as fh:
            _tab = json.load(fh)
    return _tab


def term_path(t):
    """(root term, 'Module.a/A.b/..') for a field-chain term"""
    root, fields = sym.path_of(t)
    return root, "/".join(fields)


def sites(namespaces=None):
    """list of (field key, path string, info) for all reference sites (optionally of the given target namespaces)"""
    T = table()
    out = []
    for k, info in T["fields"].items():
        if info["role"] != "ref":
            continue
        if namespaces is not None and info["ns"] not in namespaces:
            continue
        for p in T["paths"].get(k, []):
            out.append((k, p, info))
    return out


def ns_of_list_path(path):
    """namespace whose member list is `path` (e.g. 'Module.unit' -> 'unit')"""
    for ns, lists in table()["namespaces"].items():
        if path in lists:
            return ns
    return None


def check_table_current(chk, rule):
    """every ident field of the current DSL must be classified in the table (fail closed)"""
    try:
        g = dsl.current_grammar()
    except dsl.DslError:
        return
    T = table()
    n = 0
    for e in g["elements"]:
        for p in e["params"]:
            keys = []
            if p["kind"] == "single" and p["type"] == "ident":
                keys.append(e["type"] + "." + p["name"])
            if p["kind"] == "seq":
                ids = [i for i in p["items"] if i["type"] == "ident"]
                if len(p["items"]) == 1 and ids:
                    keys.append(e["type"] + "." + p["name"])
                else:
                    keys += [e["type"] + "." + p["name"] + "." + i["name"] for i in ids]
            for k in keys:
                n += 1
                if k not in T["fields"]:
                    chk.add(common.Finding(rule, "%s::unclassified::%s" % (rule, k), "the grammar has an identifier field %s that oracle/refsites.json does not classify (reference or not?)" % k, "a2lfile/src/specification_orig.rs"))
    return n
