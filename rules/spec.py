"""Semantic skeletons of the generated code in a2lfile/src/specification.rs (from the syn AST).

For every element type X:  struct fields, parse skeleton (ordered token reads with their location capture,
tagged-item arms, TAG_LIST, default arm, required items, block end), stringify skeleton (ordered token writes
with value field and location slot, tagged pushes), PartialEq field set, merge_includes child set, new() defaults.
Statements that touch `parser`/`writer` and match no production are listed under 'unrecognised' (fail closed)."""
from . import astq
from .astq import walk, field_chain, lit_str, strip_ref

SPEC = "a2lfile/src/specification.rs"

READERS = {"get_identifier": "ident", "get_string": "string", "get_double": "f64", "get_float": "f32"}
WRITERS = {"add_str", "add_quoted_string", "add_integer", "add_float", "add_str_raw"}


def render(e):
    """compact, stable rendering of an expression (for comparison keys and messages)"""
    if e is None:
        return "None"
    if isinstance(e, list):
        return "{" + "; ".join(render_stmt(s) for s in e) + "}"
    t = e.get("t")
    if t == "Path":
        g = ("::<" + ",".join(e["generics"]) + ">") if e.get("generics") else ""
        return e["path"] + g
    if t == "Lit":
        if e["kind"] == "str":
            return '"%s"' % e["v"]
        if e["kind"] in ("int", "float"):
            return str(e["v"]) + e.get("suffix", "")
        return str(e["v"]).lower() if e["kind"] == "bool" else repr(e["v"])
    if t == "Field":
        return render(e["base"]) + "." + e["name"]
    if t == "MethodCall":
        tf = ("::<" + ",".join(e["turbofish"]) + ">") if e["turbofish"] else ""
        return "%s.%s%s(%s)" % (render(e["recv"]), e["method"], tf, ", ".join(render(a) for a in e["args"]))
    if t == "Call":
        return "%s(%s)" % (render(e["f"]), ", ".join(render(a) for a in e["args"]))
    if t == "Ref":
        return ("&mut " if e["mut"] else "&") + render(e["e"])
    if t == "Unary":
        return e["op"] + render(e["e"])
    if t == "Binary":
        return "(%s %s %s)" % (render(e["l"]), e["op"], render(e["r"]))
    if t == "Try":
        return render(e["e"]) + "?"
    if t == "Tuple":
        return "(" + ", ".join(render(x) for x in e["elems"]) + ")"
    if t == "Array":
        return "[" + ", ".join(render(x) for x in e["elems"]) + "]"
    if t == "Index":
        return "%s[%s]" % (render(e["base"]), render(e["idx"]))
    if t == "Struct":
        return "%s{%s}" % (e["path"], ", ".join("%s: %s" % (f["name"], render(f["e"])) for f in e["fields"]))
    if t == "Cast":
        return "(%s as %s)" % (render(e["e"]), e["ty"])
    if t == "Block":
        return render(e["stmts"])
    if t == "If":
        return "if %s %s else %s" % (render(e["cond"]), render(e["then"]), render(e["else"]))
    if t == "LetCond":
        return "let %s = %s" % (render_pat(e["pat"]), render(e["e"]))
    if t == "Macro":
        return e["path"] + "!(" + e["src"] + ")"
    if t == "Range":
        return "%s..%s%s" % (render(e["start"]) if e["start"] else "", "=" if e["closed"] else "", render(e["end"]) if e["end"] else "")
    if t == "Return":
        return "return " + render(e["e"])
    if t == "Break":
        return "break"
    if t == "Assign":
        return "%s = %s" % (render(e["l"]), render(e["r"]))
    if t == "Closure":
        return "|%s| %s" % (", ".join(render_pat(p) for p in e["params"]), render(e["body"]))
    if t == "Match":
        return "match %s {%s}" % (render(e["e"]), ", ".join("%s => %s" % (render_pat(a["pat"]), render(a["body"])) for a in e["arms"]))
    if t in ("For", "While", "Loop"):
        return t.lower() + "{..}"
    return t or "?"


def render_pat(p):
    t = p.get("t")
    if t == "PIdent":
        return p["name"]
    if t == "PTuple":
        return "(" + ", ".join(render_pat(x) for x in p["elems"]) + ")"
    if t == "PTupleStruct":
        return p["path"] + "(" + ", ".join(render_pat(x) for x in p["elems"]) + ")"
    if t == "PLit":
        return render(p["lit"])
    if t == "PWild":
        return "_"
    if t == "PPath":
        return p["path"]
    if t == "PRef":
        return "&" + render_pat(p["pat"])
    if t == "PType":
        return render_pat(p["pat"])
    if t == "PStruct":
        return p["path"] + "{" + ", ".join(f["name"] for f in p["fields"]) + "}"
    return t or "?"


def render_stmt(s):
    t = s.get("t")
    if t == "Let":
        return "let %s = %s" % (render_pat(s["pat"]), render(s["init"]))
    if t == "ExprStmt":
        return render(s["e"])
    return t


def is_parser_call(x, method=None):
    return x.get("t") == "MethodCall" and astq.is_path(x["recv"], "parser") and (method is None or x["method"] == method)


def reader_of(x):
    """reader descriptor if x is a token-consuming value read, else None"""
    if is_parser_call(x):
        m = x["method"]
        if m in READERS:
            return READERS[m]
        if m == "get_integer":
            return x["turbofish"][0] if x["turbofish"] else "int?"
    if x.get("t") == "Call" and x["f"].get("t") == "Path" and x["f"]["path"].endswith("::parse") and len(x["args"]) == 3 \
            and astq.is_path(x["args"][0], "parser") and astq.is_path(strip_ref(x["args"][1]), "context"):
        return "enum:" + x["f"]["path"][:-len("::parse")]
    return None


def reads_in(node):
    """ordered list of (reader, captured) in a subtree: captured=True if the next parser call after the read is get_line_offset()"""
    seq = []
    for x in walk(node):
        r = reader_of(x)
        if r is not None:
            seq.append(("read", r))
        elif is_parser_call(x, "get_line_offset"):
            seq.append(("loc", None))
        elif is_parser_call(x) and x["method"] not in ("get_tokenpos", "set_tokenpos"):
            seq.append(("other", x["method"]))
    out = []
    i = 0
    while i < len(seq):
        k, r = seq[i]
        if k == "read":
            cap = i + 1 < len(seq) and seq[i + 1][0] == "loc"
            out.append((r, cap))
            i += 2 if cap else 1
        else:
            out.append(("stray:" + (r or "get_line_offset"), False))
            i += 1
    return out


def parse_arm(body):
    """skeleton of one `"TAG" => { ... }` arm"""
    arm = {"require": None, "versions": [], "parse": None, "parse_ctx": None, "parse_off": None, "mult": None, "store": None, "other": []}
    stmts = body["stmts"] if body.get("t") == "Block" else [{"t": "ExprStmt", "e": body, "semi": False}]
    for s in stmts:
        e = s.get("e") if s["t"] == "ExprStmt" else s.get("init")
        core = e
        while isinstance(core, dict) and core.get("t") == "Try":
            core = core["e"]
        tried = core is not e
        if isinstance(core, dict) and is_parser_call(core):
            m = core["method"]
            args = [render(a) for a in core["args"]]
            if m in ("require_block", "require_keyword"):
                arm["require"] = {"kind": m[len("require_"):], "args": args, "tried": tried}
                continue
            if m in ("check_block_version_lower", "check_block_version_upper"):
                arm["versions"].append({"fn": m, "args": args, "tried": tried})
                continue
            if m == "handle_multiplicity_error":
                arm["mult"] = {"args": args, "tried": tried}
                continue
        if s["t"] == "Let" and isinstance(core, dict) and core.get("t") == "Call" and core["f"].get("t") == "Path" and core["f"]["path"].endswith("::parse"):
            arm["parse"] = core["f"]["path"][:-len("::parse")]
            arm["parse_args"] = [render(a) for a in core["args"]]
            arm["parse_bind"] = render_pat(s["pat"])
            arm["parse_tried"] = tried
            continue
        if isinstance(core, dict) and core.get("t") == "Assign":
            arm["store"] = {"kind": "option", "var": render(core["l"]), "value": render(core["r"])}
            continue
        if isinstance(core, dict) and core.get("t") == "MethodCall" and core["method"] == "push":
            arm["store"] = {"kind": "vec", "var": render(core["recv"]), "value": ", ".join(render(a) for a in core["args"])}
            continue
        arm["other"].append(render_stmt(s))
    return arm


def parse_skeleton(fn):
    sk = {"prologue": {}, "params": [], "decls": {}, "arms": {}, "taglist": None, "default": None, "comment_arm": None,
          "required": [], "end": None, "end_tag_check": False, "result": None, "unrecognised": []}
    body = fn["body"]
    i = 0
    pending_seq = None
    while i < len(body):
        s = body[i]
        i += 1
        if s["t"] == "Let":
            pat = s["pat"]
            init = s["init"]
            pr = render_pat(pat)
            if pat["t"] == "PIdent" and pr in ("__location_incfile", "__location_line", "__uid"):
                sk["prologue"][pr] = render(init)
                continue
            if pr == "a2lcomment":
                sk["prologue"]["a2lcomment"] = render(init)
                continue
            if pr == "__dummy":
                continue
            if pr == "__end_offset":
                sk["end_offset"] = render(init)
                if init.get("t") == "Lit":
                    sk["end"] = sk["end"] or "keyword"
                continue
            if pr == "ident" and any(is_parser_call(x, "get_identifier") for x in walk(init)):
                sk["end_ident"] = render(init)
                continue
            if pat["t"] == "PTuple" and len(pat["elems"]) == 2 and render_pat(pat["elems"][0]).startswith("__") and render_pat(pat["elems"][0]).endswith("_location"):
                loc = render_pat(pat["elems"][0])
                name = render_pat(pat["elems"][1])
                rd = reads_in(init)
                tail = None
                if init.get("t") == "Block" and init["stmts"] and init["stmts"][-1]["t"] == "ExprStmt" and not init["stmts"][-1]["semi"]:
                    tail = render(init["stmts"][-1]["e"])
                sk["params"].append({"kind": "single", "name": name, "loc": loc, "reads": rd, "tail": tail})
                continue
            ty = pat["ty"] if pat["t"] == "PType" else None
            if pat["t"] in ("PIdent", "PType") and isinstance(init, dict):
                name = pr
                ri = render(init)
                if ri in ("Vec::new()", "None", "ItemList::default()", "ItemList::new()") or (ty and (ty.startswith("Option") or ty.startswith("Vec") or ty.startswith("ItemList"))):
                    if name == "done" or ri in ("false", "true"):
                        continue
                    sk["decls"][name] = {"ty": ty, "init": ri}
                    continue
                if ri in ("false", "true"):
                    continue
                # required item: let X = if let Some(value) = __tmp_required_X { value } else { return Err(..NotPresent{tag}) }
                if init.get("t") == "If" and init["cond"].get("t") == "LetCond":
                    src = render(init["cond"]["e"])
                    tag = None
                    variant = None
                    for x in walk(init["else"]):
                        if x.get("t") == "Struct":
                            variant = x["path"]
                            for f in x["fields"]:
                                if f["name"] == "tag":
                                    for y in walk(f["e"]):
                                        if lit_str(y) is not None:
                                            tag = lit_str(y)
                    sk["required"].append({"name": name, "from": src, "tag": tag, "error": variant, "then": render(init["then"])})
                    continue
            sk["unrecognised"].append(render_stmt(s)[:200])
            continue
        e = s.get("e")
        if e is None:
            continue
        if e.get("t") == "While":
            rd = reads_in(e["body"])
            pushes = []
            for x in walk(e["body"]):
                if x.get("t") == "MethodCall" and x["method"] == "push":
                    pushes.append((render(x["recv"]), ", ".join(render(a) for a in x["args"])))
            rewind = any(is_parser_call(x, "set_tokenpos") for x in walk(e["body"]))
            checkpoint = any(is_parser_call(x, "get_tokenpos") for x in walk(e["body"]))
            sk["params"].append({"kind": "seq", "reads": rd, "pushes": pushes, "rewind": rewind and checkpoint, "cond": render(e["cond"])})
            continue
        if e.get("t") == "Loop":
            _tagloop(e, sk)
            continue
        core = e
        while core.get("t") == "Try":
            core = core["e"]
        if is_parser_call(core, "expect_token"):
            sk["end"] = "block"
            sk["end_expect"] = [render(a) for a in core["args"]]
            continue
        if core.get("t") == "If" and core["cond"].get("t") == "MethodCall" and core["cond"]["method"] == "is_empty" and "InvalidMultiplicityNotPresent" in render(core["then"]):
            tag = None
            for x in walk(core["then"]):
                if x.get("t") == "Struct":
                    for f in x["fields"]:
                        if f["name"] == "tag":
                            for y in walk(f["e"]):
                                if lit_str(y) is not None:
                                    tag = lit_str(y)
            chan = "error_or_log" if any(is_parser_call(x, "error_or_log") for x in walk(core["then"])) else "other"
            sk["required"].append({"name": render(core["cond"]["recv"]), "from": render(core["cond"]["recv"]), "tag": tag,
                                   "error": "ParserError::InvalidMultiplicityNotPresent", "then": "nonempty:" + chan})
            continue
        if core.get("t") == "If" and "context.element" in render(core["cond"]):
            sk["end_tag_check"] = True
            sk["end_tag_cond"] = render(core["cond"])
            sk["end_tag_then"] = render(core["then"])
            continue
        if core.get("t") == "Call" and astq.is_path(core["f"], "Ok") and core["args"] and core["args"][0].get("t") == "Struct":
            st = core["args"][0]
            res = {"path": st["path"], "fields": {}}
            for f in st["fields"]:
                if f["name"] == "__block_info" and f["e"].get("t") == "Struct":
                    bi = {}
                    for g in f["e"]["fields"]:
                        bi[g["name"]] = render(g["e"])
                        if g["name"] == "item_location":
                            res["item_location"] = [render(x) for x in g["e"]["elems"]] if g["e"].get("t") == "Tuple" else render(g["e"])
                    res["block_info"] = bi
                else:
                    res["fields"][f["name"]] = render(f["e"])
            sk["result"] = res
            continue
        sk["unrecognised"].append(render_stmt(s)[:200])
    return sk


def _tagloop(loop, sk):
    m = None
    for s in loop["body"]:
        if s["t"] == "Let" and any(is_parser_call(x, "get_next_tag_or_comment") for x in walk(s["init"])):
            sk["next_tag"] = render(s["init"])
        e = s.get("e")
        if isinstance(e, dict) and e.get("t") == "Match":
            m = e
    if m is None:
        sk["unrecognised"].append("loop without match on next_tag")
        return
    for arm in m["arms"]:
        p = arm["pat"]
        if p["t"] == "PTupleStruct" and p["path"] == "BlockContent::Block":
            sk["block_pat"] = render_pat(p)
            inner = None
            stmts = arm["body"]["stmts"] if arm["body"].get("t") == "Block" else []
            for s in stmts:
                if s["t"] == "ItemStmt" and s["item"].get("t") == "Const" and s["item"]["name"] == "TAG_LIST":
                    el = s["item"]["e"]
                    sk["taglist"] = [lit_str(x) for x in el["elems"]] if el.get("t") == "Array" else None
                    sk["taglist_ty"] = s["item"]["ty"]
                elif s["t"] == "Let":
                    sk.setdefault("tag_lets", {})[render_pat(s["pat"])] = render(s["init"])
                elif s["t"] == "ExprStmt" and s["e"].get("t") == "Match":
                    inner = s["e"]
                else:
                    sk["unrecognised"].append(render_stmt(s)[:200])
            if inner is None:
                sk["unrecognised"].append("Block arm without match on tag")
                continue
            sk["tag_scrutinee"] = render(inner["e"])
            for a in inner["arms"]:
                ap = a["pat"]
                if ap["t"] == "PLit":
                    tag = ap["lit"]["v"]
                    if tag in sk["arms"]:
                        sk["unrecognised"].append("duplicate arm for tag " + tag)
                    sk["arms"][tag] = parse_arm(a["body"])
                    if a.get("guard"):
                        sk["arms"][tag]["other"].append("guard " + render(a["guard"]))
                elif ap["t"] == "PWild":
                    r = render(a["body"])
                    if "handle_unknown_taggedstruct_tag" in r:
                        call = [x for x in walk(a["body"]) if is_parser_call(x, "handle_unknown_taggedstruct_tag")][0]
                        tried = any(x.get("t") == "Try" and x["e"] is call for x in walk(a["body"]))
                        sk["default"] = {"kind": "unknown", "args": [render(x) for x in call["args"]], "tried": tried, "breaks": "break" in r}
                    else:
                        undo = sum(1 for x in walk(a["body"]) if is_parser_call(x, "undo_get_token"))
                        sk["default"] = {"kind": "break", "undo": undo, "breaks": "break" in r, "src": r}
                else:
                    sk["unrecognised"].append("unexpected tag arm pattern " + render_pat(ap))
        elif p["t"] == "PTupleStruct" and p["path"] == "BlockContent::Comment":
            r = render(arm["body"])
            if "a2lcomment.push" in r:
                st = [x for x in walk(arm["body"]) if x.get("t") == "Struct" and x["path"] == "Comment"]
                sk["comment_arm"] = {"kind": "store", "pat": render_pat(p), "fields": {f["name"]: render(f["e"]) for f in st[0]["fields"]} if st else {}}
            else:
                sk["comment_arm"] = {"kind": "ignore", "src": r}
        elif p["t"] == "PWild":
            sk["other_arm"] = render(arm["body"])
        else:
            sk["unrecognised"].append("unexpected next_tag arm " + render_pat(p))


def is_writer_call(x):
    return x.get("t") == "MethodCall" and astq.is_path(x["recv"], "writer")


def stringify_skeleton(fn):
    sk = {"writes": [], "tags": [], "comments": False, "group": False, "finish": False, "unrecognised": [], "new": None}
    for s in fn["body"]:
        if s["t"] == "Let":
            pr = render_pat(s["pat"])
            ri = render(s["init"])
            if pr == "writer":
                sk["new"] = ri
                continue
            if pr == "tgroup":
                continue
            if pr.endswith("_out") and s["init"].get("t") == "If":
                sk["_pending_text"] = {"text_bind": pr, "text_cond": render(s["init"]["cond"]), "text_then": render(s["init"]["then"]),
                                       "text_else": render(s["init"]["else"])}
                continue
            sk["unrecognised"].append(render_stmt(s)[:200])
            continue
        e = s.get("e")
        if e is None:
            continue
        if is_writer_call(e):
            m = e["method"]
            if m in WRITERS:
                sk["writes"].append({"kind": "single", "method": m, "args": [render(a) for a in e["args"]]})
                continue
            if m == "add_group":
                sk["group"] = [render(a) for a in e["args"]]
                continue
            if m == "finish":
                sk["finish"] = True
                continue
        if e.get("t") == "MethodCall" and e["method"] == "push" and astq.is_path(e["recv"], "tgroup") and sk.get("_pending_text"):
            st = e["args"][0]
            info = {"form": "Direct", "src": None, "bind": None}
            if st.get("t") == "Struct":
                info["variant"] = st["path"]
                info["fields"] = {f["name"]: render(f["e"]) for f in st["fields"]}
            info.update(sk.pop("_pending_text"))
            sk["tags"].append(info)
            continue
        if e.get("t") == "Call" and e["f"].get("t") == "Path" and e["f"]["path"].endswith("add_comments_to_group"):
            sk["comments"] = [render(a) for a in e["args"]]
            continue
        if e.get("t") in ("For", "If"):
            # either a sequence/array of plain values or a tagged child
            pushes = [x for x in walk(e) if x.get("t") == "MethodCall" and x["method"] == "push" and astq.is_path(x["recv"], "tgroup")]
            wr = [x for x in walk(e) if is_writer_call(x) and x["method"] in WRITERS]
            if pushes and not wr:
                for pcall in pushes:
                    st = pcall["args"][0]
                    info = {"form": e["t"], "src": render(e["iter"]) if e["t"] == "For" else render(e["cond"]),
                            "bind": render_pat(e["pat"]) if e["t"] == "For" else None}
                    if st.get("t") == "Struct":
                        info["variant"] = st["path"]
                        info["fields"] = {f["name"]: render(f["e"]) for f in st["fields"]}
                    # the text: `let X_out = if X.__block_info.incfile.is_none() { X.stringify(indent + 1) } else { String::new() };`
                    for x in walk(e):
                        if x.get("t") == "Let" and x["init"] is not None and x["init"].get("t") == "If":
                            info["text_bind"] = render_pat(x["pat"])
                            info["text_cond"] = render(x["init"]["cond"])
                            info["text_then"] = render(x["init"]["then"])
                            info["text_else"] = render(x["init"]["else"])
                    sk["tags"].append(info)
                continue
            sub = [x for x in walk(e) if x.get("t") == "MethodCall" and x["method"] == "stringify" and any("writer" in render(a) for a in x["args"])]
            if sub and not pushes and not wr and e["t"] == "For":
                sk["writes"].append({"kind": "loop-struct", "pat": render_pat(e["pat"]), "iter": render(e["iter"]),
                                     "calls": [{"recv": render(x["recv"]), "args": [render(a) for a in x["args"]]} for x in sub]})
                continue
            if wr and not pushes and e["t"] == "For":
                sk["writes"].append({"kind": "loop", "pat": render_pat(e["pat"]), "iter": render(e["iter"]),
                                     "calls": [{"method": x["method"], "args": [render(a) for a in x["args"]]} for x in wr]})
                continue
        sk["unrecognised"].append(render_stmt(s)[:200])
    return sk


def eq_fields(fn):
    """fields compared by a generated PartialEq::eq:  self.f == other.f && ...  -> (list of fields, list of other terms)"""
    body = fn["body"]
    fields, other = [], []
    if len(body) != 1 or body[0]["t"] != "ExprStmt":
        return None, ["body is not a single expression"]

    def rec(e):
        if e.get("t") == "Binary" and e["op"] == "&&":
            rec(e["l"])
            rec(e["r"])
        elif e.get("t") == "Binary" and e["op"] == "==":
            l = field_chain(e["l"])
            r = field_chain(e["r"])
            if l and r and l[0] == "self" and r[0] == "other" and l[1] == r[1] and len(l[1]) >= 1:
                fields.append(".".join(l[1]))
            else:
                other.append(render(e))
        elif e.get("t") == "Lit" and e.get("kind") == "bool" and e["v"] is True:
            pass
        else:
            other.append(render(e))
    rec(body[0]["e"])
    return fields, other


def merge_children(fn):
    """for `fn merge_includes(&mut self)`: (own incfile reset?, set of child fields visited with .merge_includes(), unrecognised)"""
    own = False
    kids = []
    other = []
    for s in fn["body"]:
        e = s.get("e") if s["t"] == "ExprStmt" else None
        if e is None:
            other.append(render_stmt(s)[:160])
            continue
        if e.get("t") == "Assign" and render(e["l"]) == "self.__block_info.incfile" and render(e["r"]) == "None":
            own = True
            continue
        if e.get("t") == "MethodCall" and e["method"] == "merge_includes":
            fc = field_chain(e["recv"])
            if fc and fc[0] == "self" and len(fc[1]) == 1:
                kids.append((fc[1][0], True))
                continue
        if e.get("t") in ("For", "If"):
            src = e["iter"] if e["t"] == "For" else (e["cond"]["e"] if e["cond"].get("t") == "LetCond" else None)
            fc = field_chain(src) if src is not None else None
            calls = [x for x in walk(e["body"] if e["t"] == "For" else e["then"]) if x.get("t") == "MethodCall" and x["method"] == "merge_includes"]
            if fc and fc[0] == "self" and len(fc[1]) == 1 and calls:
                mut = src.get("t") == "Ref" and src.get("mut")
                kids.append((fc[1][0], bool(mut)))
                continue
        other.append(render_stmt(s)[:160])
    return own, kids, other


_elements = None


def elements():
    """dict type name -> facts"""
    global _elements
    if _elements is not None:
        return _elements
    out = {}
    st = astq.structs(SPEC)
    en = astq.enums(SPEC)
    for name, s in st.items():
        out[name] = {"kind": "struct", "fields": [(f["name"], f["ty"], f["vis"]) for f in s["fields"]], "line": s["line"], "attrs": s["attrs"]}
    for name, e in en.items():
        out[name] = {"kind": "enum", "variants": [v["name"] for v in e["variants"]], "line": e["line"], "attrs": e["attrs"]}
    for im in astq.impls(SPEC):
        ty = im["self_ty"]
        if ty not in out:
            continue
        tr = im.get("trait")
        if tr == "ParseableA2lObject":
            f = astq.fn_named(im, "parse")
            if f:
                out[ty]["parse_fn"] = f
        elif tr is None:
            for f in astq.fns(im):
                if f["sig"]["name"] == "stringify":
                    out[ty]["stringify_fn"] = f
                elif f["sig"]["name"] == "new":
                    out[ty]["new_fn"] = f
        elif tr == "PartialEq":
            f = astq.fn_named(im, "eq")
            if f:
                out[ty]["eq_fn"] = f
        elif tr.startswith("A2lObject <") or tr.startswith("A2lObject<"):
            out[ty]["a2lobject_impl"] = im
            f = astq.fn_named(im, "merge_includes")
            if f:
                out[ty]["merge_fn"] = f
            f = astq.fn_named(im, "reset_location")
            if f:
                out[ty]["reset_fn"] = f
        elif tr == "PositionRestricted":
            f = astq.fn_named(im, "pos_restrict")
            out[ty]["pos_restrict"] = render(f["body"]) if f else None
        elif tr in ("A2lObjectName", "A2lObjectNameSetter"):
            out[ty].setdefault("name_traits", []).append(tr)
        elif tr == "std::fmt::Display" or tr == "std :: fmt :: Display":
            out[ty]["display_fn"] = astq.fn_named(im, "fmt")
    _elements = out
    return out
