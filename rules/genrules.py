"""Rules over the generated code (specification.rs skeletons) and the grammar.

R04-dsl      the DSL of the current tree equals the frozen A2L 1.7.1 grammar (oracle/grammar_171.json)
R04-grammar  grammar(skeleton(specification.rs)) == frozen grammar, element by element / slot by slot
R01-dual     reader/writer agreement per element (parse skeleton is the mirror image of the stringify skeleton)
R05-slot     every value's line offset is captured right after the call that consumed its token
R07-stop     TAG_LIST == tags of the element's own match arms; default arm kind
R08-eq       generated PartialEq compares every data field (R01-eq: and no layout field)
R16-merge    merge_includes resets its own incfile and visits every child element
R05-new      new() marks the element as new (uid 0, line 0, incfile None)
"""
import json
import os
import re
from . import common, dsl, spec
from .common import Finding

SPECF = "a2lfile/src/specification.rs"


def oracle_grammar():
    with open(os.path.join(common.VERIF, "oracle", "grammar_171.json")) as fh:
        return json.load(fh)


def ver_const(v):
    """'1.70' -> 'A2lVersion::V1_7_0'"""
    if v is None:
        return None
    m = re.fullmatch(r"(\d+)\.(\d)(\d)", v)
    if not m:
        return "A2lVersion::?" + v
    return "A2lVersion::V%s_%s_%s" % (m.group(1), m.group(2), m.group(3))


def where(ty):
    E = spec.elements()
    ln = E.get(ty, {}).get("line")
    return "%s:%s (%s)" % (SPECF, ln, ty)


# ------------------------------------------------------------------------------------------- R04-dsl

def r04_dsl(chk, rule="R04-dsl"):
    try:
        cur = dsl.current_grammar()
    except dsl.DslError as e:
        chk.rule(rule, "DSL of the tree == frozen grammar", 0, floor=1)
        chk.add(Finding(rule, rule + "::unparsable", "the specification DSL cannot be read: %s" % e, "a2lfile/src/specification_orig.rs"))
        return None
    ora = oracle_grammar()
    n = 0
    ce = {e["type"]: e for e in cur["elements"]}
    oe = {e["type"]: e for e in ora["elements"]}
    for ty in sorted(set(ce) | set(oe)):
        n += 1
        a, b = ce.get(ty), oe.get(ty)
        if a is None or b is None:
            chk.add(Finding(rule, "%s::%s::presence" % (rule, ty), "element %s %s" % (ty, "is missing from the DSL" if a is None else "is not part of the A2L 1.7.1 reference grammar"), "a2lfile/src/specification_orig.rs"))
            continue
        for slot in ("tags", "is_block", "params"):
            if a[slot] != b[slot]:
                chk.add(Finding(rule, "%s::%s::%s" % (rule, ty, slot), "DSL element %s: %s is %s, reference grammar says %s" % (b["tags"][0], slot, json.dumps(a[slot])[:300], json.dumps(b[slot])[:300]), "a2lfile/src/specification_orig.rs"))
        ao = {o["tag"]: o for o in a["opt"]}
        bo = {o["tag"]: o for o in b["opt"]}
        for tag in sorted(set(ao) | set(bo)):
            n += 1
            if ao.get(tag) != bo.get(tag):
                chk.add(Finding(rule, "%s::%s::opt::%s" % (rule, ty, tag), "DSL element %s / sub-element %s: %s, reference grammar says %s" % (b["tags"][0], tag, json.dumps(ao.get(tag)), json.dumps(bo.get(tag))), "a2lfile/src/specification_orig.rs"))
        if [o["tag"] for o in a["opt"]] != [o["tag"] for o in b["opt"]] and set(ao) == set(bo):
            pass  # order of optional items is not significant
    cn = {e["name"]: e for e in cur["enums"]}
    on = {e["name"]: e for e in ora["enums"]}
    for nm in sorted(set(cn) | set(on)):
        n += 1
        if cn.get(nm) != on.get(nm):
            chk.add(Finding(rule, "%s::enum::%s" % (rule, nm), "DSL enum %s: %s, reference grammar says %s" % (nm, json.dumps(cn.get(nm))[:400], json.dumps(on.get(nm))[:400]), "a2lfile/src/specification_orig.rs"))
    chk.rule(rule, "elements, optional sub-elements and enums of the in-tree DSL compared with the frozen A2L 1.7.1 grammar", n, floor=165 + 20)
    return cur


# ------------------------------------------------------------------------------------------- R04-grammar

def _tag_is_block(ora):
    m = {}
    for e in ora["elements"]:
        for t in e["tags"]:
            m[t] = e["is_block"]
    return m


def expected_reads(p, structs):
    """expected (reader list) for one grammar parameter"""
    def one(it):
        b = it["base"]
        if b.startswith("enum:"):
            return b
        return b
    if p["kind"] == "single":
        n = p["array"] or 1
        return [one(p)] * n
    if len(p["items"]) == 1:
        return [one(p["items"][0])]
    return ["enum:" + structs]


def seq_struct_name(pname):
    return dsl.typename(pname.upper()) + "Struct"


def r04_grammar(chk, rule="R04-grammar", slot_rule="R05-slot", stop_rule="R07-stop"):
    ora = oracle_grammar()
    E = spec.elements()
    isblk = _tag_is_block(ora)
    n = 0
    nslot = 0
    nstop = 0
    sk_cache = {}
    for e in ora["elements"]:
        ty = e["type"]
        tag0 = e["tags"][0]
        if ty in ("A2ml", "IfData"):
            continue   # hand-written special elements (raw A2ML text / IF_DATA): covered by C18 rules
        f = E.get(ty)
        if f is None or "parse_fn" not in f:
            chk.add(Finding(rule, "%s::%s::missing" % (rule, ty), "no generated parser for grammar element %s" % tag0, SPECF))
            n += 1
            continue
        sk = spec.parse_skeleton(f["parse_fn"])
        sk_cache[ty] = sk
        W = where(ty)

        def bad(slot, msg, r=rule):
            chk.add(Finding(r, "%s::%s::%s" % (r, ty, slot), "%s / %s: %s" % (tag0, slot, msg), W))
        for u in sk["unrecognised"]:
            bad("shape", "statement touching the parser matches no known production: " + u)
        # prologue
        n += 1
        if sk["prologue"].get("__location_incfile") != "parser.get_incfilename(context.fileid)" or sk["prologue"].get("__location_line") != "context.line" \
                or sk["prologue"].get("__uid") != "parser.get_next_id()":
            bad("prologue", "incfile/line/uid are not taken from the element's own context: %s" % sk["prologue"])
        # parameters
        gp = e["params"]
        if len(gp) != len(sk["params"]):
            bad("params", "parser reads %d parameters, grammar has %d" % (len(sk["params"]), len(gp)))
        for k, (g, s) in enumerate(zip(gp, sk["params"])):
            n += 1
            slot = "param%d:%s" % (k, g["name"])
            if g["kind"] == "single":
                if s["kind"] != "single":
                    bad(slot, "grammar has a single value, parser has a sequence")
                    continue
                if s["name"] != g["name"] or s["loc"] != "__%s_location" % g["name"]:
                    bad(slot, "value is bound to `%s`/`%s`, expected `%s`" % (s["name"], s["loc"], g["name"]))
                exp = expected_reads(g, None)
                got = [r for r, _ in s["reads"]]
                if got != exp:
                    bad(slot, "parser reads %s, grammar says %s" % (got, exp))
            else:
                if s["kind"] != "seq":
                    bad(slot, "grammar has a sequence, parser has a single value")
                    continue
                exp = expected_reads(g, seq_struct_name(g["name"]))
                got = [r for r, _ in s["reads"]]
                if got != exp:
                    bad(slot, "sequence parser reads %s per item, grammar says %s" % (got, exp))
                pv = [p[0] for p in s["pushes"]]
                if pv != [g["name"], "__%s_location" % g["name"]]:
                    bad(slot, "sequence items are pushed to %s, expected %s" % (pv, g["name"]))
                if not s["rewind"]:
                    bad(slot, "sequence loop does not restore the token position when an item does not parse")
                if len(g["items"]) > 1:
                    # the helper struct: its own parser must read the items
                    hs = E.get(seq_struct_name(g["name"]))
                    if hs is None or "parse_fn" not in hs:
                        bad(slot, "helper struct %s missing" % seq_struct_name(g["name"]))
                    else:
                        hsk = spec.parse_skeleton(hs["parse_fn"])
                        hgot = [(p["name"], [r for r, _ in p["reads"]]) for p in hsk["params"]]
                        hexp = [(it["name"], expected_reads(it, None)) for it in g["items"]]
                        if hgot != hexp:
                            bad(slot, "sequence item struct reads %s, grammar says %s" % (hgot, hexp))
                        for p in hsk["params"]:
                            nslot += 1
                            if not all(c for _, c in p["reads"]) or any(r.startswith("stray") for r, _ in p["reads"]):
                                bad(slot + "." + p["name"], "line offset is not captured directly after the token of this value was consumed", slot_rule)
            # R05-slot
            nslot += 1
            if not all(c for r, c in s["reads"] if not (r.startswith("enum:") and g["kind"] == "seq" and len(g.get("items", [])) > 1)) or any(r.startswith("stray") for r, _ in s["reads"]):
                bad(slot, "line offset is not captured by get_line_offset() directly after the call that consumed this value's token: %s" % s["reads"], slot_rule)
            if g["kind"] == "single":
                exp_tail = None
                if not g["array"]:
                    exp_tail = "((offset, is_hex), value)" if g["base"][0] in "iu" and g["base"] not in ("ident",) and g["base"][1:].isdigit() else "(parser.get_line_offset(), value)"
                    if s["tail"] != exp_tail:
                        bad(slot, "location/value pair is %s, expected %s" % (s["tail"], exp_tail), slot_rule)
        # optional / tagged items
        go = {o["tag"]: o for o in e["opt"]}
        arms = sk["arms"]
        for tag in sorted(set(go) | set(arms)):
            n += 1
            slot = "sub:" + tag
            if tag not in arms:
                bad(slot, "grammar allows sub-element %s here but the parser has no arm for it" % tag)
                continue
            if tag not in go:
                bad(slot, "parser accepts sub-element %s which the grammar does not allow here" % tag)
                continue
            o, a = go[tag], arms[tag]
            want_kind = "block" if isblk.get(tag) else "keyword"
            if a["require"] is None or a["require"]["kind"] != want_kind or a["require"]["args"] != ["tag", "is_block", "context"] or not a["require"]["tried"]:
                bad(slot, "block form check is %s, grammar says %s must be in %s form" % (a["require"], tag, "/begin../end" if want_kind == "block" else "plain keyword"))
            if a["parse"] != o["type"] or a.get("parse_args") != ["parser", "&newcontext", "line_offset"] or not a.get("parse_tried") or a.get("parse_bind") != "newitem":
                bad(slot, "arm parses %s(%s), grammar says %s" % (a["parse"], a.get("parse_args"), o["type"]))
            var = ("__tmp_required_" + o["field"]) if (o["required"] and not o["repeat"]) else o["field"]
            if o["repeat"]:
                if a["store"] != {"kind": "vec", "var": var, "value": "newitem"} or a["mult"] is not None:
                    bad(slot, "repeatable sub-element must be pushed to `%s` without multiplicity check; found store=%s mult=%s" % (var, a["store"], a["mult"]))
            else:
                if a["store"] != {"kind": "option", "var": var, "value": "Some(newitem)"}:
                    bad(slot, "single sub-element must be stored in `%s`; found %s" % (var, a["store"]))
                if a["mult"] is None or a["mult"]["args"] != ["context", "tag", var + ".is_some()"] or not a["mult"]["tried"]:
                    bad(slot, "multiplicity check must test `%s.is_some()`; found %s" % (var, a["mult"]))
            exp_ver = []
            if o["vmin"]:
                exp_ver.append({"fn": "check_block_version_lower", "args": ["context", '"%s"' % tag, ver_const(o["vmin"])], "tried": True})
            if o["vmax"]:
                exp_ver.append({"fn": "check_block_version_upper", "args": ["context", '"%s"' % tag, ver_const(o["vmax"])], "tried": False})
            if a["versions"] != exp_ver:
                bad(slot, "version gate is %s, grammar says %s" % (json.dumps(a["versions"]), json.dumps(exp_ver)))
            if a["other"]:
                bad(slot, "unexpected statements in arm: %s" % a["other"])
            d = sk["decls"].get(var)
            if d is None:
                bad(slot, "no declaration of `%s`" % var)
            else:
                exp_ty = ("Vec<%s>" if o["repeat"] else "Option<%s>") % o["type"]
                if d["ty"] is not None and d["ty"].replace(" ", "") not in (exp_ty, "ItemList<%s>" % o["type"]):
                    bad(slot, "`%s` is declared as %s, expected %s" % (var, d["ty"], exp_ty))
        # stop list and default arm
        if e["opt"]:
            nstop += 1
            want_default = "unknown" if e["is_block"] else "break"
            dflt = sk["default"]
            if dflt is None or dflt["kind"] != want_default:
                bad("default", "default arm is %s, expected %s" % (dflt, "handle_unknown_taggedstruct_tag(..)?" if want_default == "unknown" else "undo + break"), stop_rule)
            elif want_default == "unknown":
                if dflt["args"] != ["context", "tag", "is_block", "&TAG_LIST"] or not dflt["tried"] or dflt["breaks"]:
                    bad("default", "unknown-tag handler is called as %s" % dflt, stop_rule)
                if sk["taglist"] is None or sorted(sk["taglist"]) != sorted(arms.keys()) or len(set(sk["taglist"])) != len(sk["taglist"]):
                    missing = sorted(set(arms) - set(sk["taglist"] or []))
                    extra = sorted(set(sk["taglist"] or []) - set(arms))
                    bad("taglist", "TAG_LIST differs from the tags of the block's own arms: missing %s, extra %s" % (missing, extra), stop_rule)
            else:
                if dflt["undo"] != 2 or not dflt["breaks"] or "if is_block {parser.undo_get_token()}" not in dflt["src"]:
                    bad("default", "unknown tag must be pushed back (twice for /begin) before leaving the loop: %s" % dflt["src"], stop_rule)
            if sk.get("tag_scrutinee") != "tag" or sk.get("tag_lets", {}).get("tag") != "parser.get_token_text(token)" or sk.get("next_tag") != "parser.get_next_tag_or_comment(context)?":
                bad("tagsource", "tag dispatch does not use the text of the token returned by get_next_tag_or_comment", stop_rule)
            if sk.get("other_arm") != "{break}":
                bad("other_arm", "the no-more-tags arm must leave the loop: %s" % sk.get("other_arm"), stop_rule)
            # comments
            want_c = "store" if e["is_block"] else "ignore"
            ca = sk["comment_arm"]
            if ca is None or ca["kind"] != want_c:
                bad("comments", "comment arm is %s, expected %s" % (ca, want_c), "R02-comment")
            elif want_c == "store" and ca["fields"] != {"comment": "parser.get_token_text(token).to_string()", "is_included": "(context.fileid != 0)", "line": "context.line", "uid": "parser.get_next_id()", "start_offset": "line_offset"}:
                bad("comments", "stored comment fields are %s" % ca["fields"], "R02-comment")
        elif sk["arms"] or sk["default"]:
            bad("default", "parser has a tag loop but the grammar has no sub-elements")
        # required
        n += 1
        exp_req = []
        for o in e["opt"]:
            if o["required"] and not o["repeat"]:
                exp_req.append({"name": o["field"], "from": "__tmp_required_" + o["field"], "tag": o["tag"], "error": "ParserError::InvalidMultiplicityNotPresent", "then": "{value}"})
            elif o["required"] and o["repeat"]:
                exp_req.append({"name": o["field"], "from": o["field"], "tag": o["tag"], "error": "ParserError::InvalidMultiplicityNotPresent", "then": "nonempty:error_or_log"})
        if sorted(sk["required"], key=lambda r: r["name"]) != sorted(exp_req, key=lambda r: r["name"]):
            bad("required", "required sub-elements checked: %s, grammar says %s" % (sk["required"], exp_req))
        # end of element
        n += 1
        if e["is_block"]:
            if sk["end"] != "block" or sk.get("end_expect") != ["context", "A2lTokenType::End"] or sk.get("end_offset") != "parser.get_line_offset()" \
                    or sk.get("end_ident") != "parser.get_identifier(context)?" or not sk["end_tag_check"] or sk.get("end_tag_cond") != "(ident != context.element)" \
                    or "parser.error_or_log(ParserError::incorrect_end_tag(parser, context, &ident))?" not in sk.get("end_tag_then", ""):
                bad("end", "block end is not `/end <same tag>` with the offset of /end captured: %s" % {k: sk.get(k) for k in ("end", "end_expect", "end_offset", "end_ident", "end_tag_cond", "end_tag_then")})
        else:
            if sk["end"] != "keyword" or sk.get("end_offset") != "0":
                bad("end", "keyword element must not consume an /end: %s" % sk.get("end_offset"))
        # result struct
        n += 1
        res = sk["result"]
        if res is None:
            bad("result", "no Ok(Self{..}) result")
        else:
            exp_fields = [p["name"] for p in gp] + [o["field"] for o in e["opt"]] + (["a2lcomment"] if (e["opt"] and e["is_block"]) else [])
            bad_f = {k: v for k, v in res["fields"].items() if v != k}
            if sorted(res["fields"]) != sorted(exp_fields) or bad_f:
                bad("result", "result struct fields %s (non-identity: %s), expected %s" % (sorted(res["fields"]), bad_f, sorted(exp_fields)))
            exp_loc = ["__%s_location" % p["name"] for p in gp]
            il = res.get("item_location")
            if isinstance(il, list):
                il2 = [x for x in il if x != "__dummy"]
            else:
                il2 = [] if il in ("()",) else il
            if il2 != exp_loc:
                bad("item_location", "item_location is %s, expected %s" % (il, exp_loc), slot_rule)
            bi = res.get("block_info", {})
            exp_bi = {"incfile": "__location_incfile", "line": "__location_line", "uid": "__uid", "start_offset": "__start_offset", "end_offset": "__end_offset"}
            if {k: bi.get(k) for k in exp_bi} != exp_bi:
                bad("block_info", "block info is %s" % bi, slot_rule)
    # enums
    for en in ora["enums"]:
        n += 1
        ty = en["name"]
        f = E.get(ty)
        if f is None or "parse_fn" not in f or f["kind"] != "enum":
            chk.add(Finding(rule, "%s::%s::missing" % (rule, ty), "no generated parser for enum %s" % ty, SPECF))
            continue
        got = enum_skeleton(f["parse_fn"])
        exp = {}
        for it in en["items"]:
            vs = []
            if it["vmin"]:
                vs.append(("check_enumitem_version_lower", ["context", '"%s"' % it["name"], ver_const(it["vmin"])], True))
            if it["vmax"]:
                vs.append(("check_enumitem_version_upper", ["context", '"%s"' % it["name"], ver_const(it["vmax"])], False))
            exp[it["name"]] = {"variant": "Self::" + dsl.typename(it["name"]) if not it["name"][0].isdigit() else None, "versions": vs}
        for tag in sorted(set(exp) | set(got["arms"])):
            n += 1
            g, x = got["arms"].get(tag), exp.get(tag)
            if g is None or x is None:
                chk.add(Finding(rule, "%s::%s::item::%s" % (rule, ty, tag), "enum %s: value %s %s" % (ty, tag, "is not accepted by the parser" if g is None else "is accepted but not in the grammar"), where(ty)))
                continue
            if g["versions"] != x["versions"]:
                chk.add(Finding(rule, "%s::%s::item::%s::version" % (rule, ty, tag), "enum %s / %s: version gate is %s, grammar says %s" % (ty, tag, g["versions"], x["versions"]), where(ty)))
            if x["variant"] and g["variant"] != x["variant"]:
                chk.add(Finding(rule, "%s::%s::item::%s::variant" % (rule, ty, tag), "enum %s / %s: maps to %s, expected %s" % (ty, tag, g["variant"], x["variant"]), where(ty)))
        if got["default"] != "ParserError::InvalidEnumValue" or got["scrutinee"] != "&*enumname" or got["source"] != "parser.get_identifier(context)?":
            chk.add(Finding(rule, "%s::%s::default" % (rule, ty), "enum %s: unknown values must give InvalidEnumValue (found %s; source %s)" % (ty, got["default"], got["source"]), where(ty)))
        if got["other"]:
            chk.add(Finding(rule, "%s::%s::shape" % (rule, ty), "enum %s: unexpected statements %s" % (ty, got["other"]), where(ty)))
    chk.rule(rule, "slots of the generated parsers (parameters, sub-element arms, required items, block end, result, enum items) compared with the frozen grammar", n, floor=1398)
    chk.rule(slot_rule, "values whose line offset is captured directly after their own token and stored in their own item_location slot", nslot, floor=313)
    chk.rule(stop_rule, "blocks with optional sub-elements: TAG_LIST == own arms, default arm kind, tag source", nstop, floor=41)
    return sk_cache


def enum_skeleton(fn):
    out = {"arms": {}, "default": None, "scrutinee": None, "source": None, "other": []}
    for s in fn["body"]:
        if s["t"] == "Let" and spec.render_pat(s["pat"]) == "enumname":
            out["source"] = spec.render(s["init"])
            continue
        e = s.get("e")
        if isinstance(e, dict) and e.get("t") == "Match":
            out["scrutinee"] = spec.render(e["e"])
            for a in e["arms"]:
                p = a["pat"]
                if p["t"] == "PLit":
                    tag = p["lit"]["v"]
                    vs = []
                    variant = None
                    stmts = a["body"]["stmts"] if a["body"].get("t") == "Block" else [{"t": "ExprStmt", "e": a["body"], "semi": False}]
                    for st in stmts:
                        ee = st.get("e")
                        core = ee
                        tried = False
                        while isinstance(core, dict) and core.get("t") == "Try":
                            core = core["e"]
                            tried = True
                        if isinstance(core, dict) and spec.is_parser_call(core) and core["method"].startswith("check_enumitem_version_"):
                            vs.append((core["method"], [spec.render(x) for x in core["args"]], tried))
                        elif isinstance(core, dict) and core.get("t") == "Call" and spec.render(core["f"]) == "Ok":
                            variant = spec.render(core["args"][0])
                        else:
                            out["other"].append(spec.render_stmt(st)[:120])
                    out["arms"][tag] = {"variant": variant, "versions": vs}
                elif p["t"] == "PWild":
                    st = [x for x in spec.walk(a["body"]) if x.get("t") == "Struct"]
                    out["default"] = st[0]["path"] if st else spec.render(a["body"])[:80]
                else:
                    out["other"].append("arm " + spec.render_pat(p))
        elif e is not None:
            out["other"].append(spec.render_stmt(s)[:120])
    return out


# ------------------------------------------------------------------------------------------- R01-dual

INT_TYPES = {"i8", "i16", "i32", "i64", "u8", "u16", "u32", "u64"}


def expected_write(reader, value, loc, is_seq_item=False):
    """the writer call that mirrors one read"""
    if reader in INT_TYPES:
        return {"method": "add_integer", "args": [value, loc + ".1", loc + ".0"]}
    if reader in ("f64", "f32"):
        return {"method": "add_float", "args": [value, loc]}
    if reader == "string":
        return {"method": "add_quoted_string", "args": [("" if is_seq_item else "&") + value, loc]}
    if reader == "ident":
        return {"method": "add_str", "args": [("" if is_seq_item else "&") + value, loc]}
    if reader.startswith("enum:"):
        return {"method": "add_str", "args": ["&" + value + ".to_string()", loc]}
    return {"method": "?", "args": []}


def r01_dual(chk, rule="R01-dual", inc_rule="R16-writer"):
    E = spec.elements()
    n = 0
    ninc = 0
    pairs = 0
    for ty, f in sorted(E.items()):
        if f["kind"] != "struct" or "parse_fn" not in f or "stringify_fn" not in f:
            continue
        pairs += 1
        psk = spec.parse_skeleton(f["parse_fn"])
        wsk = spec.stringify_skeleton(f["stringify_fn"])
        W = where(ty)
        helper = f["stringify_fn"]["sig"]["params"][1]["name"] == "writer" if len(f["stringify_fn"]["sig"]["params"]) > 1 else False

        def bad(slot, msg, r=rule):
            chk.add(Finding(r, "%s::%s::%s" % (r, ty, slot), "%s / %s: %s" % (ty, slot, msg), W))
        for u in wsk["unrecognised"]:
            bad("shape", "writer statement matches no known production: " + u)
        if not helper and (wsk["new"] != "writer::Writer::new(indent)" or not wsk["finish"]):
            bad("frame", "writer is not created with the element's indent / not finished")
        # parameters in order
        if len(psk["params"]) != len(wsk["writes"]):
            bad("params", "parser reads %d parameters but the writer emits %d" % (len(psk["params"]), len(wsk["writes"])))
        for k, (p, w) in enumerate(zip(psk["params"], wsk["writes"])):
            n += 1
            loc = "self.__block_info.item_location.%d" % k
            if p["kind"] == "single":
                name = p["name"]
                slot = "param%d:%s" % (k, name)
                reads = [r for r, _ in p["reads"]]
                if len(reads) == 1:
                    exp = expected_write(reads[0], "self." + name, loc)
                    exp["kind"] = "single"
                    if {"kind": w["kind"], "method": w.get("method"), "args": w.get("args")} != exp:
                        bad(slot, "value read as %s is written by %s, expected %s" % (reads[0], json.dumps(w), json.dumps(exp)))
                else:
                    ew = expected_write(reads[0], "self.%s[idx0]" % name, loc + "[idx0]")
                    exp = {"kind": "loop", "pat": "idx0", "iter": "0..%dusize" % len(reads), "calls": [ew]}
                    if w != exp or len(set(reads)) != 1:
                        bad(slot, "array of %d values is written by %s, expected %s" % (len(reads), json.dumps(w), json.dumps(exp)))
            else:
                name = p["pushes"][0][0] if p["pushes"] else "?"
                slot = "param%d:%s" % (k, name)
                reads = [r for r, _ in p["reads"]]
                if len(reads) == 1 and reads[0].startswith("enum:") and reads[0].endswith("Struct"):
                    exp = {"kind": "loop-struct", "pat": "seqitem0", "iter": "&self." + name, "calls": [{"recv": "seqitem0", "args": ["&mut writer"]}]}
                else:
                    ew = expected_write(reads[0], "seqitem0", "*%s.get(seqidx0).unwrap_or(&0)" % loc, True) if reads else None
                    if ew and ew["method"] == "add_integer":
                        ew = {"method": "add_integer", "args": ["*seqitem0", "%s.get(seqidx0).unwrap_or(&(0, false)).1" % loc, "%s.get(seqidx0).unwrap_or(&(0, false)).0" % loc]}
                    if ew and ew["method"] == "add_float":
                        ew["args"][0] = "*seqitem0"
                    exp = {"kind": "loop", "pat": "(seqidx0, seqitem0)", "iter": "self.%s.iter().enumerate()" % name, "calls": [ew]}
                if w != exp:
                    bad(slot, "sequence is written by %s, expected %s" % (json.dumps(w), json.dumps(exp)))
        # tagged children
        arms = psk["arms"]
        wt = {}
        for t in wsk["tags"]:
            tag = (t.get("fields") or {}).get("tag", "?").strip('"')
            if tag in wt:
                bad("sub:" + tag, "tag is written twice")
            wt[tag] = t
        for tag in sorted(set(arms) | set(wt)):
            n += 1
            ninc += 1
            slot = "sub:" + tag
            if tag not in wt:
                bad(slot, "sub-element is parsed and stored but never written")
                continue
            if tag not in arms:
                bad(slot, "sub-element is written but the parser has no arm for it")
                continue
            a, t = arms[tag], wt[tag]
            store = a["store"] or {}
            var = store.get("var", "?")
            required = var.startswith("__tmp_required_")
            field = var[len("__tmp_required_"):] if required else var
            if required:
                b = "self." + field
                exp_form, exp_src = "Direct", None
            elif store.get("kind") == "vec":
                b = field
                exp_form, exp_src = "For", "&self." + field
            else:
                b = field
                exp_form, exp_src = "If", "let Some(%s) = &self.%s" % (field, field)
            if t["form"] != exp_form or t["src"] != exp_src or (exp_form == "For" and t["bind"] != field):
                bad(slot, "child is taken from %s (%s), expected %s (%s)" % (t["src"], t["form"], exp_src, exp_form))
            is_block = "true" if (a["require"] or {}).get("kind") == "block" else "false"
            expf = {"tag": '"%s"' % tag, "item_text": field + "_out", "is_block": is_block, "incfile": "&%s.__block_info.incfile" % b,
                    "uid": "%s.__block_info.uid" % b, "line": "%s.__block_info.line" % b, "start_offset": "%s.__block_info.start_offset" % b,
                    "end_offset": "%s.__block_info.end_offset" % b, "position_restriction": "%s.pos_restrict()" % b}
            gotf = t.get("fields") or {}
            for k2 in sorted(set(expf) | set(gotf)):
                if gotf.get(k2) != expf.get(k2):
                    r = inc_rule if k2 == "incfile" else rule
                    bad(slot + "." + k2, "tagged item field %s is %s, expected %s (the parser's form for %s is %s)" % (k2, gotf.get(k2), expf.get(k2), tag, (a["require"] or {}).get("kind")), r)
            if t.get("variant") != "writer::TaggedItemInfo::Tag":
                bad(slot, "child is not added as TaggedItemInfo::Tag")
            if t.get("text_bind") != field + "_out" or t.get("text_cond") != "%s.__block_info.incfile.is_none()" % b \
                    or t.get("text_then") != "{%s.stringify((indent + 1))}" % b or t.get("text_else") != "{String::new()}":
                bad(slot + ".text", "child text must be produced by its own stringify(indent + 1) exactly when its own incfile is None: %s" % {k: t.get(k) for k in ("text_bind", "text_cond", "text_then", "text_else")}, inc_rule)
        # comments
        n += 1
        stores = psk["comment_arm"] is not None and psk["comment_arm"]["kind"] == "store"
        if stores and wsk["comments"] != ["&mut tgroup", "&self.a2lcomment"]:
            bad("comments", "block-level comments are stored by the parser but not handed to the writer group", "R02-comment")
        if not stores and wsk["comments"]:
            bad("comments", "writer emits comments the parser never stores", "R02-comment")
        if (arms or wsk["tags"]) and wsk["group"] != ["tgroup"]:
            bad("group", "tagged items are collected but not added to the writer")
    chk.rule(rule, "element types whose parse skeleton is the mirror image of their stringify skeleton (values, sequences, arrays, tagged children, comments)", n, floor=809,
             extra={"pairs": pairs})
    chk.rule(inc_rule, "tagged children written only if their own incfile is None and passing their own incfile/uid/line/offsets", ninc, floor=329)
    if pairs < 167:
        chk.add(Finding(rule, rule + "::pairs", "only %d parse/stringify pairs found (167 on the pinned tree)" % pairs, SPECF))


# ------------------------------------------------------------------------------------------- R08-eq / R01-eq

# hand-written special elements: fields that are derived state, not content (one reason per entry)
EQ_DERIVED = {
    ("A2ml", "merged_a2ml_text"): "a2ml_text with the /include directives expanded; recomputed from a2ml_text when the file is loaded",
    ("IfData", "ifdata_valid"): "parse status of ifdata_items against the A2ML definition, not content of the file",
}


def r_eq(chk, rule_complete="R08-eq", rule_layout="R01-eq"):
    E = spec.elements()
    n = 0
    for ty, f in sorted(E.items()):
        if f["kind"] != "struct" or "eq_fn" not in f:
            continue
        n += 1
        fields, other = spec.eq_fields(f["eq_fn"])
        data = [x[0] for x in f["fields"] if x[0] not in ("__block_info", "a2lcomment") and (ty, x[0]) not in EQ_DERIVED]
        W = where(ty)
        if fields is None:
            chk.add(Finding(rule_complete, "%s::%s::shape" % (rule_complete, ty), "PartialEq for %s is not a conjunction of field comparisons: %s" % (ty, other), W))
            continue
        if rule_complete:
            for m in [d for d in data if d not in fields]:
                chk.add(Finding(rule_complete, "%s::%s.%s" % (rule_complete, ty, m), "PartialEq for %s does not compare the data field `%s`: two elements differing only there count as identical (merge would drop B's copy)" % (ty, m), W))
            for o in other:
                if "__block_info" not in o and "a2lcomment" not in o:
                    chk.add(Finding(rule_complete, "%s::%s::other" % (rule_complete, ty), "PartialEq for %s contains a term that is not a field comparison: %s" % (ty, o), W))
        if rule_layout:
            lay = [x for x in fields if x.split(".")[0] in ("__block_info", "a2lcomment")] + [o for o in other if "__block_info" in o or "a2lcomment" in o]
            for m in lay:
                chk.add(Finding(rule_layout, "%s::%s::%s" % (rule_layout, ty, m), "PartialEq for %s compares layout (%s): a reloaded model could never be equal" % (ty, m), W))
    for r in (rule_complete, rule_layout):
        if r:
            chk.rule(r, "generated PartialEq impls checked field by field against their struct", n, floor=169)


# ------------------------------------------------------------------------------------------- R16-merge

def elem_type_of(ty, E):
    t = ty.replace(" ", "")
    for pre in ("Option<", "Vec<", "ItemList<", "Box<"):
        if t.startswith(pre) and t.endswith(">"):
            return elem_type_of(t[len(pre):-1], E)
    if t in E and E[t]["kind"] == "struct" and "merge_fn" in E[t]:
        sf = E[t].get("stringify_fn")
        if sf is not None and len(sf["sig"]["params"]) > 1 and sf["sig"]["params"][1]["name"] == "writer":
            return None   # inline item of a value sequence: written unconditionally by its parent, it has no include origin of its own
        return t
    return None


def r16_merge(chk, rule="R16-merge"):
    E = spec.elements()
    n = 0
    for ty, f in sorted(E.items()):
        if f["kind"] != "struct" or "merge_fn" not in f:
            continue
        n += 1
        own, kids, other = spec.merge_children(f["merge_fn"])
        W = where(ty)
        if not own:
            chk.add(Finding(rule, "%s::%s::own" % (rule, ty), "%s::merge_includes does not reset its own incfile" % ty, W))
        want = [x[0] for x in f["fields"] if x[0] not in ("__block_info", "a2lcomment") and elem_type_of(x[1], E)]
        got = [k for k, _ in kids]
        for m in [w for w in want if w not in got]:
            chk.add(Finding(rule, "%s::%s.%s" % (rule, ty, m), "%s::merge_includes does not visit child `%s`: after merge_includes() that child is still written as /include" % (ty, m), W))
        for k, mut in kids:
            if not mut:
                chk.add(Finding(rule, "%s::%s.%s::mut" % (rule, ty, k), "%s::merge_includes visits `%s` through a shared reference/copy" % (ty, k), W))
        if ty not in ("IfData", "A2ml"):
            for o in other:
                chk.add(Finding(rule, "%s::%s::shape" % (rule, ty), "%s::merge_includes: unexpected statement %s" % (ty, o), W))
        rs = f.get("reset_fn")
        if rs is not None:
            r = spec.render(rs["body"])
            if "self.merge_includes()" not in r or "self.__block_info.uid = 0" not in r:
                chk.add(Finding(rule, "%s::%s::reset" % (rule, ty), "%s::reset_location must flatten includes and clear the uid: %s" % (ty, r), W))
    chk.rule(rule, "merge_includes impls: own incfile reset + every child element visited", n, floor=169)


# ------------------------------------------------------------------------------------------- R05-new

def r05_new(chk, rule="R05-new"):
    E = spec.elements()
    n = 0
    for ty, f in sorted(E.items()):
        if f["kind"] != "struct" or "new_fn" not in f:
            continue
        n += 1
        bi = None
        for x in spec.walk(f["new_fn"]["body"]):
            if x.get("t") == "Struct" and x["path"] == "BlockInfo":
                bi = {g["name"]: spec.render(g["e"]) for g in x["fields"]}
        W = where(ty)
        if bi is None:
            chk.add(Finding(rule, "%s::%s::shape" % (rule, ty), "%s::new() builds no BlockInfo" % ty, W))
            continue
        if bi.get("incfile") != "None" or bi.get("line") != "0" or bi.get("uid") != "0":
            chk.add(Finding(rule, "%s::%s" % (rule, ty), "%s::new() must mark the element as new (incfile None, line 0, uid 0); found %s" % (ty, {k: bi.get(k) for k in ("incfile", "line", "uid")}), W))
    chk.rule(rule, "constructors that mark the element as new for the writer (uid 0, line 0, incfile None)", n, floor=169)


# ------------------------------------------------------------------------------------------- attribution of C20 diffs

def expansion_diffs(chk, rule, wanted, what):
    """report the C20 item diffs whose item key matches `wanted` (a predicate on the key) under this property:
    the shipped code of that item is not what the DSL means, and the clause of this property that the item implements is open"""
    d = common.expand_facts()
    if "error" in d:
        chk.add(Finding(rule, rule + "::error", d["error"], "a2lfile/src/specification_orig.rs"))
        chk.rule(rule, what, 0, floor=1)
        return
    keys = [k for k in d["equal_keys"] if wanted(k)]
    n = len(keys)
    for x in d["diffs"]:
        if wanted(x["key"]):
            n += 1
            msg = {"diff": "shipped code differs from what the in-tree generator produces from the DSL: fresh [.. %s ..] shipped [.. %s ..]" % (x.get("fresh"), x.get("shipped")),
                   "only_fresh": "item is generated from the DSL but missing in specification.rs", "only_shipped": "item exists in specification.rs but the DSL does not produce it"}[x["kind"]]
            chk.add(Finding(rule, "%s::%s" % (rule, x["key"]), msg, SPECF + " :: " + x["key"], x))
    chk.rule(rule, what, n, floor=1)
