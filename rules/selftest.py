"""R00-selftest (thorough tier): the check of this property still fires on the seeded changes kept for it.

For every /verif/seeded/<ID><x>/patch.diff: copy /repo's tracked files (current working tree contents) to a scratch directory
outside /repo and /verif, apply the patch there, run this property's quick check on the copy (own fact cache and own
evidence/report directory inside the scratch directory) and require exit 1.  A patch that no longer applies (the tree under
test changed in that place) is skipped and counted.  A seed that applies but is not reported means the checker lost
sensitivity: that is an engine failure (no verdict), not a property violation.  The scratch directory is removed afterwards."""
import glob
import json
import os
import shutil
import subprocess
import tempfile
from . import common


def run(chk):
    pid = chk.pid
    seeds = sorted(glob.glob(os.path.join(common.VERIF, "seeded", pid + "*", "patch.diff")))
    if not seeds:
        chk.rule("R00-selftest", "seeded changes of this property reported by its check on a scratch copy", 0, floor=0)
        return
    base = tempfile.mkdtemp(prefix="verif-selftest-")
    applied, skipped, missed = [], [], []
    try:
        files = subprocess.run(["git", "-C", common.REPO, "ls-files"], stdout=subprocess.PIPE, text=True, check=True).stdout.split("\n")
        pristine = os.path.join(base, "pristine")
        for f in files:
            if not f:
                continue
            src = os.path.join(common.REPO, f)
            if not os.path.isfile(src):
                continue
            dst = os.path.join(pristine, f)
            os.makedirs(os.path.dirname(dst), exist_ok=True)
            shutil.copy2(src, dst)
        for patch in seeds:
            sid = os.path.basename(os.path.dirname(patch))
            wt = os.path.join(base, "wt")
            shutil.rmtree(wt, ignore_errors=True)
            shutil.copytree(pristine, wt)
            r = subprocess.run(["git", "apply", "--unsafe-paths", "--directory=" + wt, patch], cwd=base, stdout=subprocess.PIPE, stderr=subprocess.STDOUT, text=True)
            if r.returncode != 0:
                r = subprocess.run(["patch", "-p1", "-s", "-f", "-i", patch], cwd=wt, stdout=subprocess.PIPE, stderr=subprocess.STDOUT, text=True)
            if r.returncode != 0:
                skipped.append(sid)
                continue
            env = dict(os.environ, VERIF_REPO=wt, VERIF_CACHE=os.path.join(base, "cache"), VERIF_OUT=os.path.join(base, "out"), VERIF_TIER="quick")
            r = subprocess.run(["python3", os.path.join(common.VERIF, "bin", "vcheck"), pid, "--tier", "quick"], cwd=common.VERIF, env=env, stdout=subprocess.PIPE, stderr=subprocess.STDOUT, text=True)
            keys = [l.strip()[5:] for l in r.stdout.splitlines() if l.strip().startswith("key: ")]
            if r.returncode == 1 and keys:
                applied.append((sid, keys[0][:120]))
            else:
                missed.append((sid, r.returncode, r.stdout[-300:]))
    finally:
        shutil.rmtree(base, ignore_errors=True)
    chk.info["selftest"] = {"reported": dict(applied), "skipped_patch_does_not_apply": skipped}
    if missed:
        raise common.EngineFailure("self-test: the check of %s no longer reports the seeded change(s) %s" % (pid, ", ".join("%s (exit %s)" % (m[0], m[1]) for m in missed)))
    chk.rule("R00-selftest", "seeded changes of this property applied to a scratch copy and reported by this check (skipped because the patch no longer applies: %d)" % len(skipped), len(applied), floor=0)
