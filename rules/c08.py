"""C08 Merge conserves both inputs (structural clauses; see DESIGN.md section 3, C08)"""
from . import genrules


def run(chk):
    genrules.r_eq(chk, rule_complete="R08-eq", rule_layout=None)
    chk.assumptions += ["not decided: the conservation statement itself over all overlap patterns"]
