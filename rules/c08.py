"""C08 Merge conserves both inputs (structural clauses; DESIGN.md section 3, C08)

R08-eq      generated PartialEq compares every data field (== means 'identical, B's copy may be dropped')
R08-fields  every field of Module is taken over from the merged-in module by some merge step
R08-frame   the destination module is only extended: pushes, None/empty fills, name-keyed unions
R08-move    elements are pushed into the list they came from, and only under that namespace's action table
R08-ns      action/rename tables are computed per namespace from both sides, and cover all member lists
R08-unique  fresh names are checked against both modules
"""
import re
from . import mir, sym, refs, mergefacts, genrules, c09
from .common import Finding

MODULE = "specification::Module"
NOT_MERGED = {"name": "the destination keeps its own name", "long_identifier": "the destination keeps its own description",
              "a2lcomment": "layout", "__block_info": "layout"}
ACCESSORS = re.compile(r".*::(get_mut|as_mut|iter_mut|next|iter|get|as_ref|unwrap|deref|deref_mut|into_iter|index_mut|index|contains|contains_key|any|is_some|is_none|is_empty|len|first|last|objects|compu_tabs|typedefs|eq|ne|clone)$")
EXTENDERS = re.compile(r"(std::vec::Vec::push|itemlist::ItemList::push)$")


_ITER_CALLS = re.compile(r"(Iterator::next|IntoIterator::into_iter|::iter_mut|::iter|::into_iter|Deref::deref|DerefMut::deref_mut|::as_mut|::as_ref|::next)$")


def base_local(b, l, depth=0, trace=None):
    """the local whose value `l` is a view of: through copies, references, field projections, and the iteration calls
    (into_iter / iter_mut / next).  `trace` collects the blocks of the `next` calls passed (loop heads)"""
    if depth > 16 or 1 <= l <= b.argc:
        return l
    defs = []
    for bi, blk in enumerate(b.blocks):
        if blk["cleanup"]:
            continue
        for st in blk["s"]:
            if st["k"] == "assign" and not st["p"]["p"] and st["p"]["l"] == l:
                defs.append(("s", st, bi))
        t = blk["t"]
        if t["k"] == "call" and t.get("dest") and not t["dest"]["p"] and t["dest"]["l"] == l:
            defs.append(("c", t, bi))
    if len(defs) != 1:
        return l
    k, d, bi = defs[0]
    if k == "s":
        rv = d["rv"]
        pl = rv["p"] if rv["r"] == "ref" else (mir.op_place(rv["a"]) if rv["r"] in ("use", "cast") else None)
        if pl is None:
            return l
        return base_local(b, pl["l"], depth + 1, trace)
    nm = mir.strip_generics((d.get("res") or "").lstrip("?"))
    if _ITER_CALLS.search(nm) and d["args"]:
        ip = mir.op_place(d["args"][0])
        if ip is not None:
            if trace is not None and (nm.endswith("::next")):
                trace.append(bi)
            return base_local(b, ip["l"], depth + 1, trace)
    return l


def _satisfiable(f):
    """is the formula satisfiable (truth table over its subjects; formulas here are small)"""
    import itertools
    from . import guards
    subs = {}
    guards._subjects(f, subs)
    keys = sorted(subs)
    doms = [sorted(subs[k]) + ["\0other"] if k[0] == "e" else [True, False] for k in keys]
    n = 1
    for d in doms:
        n *= len(d)
    if n > 200000:
        return True
    for combo in itertools.product(*doms):
        if guards._eval(f, dict(zip(keys, combo))):
            return True
    return False


def pred_table(prog):
    """what the predicate closures and bool helpers of merge.rs test (e.g. the duplicate test of merge_user_rights)"""
    from . import diag
    A = sym.Analyzer(prog, opaque=[r"merge::.*"])
    fids = sorted(f for f, b in prog.bodies.items() if b.file == "a2lfile/src/merge.rs" and b.kind != "Closure" and "::test" not in f)
    return diag.module_table(prog, A, fids, re.compile(r"$^"), cursors=False)


def r08_listeq(chk, prog, rule="R08-listeq"):
    """the generated PartialEq impls (R08-eq) compare sub-element lists with ItemList's hand-written `==`: that one is equality of the
    whole item sequences -- the standard Vec/slice equality on both `items` fields, or an explicit equal-length test next to an
    element-wise comparison.  (A pairwise comparison alone accepts a prefix: an element of B with more sub-items than its twin
    in A would count as identical and be dropped.)"""
    from . import guards
    n = 0
    for fid, b in sorted(prog.bodies.items()):
        if b.trait_item != "std::cmp::PartialEq::eq" or "itemlist::ItemList" not in (b.impl_of or fid):
            continue
        n += 1
        refd = {}
        for bi, si, st in b.stmts():
            if st["k"] == "assign" and not st["p"]["p"] and st["rv"]["r"] == "ref":
                pl = st["rv"]["p"]
                flds = [x["f"] for x in pl["p"] if isinstance(x, dict) and "f" in x]
                refd[st["p"]["l"]] = (guards.resolve_copy(b, pl["l"]), tuple(flds))
        whole = False
        for bi, t in b.calls():
            nm = t.get("res") or ""
            if re.search(r"(std::vec::partial_eq|core::slice::cmp|core::array::equality).*PartialEq.*::eq$", nm) and len(t["args"]) == 2:
                ops = []
                for a in t["args"]:
                    pl = mir.op_place(a)
                    ops.append(refd.get(guards.resolve_copy(b, pl["l"])) if pl is not None and not pl["p"] else None)
                if None not in ops and {ops[0][0], ops[1][0]} == {1, 2} and ops[0][1] == ops[1][1] == ("items",):
                    # and the function's result is this comparison
                    S = sym.Analyzer(prog).summary(fid)
                    F = guards.value_formula(b, S, 0)
                    iv = guards.implied_values(F) if F not in (True, None) else {}
                    if any(k[1].startswith("eq(") and v == {True} for k, v in (iv or {}).items()):
                        whole = True
        lens = False
        S = sym.Analyzer(prog).summary(fid)
        F = guards.value_formula(b, S, 0)
        iv = guards.implied_values(F) if F not in (True, None) else {}
        def conjuncts(f):
            if isinstance(f, list) and f and f[0] == "and":
                for x in f[1:]:
                    yield from conjuncts(x)
            else:
                yield f
        for c in conjuncts(F):
            if isinstance(c, list) and c[0] == "e" and c[3] is True and len(c[2]) == 1:
                sides = [c[1], c[2][0]]
                if all(re.fullmatch(r"len\(arg[12](\.items)?\)", x) for x in sides) and {x[7] for x in sides} == {"1", "2"}:
                    lens = True
        if lens:
            # ... next to an element-wise comparison *by position*: both item sequences zipped
            zipped = False
            for ev in S.events:
                if ev[0] == "call" and ev[3] == fid and mir.strip_generics(ev[1]).endswith("::zip") and len(ev[2]) >= 2:
                    a0 = " ".join(sym.fmt(t) for t in ev[2][0])
                    a1 = " ".join(sym.fmt(t) for t in ev[2][1])
                    if ("arg1" in a0 and "arg2" in a1) or ("arg2" in a0 and "arg1" in a1):
                        zipped = True
            lens = zipped
        if not (whole or lens):
            chk.add(Finding(rule, "%s::%s" % (rule, mir.strip_generics(fid)), "%s is not an equality of the whole item sequences (neither Vec/slice `==` on both `items` fields nor an equal-length test that the result depends on): lists of different length can compare equal, so merge treats an element with additional sub-items as identical and drops it" % fid, b.where()))
    chk.rule(rule, "hand-written equality of ItemList: whole-sequence equality", n, floor=1)


def run(chk):
    genrules.r_eq(chk, rule_complete="R08-eq", rule_layout=None)
    r08_listeq(chk, mir.prog())
    from . import c13, textrules
    c13.shared(chk, "R08-list", "merge compares and looks up elements of both modules through ItemList")
    # duplicate / identity tests written as closures (`any(|x| x.user_level_id == y.user_level_id)`): what they compare, and how
    from . import diag
    diag.compare(chk, "R08-pred", "mergepred", pred_table(mir.prog()), "predicate closures and bool helpers of merge.rs (what is compared to decide that B's element already exists), compared with the reviewed table", floor=1)
    # "identical elements are shared": IF_DATA payloads are part of the comparison, and they are compared for equality
    from . import c01
    c01.r01_eq_ifdata(chk, rule="R08-eq-ifdata", rule_count="R08-eq-ifdata")
    prog = mir.prog()
    mf = mergefacts.MergeFacts(prog)
    if mf.S is None:
        chk.add(Finding("R08-fields", "R08-fields::anchor", "merge::merge_modules not found"))
        return
    S = mf.S
    adt = prog.adts.get(MODULE)
    # ------------------------------------------------------------------ R08-ns (tables)
    for desc, ev in mf.table_problems:
        chk.add(Finding("R08-ns", "R08-ns::table::" + desc, "action/rename table computed from lists of different namespaces or sides: " + desc, prog.bodies[ev[3]].where(ev[4])))
    chk.rule("R08-ns", "calculate_item_actions calls: (destination list, merged-in list) of the same namespace", len(mf.tables) + len(mf.table_problems), floor=9)

    # ------------------------------------------------------------------ effects on the destination
    dest_fields = {}
    nframe = 0
    pushes = []
    for ev in S.events:
        if ev[0] == "write":
            r, pth = refs.term_path(ev[1])
            if r != ("param", 1) or not pth:
                continue
            nframe += 1
            top = pth.split("/")[0]
            srcs = {refs.term_path(v) for v in ev[2]}
            from2 = [pp for (rr, pp) in srcs if rr == ("param", 2)]
            if from2 and all(pp == pth or pp.startswith(pth) for pp in from2):
                dest_fields.setdefault(top, []).append(("fill", pth, ev))
            elif not ev[2]:
                dest_fields.setdefault(top, []).append(("fill?", pth, ev))
            else:
                fn = prog.bodies.get(ev[3])
                chk.add(Finding("R08-frame", "R08-frame::write::" + pth, "the destination module's %s is overwritten with %s" % (pth, sorted(sym.fmt(v) for v in ev[2])[:3]), fn.where(ev[4]) if fn else ""))
        elif ev[0] == "call" and ev[2] and ev[7] and ev[7][0].startswith("&mut"):
            roots = {refs.term_path(t) for t in ev[2][0]}
            p1 = sorted(pp for (rr, pp) in roots if rr == ("param", 1))
            if not p1:
                continue
            if ev[1].startswith("merge::") or ACCESSORS.match(ev[1]) or ev[1].endswith("::reset_location") or ev[1].endswith("::merge_includes"):
                continue
            nframe += 1
            fn = prog.bodies.get(ev[3])
            if EXTENDERS.search(ev[1]):
                for pth in p1:
                    if pth:
                        dest_fields.setdefault(pth.split("/")[0], []).append(("push", pth, ev))
                        pushes.append((pth, ev))
                continue
            chk.add(Finding("R08-frame", "R08-frame::call::%s::%s" % (ev[1], ",".join(p1)), "merge applies %s to the destination module's %s: existing content of A may be removed or reordered" % (ev[1], ",".join(p1)), fn.where(ev[4]) if fn else ""))
    chk.rule("R08-frame", "writes and mutating calls on the destination module limited to pushes and fills", nframe, floor=51)

    # ------------------------------------------------------------------ R08-fields
    nf = 0
    if adt is None:
        chk.add(Finding("R08-fields", "R08-fields::anchor", "struct specification::Module not found"))
    else:
        for f in adt["variants"][0]["fields"]:
            if f["name"] in NOT_MERGED:
                continue
            nf += 1
            key = "Module." + f["name"]
            got = dest_fields.get(key, [])
            ok = False
            for kind, pth, ev in got:
                vals = ev[2] if kind != "push" else (ev[2][1] if len(ev[2]) > 1 else frozenset())
                for v in vals:
                    rr, pp = refs.term_path(v)
                    if rr == ("param", 2) and pp.split("/")[0] == key:
                        ok = True
            if not ok:
                chk.add(Finding("R08-fields", "R08-fields::" + key, "no merge step takes %s over from the merged-in module: B's %s content is lost" % (key, f["name"].upper()), "a2lfile/src/merge.rs"))
    chk.rule("R08-fields", "fields of Module that some merge step fills from the merged-in module", nf, floor=26)

    # ------------------------------------------------------------------ R08-frame (fills only when empty) + R08-move
    A = mf.A
    nmove = 0
    nfill = 0
    nreset = 0
    for fid in sorted(prog.reachable(["merge::merge_modules"])):
        if not fid.startswith("merge::"):
            continue
        b = prog.bodies[fid]
        Sf = A.summary(fid)
        if Sf is None:
            continue
        for ev in Sf.events:
            if ev[0] == "write" and ev[3] == fid:
                r, pth = refs.term_path(ev[1])
                if not (isinstance(r, tuple) and r[0] == "param") or not pth:
                    continue
                # only destination-rooted writes: decide through the whole-merge facts (param 1 of merge_modules); here: writes whose value comes from the other module parameter
                vr = {refs.term_path(v)[0] for v in ev[2]}
                others = {x for x in vr if isinstance(x, tuple) and x[0] == "param" and x != r}
                if not others or mergefacts.lookups_in(ev[2]):
                    continue
                nfill += 1
                if "/" not in pth:
                    # a whole element of the module (MOD_PAR, MOD_COMMON, A2ML, VARIANT_CODING, ..) taken over from B: it forgets its
                    # position in B's file (reset_location on a value of that element type in the same merge step)
                    fld = pth.split(".")[-1]
                    madt = prog.adts.get("specification::Module")
                    fty = next((f["ty"] for f in madt["variants"][0]["fields"] if f["name"] == fld), "") if madt else ""
                    m_el = re.search(r"specification::(\w+)", fty)
                    if m_el and not fty.startswith("std::vec::Vec") and "ItemList" not in fty:
                        nreset += 1
                        el = m_el.group(1)
                        has = any(mir.strip_generics((t.get("res") or "").lstrip("?")).endswith("::reset_location") and ("specification::%s " % el in (t.get("res") or "") or "specification::%s>" % el in (t.get("res") or "") or "<specification::%s as" % el in (t.get("res") or "")) for bi, t in b.calls())
                        if not has:
                            chk.add(Finding("R08-reset", "R08-reset::%s::%s" % (mir.strip_generics(fid), pth), "%s takes %s over from the merged-in module without reset_location(): the element keeps the uid/line of its source file and is written at a foreign position" % (fid, pth), b.where(ev[4])))
                    elif m_el and (fty.startswith("std::vec::Vec") or "ItemList" in fty):
                        # a whole list taken over from B: every element is reset -- a loop over *the value that is stored* (not over
                        # the source field, which is empty after the take) calls reset_location, and that loop is passed on the way
                        # to the store
                        nreset += 1
                        wl = None
                        for st_ in b.blocks[ev[5]]["s"]:
                            if st_["k"] == "assign" and st_["ln"] == ev[4] and st_["rv"]["r"] == "use" and st_["p"]["p"] and isinstance(st_["p"]["p"][-1], dict) and st_["p"]["p"][-1].get("f") == fld:
                                op = mir.op_place(st_["rv"]["a"])
                                if op is not None and not op["p"]:
                                    wl = op["l"]
                        okr = False
                        if wl is not None:
                            wbase = base_local(b, wl)
                            for bi, t in b.calls():
                                if mir.strip_generics((t.get("res") or "").lstrip("?")).endswith("::reset_location") and t["args"]:
                                    rp = mir.op_place(t["args"][0])
                                    if rp is None:
                                        continue
                                    chain = []
                                    rbase = base_local(b, rp["l"], trace=chain)
                                    heads = [x for x in chain if x is not None]
                                    if rbase == wbase and (not heads or any(b.dominates(h, ev[5]) for h in heads)):
                                        okr = True
                        if not okr:
                            chk.add(Finding("R08-reset", "R08-reset::%s::%s" % (mir.strip_generics(fid), pth), "%s takes the list %s over from the merged-in module, but no loop over the stored value resets the location of its elements before the store (they keep the uid/line of their source file and are written at a foreign position; sort_new_items() treats them as already placed)" % (fid, pth), b.where(ev[4])))
                subj_ok = False
                for (sb, taken) in b.control_deps_closure(ev[5]):
                    for st in c09.switch_subject(b, Sf, sb):
                        rr, pp = refs.term_path(st) if not (isinstance(st, tuple) and st[0] == "call") else (None, None)
                        if isinstance(st, tuple) and st[0] == "call" and re.search(r"is_none|is_some|is_empty", st[1]):
                            for a in st[2]:
                                if a is not None:
                                    ar, ap = refs.term_path(a)
                                    if ar == r and (ap == pth or pth.startswith(ap)):
                                        subj_ok = True
                        elif rr == r and pp and (pp == pth or pth.startswith(pp + "/") or pp.startswith(pth)):
                            subj_ok = True
                if not subj_ok:
                    chk.add(Finding("R08-frame", "R08-frame::fill::%s::%s" % (mir.strip_generics(fid), pth), "%s assigns %s from the other module without first testing that the destination has none: existing content of A would be replaced" % (fid, pth), b.where(ev[4])))
            if ev[0] == "call" and ev[3] == fid and EXTENDERS.search(ev[1]) and len(ev[2]) >= 2:
                dst = {refs.term_path(t) for t in ev[2][0]}
                src = {refs.term_path(t) for t in ev[2][1]}
                dparams = [(rr, pp) for rr, pp in dst if isinstance(rr, tuple) and rr[0] == "param" and pp]
                sparams = [(rr, pp) for rr, pp in src if isinstance(rr, tuple) and rr[0] == "param" and pp]
                if not dparams or not sparams:
                    continue
                if all(dr == sr for dr, _ in dparams for sr, _ in sparams):
                    continue      # pushes within one module (not a transfer)
                nmove += 1
                # the moved element forgets its position in the file it came from (uid, line, include file) before it is stored:
                # otherwise sort_new_items() / the writer treat it as an element that already has a place in the destination file
                pt = b.blocks[ev[6]]["t"]
                el = mir.op_place(pt["args"][1]) if len(pt["args"]) > 1 else None
                if el is not None and (b.locals[el["l"]].get("adt") or "").startswith("specification::"):
                    from . import c10
                    eroot = c10.value_root(b, el["l"])
                    resets = [(bi, t) for bi, t in b.calls() if mir.strip_generics((t.get("res") or "").lstrip("?")).endswith("::reset_location") and t["args"] and mir.op_place(t["args"][0]) is not None
                              and c10.value_root(b, mir.op_place(t["args"][0])["l"]) == eroot]
                    nreset += 1
                    if not any(b.dominates(bi, ev[6]) for bi, t in resets):
                        for dr, dp in dparams:
                            chk.add(Finding("R08-reset", "R08-reset::%s::%s" % (mir.strip_generics(fid), dp), "%s stores an element of the merged-in module in %s without reset_location(): it keeps the uid and line of its source file, so it is written at a foreign position and sort_new_items() treats it as already placed" % (fid, dp), b.where(ev[4])))
                for dr, dp in dparams:
                    if not any(sp == dp or sp.startswith(dp) for sr, sp in sparams if sr != dr):
                        chk.add(Finding("R08-move", "R08-move::%s::%s" % (mir.strip_generics(fid), dp), "%s pushes elements of %s into %s: wrong list" % (fid, sorted(sp for _, sp in sparams), dp), b.where(ev[4])))
                    ns = refs.ns_of_list_path(dp)
                    if ns in set(mf_tables_local(A, fid).values()) or ns in set(mf.tables.values()):
                        # the push must be control dependent on a lookup in the action table of this namespace
                        ok = False
                        tabs = []
                        for (sb, taken) in b.control_deps_closure(ev[6]):
                            for st in c09.switch_subject(b, Sf, sb):
                                for lk in mergefacts.lookups_in({st}):
                                    tns, which = local_table_ns(A, fid, lk[1])
                                    tabs.append((tns, which))
                                    if tns == ns and which == "#0":
                                        ok = True
                        if not ok and ns not in ("function", "group", "user"):
                            chk.add(Finding("R08-move", "R08-move::action::%s::%s" % (mir.strip_generics(fid), dp), "elements are moved into %s (namespace %s) under the action table of %s: duplicates or losses in that namespace" % (dp, ns, sorted(set(str(t) for t in tabs)) or "no table"), b.where(ev[4])))
    # ------------------------------------------------------------------ R08-union
    # same-name GROUP / FUNCTION: for every optional reference list that is united when both sides have it, B's list is taken
    # over when only B has it (the two arms of one `match (a, b)`): otherwise B's members are lost whenever A has none
    nun = 0
    unions, fills = {}, set()
    for ev in mf.S.events:
        if ev[0] == "call" and ev[1].endswith("Vec::push") and ev[2]:
            for t in ev[2][0]:
                r, pth = refs.term_path(t)
                if r == ("param", 1) and pth and re.search(r"\.(identifier_list|name_list)$", pth):
                    unions[pth.rsplit("/", 1)[0]] = ev
        if ev[0] == "write":
            r, pth = refs.term_path(ev[1])
            if r == ("param", 1) and pth and any(refs.term_path(v)[0] == ("param", 2) for v in ev[2]):
                fills.add(pth)
    from . import guards
    for ev in mf.S.events:
        if ev[0] != "write":
            continue
        r, pth = refs.term_path(ev[1])
        if not (r == ("param", 1) and pth in unions and any(refs.term_path(v)[0] == ("param", 2) for v in ev[2])):
            continue
        # position of this write inside its own function, and the condition under which it is reached there
        fb = prog.bodies.get(ev[3])
        Sl = mf.A.summary(ev[3]) if fb is not None else None
        blocks = [x[5] for x in (Sl.events if Sl else []) if x[0] == "write" and x[3] == ev[3] and x[4] == ev[4]]
        dest = "arg1." + ".".join(seg.split(".")[-1] for seg in pth.split("/"))
        for blk in blocks[:1]:
            F = guards.reach_formula(fb, Sl, blk)
            # the destination's own list must be known to be absent: discr(<dest>) == Some is implied false
            okd = False
            def walk(f, acc):
                if isinstance(f, list) and f and f[0] in ("and", "or"):
                    for x in f[1:]:
                        walk(x, acc)
                elif isinstance(f, list) and f and f[0] == "e":
                    acc.append(f)
            atoms = []
            walk(F, atoms)
            tests = [a for a in atoms if a[1] == "discr(%s)" % dest and a[2] == ["Some"]]
            if tests:
                # evaluate: is there a satisfying assignment of F in which dest is Some?
                G = ["and", F, ["e", "discr(%s)" % dest, ["Some"], True]]
                okd = not _satisfiable(G)
            if not okd:
                chk.add(Finding("R08-union", "R08-union::overwrite::" + pth, "%s is assigned from the merged-in element also where the destination already has such a list: A's members are replaced (or removed, when the merged-in element has none)" % pth, fb.where(ev[4]) if fb else ""))
    # any other field of one of A's own elements that receives a value from B: only where A's field is known to be absent
    # ("every element of A is kept unchanged; GROUPs and FUNCTIONs may only gain members")
    nover = 0
    for ev in mf.S.events:
        if ev[0] != "write":
            continue
        r, pth = refs.term_path(ev[1])
        if not (r == ("param", 1) and pth and "/" in pth and pth not in unions and any(refs.term_path(v)[0] == ("param", 2) for v in ev[2])):
            continue
        if mergefacts.lookups_in(ev[2]):
            continue
        fb = prog.bodies.get(ev[3])
        Sl = mf.A.summary(ev[3]) if fb is not None else None
        blocks = [x[5] for x in (Sl.events if Sl else []) if x[0] == "write" and x[3] == ev[3] and x[4] == ev[4]]
        if not blocks:
            continue
        nover += 1
        dest = "arg1." + ".".join(seg.split(".")[-1] for seg in pth.split("/"))
        F = guards.reach_formula(fb, Sl, blocks[0])
        absent = False
        d = dest
        while "." in d and not absent:
            G = ["and", F, ["e", "discr(%s)" % d, ["Some"], True]] if F is not True else ["e", "discr(%s)" % d, ["Some"], True]
            atoms = []
            def walk(f, acc):
                if isinstance(f, list) and f and f[0] in ("and", "or"):
                    for x in f[1:]:
                        walk(x, acc)
                elif isinstance(f, list) and f and f[0] == "e":
                    acc.append(f)
            walk(F, atoms)
            if any(a[1] == "discr(%s)" % d and a[2] == ["Some"] for a in atoms) and not _satisfiable(G):
                absent = True
            d = d.rsplit(".", 1)[0]
        if not absent:
            chk.add(Finding("R08-union", "R08-union::overwrite-field::" + pth, "%s of an element of the destination module is assigned from the merged-in module although the destination's value is not known to be absent: an element of A is changed by the merge" % pth, fb.where(ev[4])))
    # (no such write exists on the reviewed tree besides the list take-overs above: the instances are counted under R08-union)
    nun += nover
    for parent, ev in sorted(unions.items()):
        nun += 1
        if parent not in fills:
            fn = prog.bodies.get(ev[3])
            chk.add(Finding("R08-union", "R08-union::" + parent, "%s is united with the merged-in element's list when both have one, but never taken over when only the merged-in element has it: B's members are lost" % parent, fn.where(ev[4]) if fn else ""))
    chk.rule("R08-union", "optional reference lists of same-name GROUPs/FUNCTIONs: united when both exist and taken over when only B has one", nun, floor=8)
    chk.rule("R08-reset", "elements moved from the merged-in module whose location info is reset before they are stored", nreset, floor=20)
    chk.rule("R08-move", "transfers of elements from the merged-in module: same list, decided by that namespace's action table", nmove, floor=20)
    chk.rule("R08-frame-fill", "assignments of whole fields from the merged-in module guarded by a test that the destination has none", nfill, floor=8)

    # member-list coverage per namespace
    ncov = 0
    T = refs.table()
    pushed = {pth for pth, ev in pushes}
    for ns in sorted(set(mf.tables.values())):
        for lst in T["namespaces"].get(ns, []):
            ncov += 1
            if lst.replace("/", "/") not in pushed:
                chk.add(Finding("R08-ns", "R08-ns::member::" + lst, "the elements of %s (namespace %s) are never moved into the destination although the namespace has an action table" % (lst, ns), "a2lfile/src/merge.rs"))
    chk.rule("R08-ns-members", "member lists of each merged namespace moved under its table", ncov, floor=18)
    # renaming of the moved elements themselves: the name of an element of list L is rewritten from the rename table of L's namespace
    idx = c09.site_index()
    nren = 0
    renamed_defs = {}
    for (path, root, ns, which, kpath, kroot, lk, ev) in mf.rename_writes():
        site = idx.get(path)
        if site is None or site[1]["role"] != "def" or which != "#1" or ns is None:
            continue
        nren += 1
        fn = prog.bodies.get(ev[3])
        if site[1]["ns"] != ns:
            chk.add(Finding("R08-rename", "R08-rename::%s::%s" % (ns, path), "%s (namespace %s) gets its fresh name from the rename table of namespace %s: a conflicting element keeps its old name and the namespace ends up with duplicate names" % (path, site[1]["ns"], ns), fn.where(ev[4]) if fn else ""))
        elif kpath == path:
            renamed_defs.setdefault(path, set()).add(ns)
    for ns in sorted(set(mf.tables.values())):
        for lst in T["namespaces"].get(ns, []):
            defs = [pp for pp in idx if pp.startswith(lst + "/") and pp.count("/") == lst.count("/") + 1 and idx[pp][1]["role"] == "def"]
            for dp in defs:
                nren += 1
                if ns not in renamed_defs.get(dp, ()):
                    chk.add(Finding("R08-rename", "R08-rename::missing::" + dp, "elements of %s are moved without taking their fresh name from the %s rename table: same-name/different-content conflicts produce duplicate names" % (lst, ns), "a2lfile/src/merge.rs"))
    chk.rule("R08-rename", "moved elements renamed from their own namespace's rename table", nren, floor=36)
    # fresh names
    c09_unique(chk, prog, mf)
    chk.assumptions += ["not decided: the conservation statement itself over all overlap patterns (runtime)"]


_local_tables = {}


def mf_tables_local(A, fid):
    """calculate_item_actions calls visible in function fid: call term -> namespace (in terms of fid's own parameters)"""
    if fid in _local_tables:
        return _local_tables[fid]
    out = {}
    S = A.summary(fid)
    for ev in S.events:
        if ev[0] == "call" and ev[1] == "merge::calculate_item_actions":
            a0 = [t for t in ev[2][0] if not (isinstance(t, tuple) and t[0] == "var")]
            a1 = [t for t in ev[2][1] if not (isinstance(t, tuple) and t[0] == "var")]
            n0 = {mergefacts.ns_of_listterm(t)[0] for t in a0}
            n1 = {mergefacts.ns_of_listterm(t)[0] for t in a1}
            key = ("call", "merge::calculate_item_actions", (sorted(a0, key=repr)[0] if a0 else None, sorted(a1, key=repr)[0] if a1 else None))
            if len(n0) == 1 and n0 == n1:
                out[key] = list(n0)[0]
    _local_tables[fid] = out
    return out


def local_table_ns(A, fid, tterm):
    if isinstance(tterm, tuple) and tterm[0] == "f" and tterm[2] in ("#0", "#1"):
        return mf_tables_local(A, fid).get(tterm[1]), tterm[2]
    return None, None


def c09_unique(chk, prog, mf):
    b = prog.bodies.get("merge::make_unique_name")
    n = 0
    if b is None:
        chk.add(Finding("R08-unique", "R08-unique::anchor", "merge::make_unique_name not found"))
    else:
        n = 1
        S2 = sym.Analyzer(prog).summary("merge::make_unique_name")
        gets = [ev for ev in S2.events if ev[0] == "call" and re.search(r"ItemList::(get|contains_key|index)$", ev[1])]
        roots = set()
        for ev in gets:
            for t in ev[2][0]:
                if isinstance(t, tuple) and t[0] == "param":
                    roots.add(t[1])
        if len(roots) < 2:
            chk.add(Finding("R08-unique", "R08-unique::lists", "make_unique_name checks a candidate name against %d list parameter(s); a fresh name must be free in both modules" % len(roots), b.where()))
        # fresh names of *different* elements of one run must differ although candidates are only tested against the two input
        # lists: the scheme in the source is `<current name>.MERGE<n>`, which is injective in the current name because the unmodified
        # name is a prefix.  Each candidate is therefore formatted from the parameter itself (not from a shortened/normalised copy,
        # which maps two names to one candidate sequence)
        def origins(l, depth=0, seen=None):
            seen = set() if seen is None else seen
            if l in seen or depth > 10:
                return set()
            seen.add(l)
            if 1 <= l <= b.argc:
                return {"param:%d" % l}
            out = set()
            for blk in b.blocks:
                for st in blk["s"]:
                    if st["k"] == "assign" and not st["p"]["p"] and st["p"]["l"] == l:
                        rv = st["rv"]
                        pl = rv["p"] if rv["r"] == "ref" else (mir.op_place(rv["a"]) if rv["r"] == "use" else None)
                        if pl is not None and all(x == "*" for x in pl["p"]):
                            out |= origins(pl["l"], depth + 1, seen)
                        elif pl is not None and len(pl["p"]) == 1 and isinstance(pl["p"][0], dict) and pl["p"][0].get("adt") == "(tuple)":
                            # format_args! collects its arguments in a tuple first
                            found = False
                            for blk2 in b.blocks:
                                for st2 in blk2["s"]:
                                    if st2["k"] == "assign" and not st2["p"]["p"] and st2["p"]["l"] == pl["l"] and st2["rv"]["r"] == "agg" and st2["rv"].get("kind") == "tuple":
                                        op2 = mir.op_place(st2["rv"]["ops"][pl["p"][0]["i"]])
                                        if op2 is not None and not op2["p"]:
                                            out |= origins(op2["l"], depth + 1, seen)
                                            found = True
                            if not found:
                                out.add("expr")
                        else:
                            out.add("expr")
                t = blk["t"]
                if t["k"] == "call" and t.get("dest") and not t["dest"]["p"] and t["dest"]["l"] == l:
                    out.add("call:" + mir.strip_generics(t.get("res") or "?"))
            return out
        for bi, t in b.calls():
            if mir.strip_generics(t.get("res") or "").endswith("Argument::new_display") and "str" in str(t.get("ga") or t["f"].get("ty", "")):
                pl = mir.op_place(t["args"][0])
                og = origins(pl["l"]) if pl is not None else {"expr"}
                n += 1
                if og != {"param:1"}:
                    chk.add(Finding("R08-unique", "R08-unique::prefix", "make_unique_name formats a candidate from %s, not from the current name itself: two different names can be given the same fresh name in one merge" % sorted(og), b.where(t["ln"])))
        S3 = sym.Analyzer(prog, opaque=[r"merge::make_unique_name"]).summary("merge::calculate_item_actions")
        for ev in S3.events:
            if ev[0] == "call" and ev[1] == "merge::make_unique_name":
                n += 1
                ps = set()
                for a in ev[2][1:]:
                    ps |= {x[1] for x in a if isinstance(x, tuple) and x[0] == "param"}
                if not ({1, 2} <= ps):
                    chk.add(Finding("R08-unique", "R08-unique::args", "calculate_item_actions does not pass both the destination and the merged-in list to make_unique_name: names are not unique within the namespace afterwards", prog.bodies["merge::calculate_item_actions"].where(ev[4])))
    chk.rule("R08-unique", "fresh names checked against both lists", n, floor=2)
