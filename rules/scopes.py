"""function scopes the panic / termination rules range over (computed from the call graph of the current tree)"""

LOAD_ROOTS = ["load", "load_from_string", "load_fragment", "load_fragment_file"]


def load_scope(prog):
    return prog.reachable([r for r in LOAD_ROOTS if r in prog.bodies])


def check_scope(prog):
    return prog.reachable(["checker::check"]) if "checker::check" in prog.bodies else set()


def itemlist_scope(prog):
    return {b.id for b in prog.bodies.values() if "itemlist::ItemList" in b.id}


def sort_scope(prog):
    return prog.reachable([r for r in ("sort::sort", "sort::sort_new_items") if r in prog.bodies])


def decode_scope(prog):
    return {f for f in ("loader::load", "loader::read_data", "loader::decode_raw_bytes") if f in prog.bodies} | \
        {b.id for b in prog.bodies.values() if b.parent in ("loader::load", "loader::read_data", "loader::decode_raw_bytes")}


def ifdata_access_scope(prog):
    return {b.id for b in prog.bodies.values() if b.id.startswith("a2ml::GenericIfData::get_") or (b.parent or "").startswith("a2ml::GenericIfData::get_")}


def all_scopes(prog):
    return {"load": load_scope(prog), "check": check_scope(prog), "itemlist": itemlist_scope(prog), "sort": sort_scope(prog),
            "decode": decode_scope(prog), "ifdata_access": ifdata_access_scope(prog)}
