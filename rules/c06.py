"""C06 Strict and non-strict loading agree except on recoverable problems (structural clauses; DESIGN.md section 3, C06)

R06-single  ParserState.strict is read in exactly one function (error_or_log): the modes can only differ through it
R06-prop    the Result of every error_or_log call is propagated (`?` / returned), never dropped
R06-warn    log_warning outside error_or_log only carries deprecation notices
R06-swallow places where a Result<_, ParserError> is not propagated belong to the reviewed list of speculative-parsing idioms
R06-class   channel and conditions of every diagnostic site of the parser equal the reviewed table
R06-loc     diagnostics take their line from last_token_position and their file from filenames[<context|token>.fileid]
R06-order   a diagnostic is constructed before the function consumes further tokens (so it carries the line of the offending token)
R06-peek    a diagnostic about a token that was only peeked at is constructed after the token was consumed (last_token_position)
"""
import json
import os
import re
from . import common, mir, sym, guards, diag, scopes
from .common import Finding

STATE = "parser::ParserState"
EOL = "parser::ParserState::<'a>::error_or_log"
LOGW = "parser::ParserState::<'a>::log_warning"
DEPRECATION = {"ParserError::BlockRefDeprecated", "ParserError::EnumRefDeprecated"}
CONSUMERS = re.compile(r"parser::(ParserState::(get_token|expect_token|get_identifier|get_string|get_string_maxlen|get_integer|get_float|get_double|get_next_tag_or_comment)|TokenIter::next)$")
SWALLOW = re.compile(r"std::result::Result::(is_err|is_ok|ok|err|map_err|unwrap_or|unwrap_or_default|unwrap_or_else|and_then|or_else|as_deref|as_ref|map_or|map_or_else|iter)$|std::mem::drop$")
PARSER_FILES = ("a2lfile/src/parser.rs", "a2lfile/src/ifdata.rs", "a2lfile/src/lib.rs", "a2lfile/src/specification.rs")


def diag_effect(b, S, ev):
    nm = ev[1]
    if nm.endswith("ParserState::error_or_log"):
        return "error_or_log " + guards.error_variant(b, ev[6])
    if nm.endswith("ParserState::log_warning"):
        return "log_warning " + guards.error_variant(b, ev[6])
    if re.search(r"parser::ParserError::[a-z_]+$", nm):
        return "construct " + nm.split("::")[-1]
    return None


def parser_table(prog):
    A = sym.Analyzer(prog, opaque=[r"parser::.*", r"ifdata::.*", r"a2ml::.*", r"specification::.*", r"<specification::.*"])
    fids = [f for f, b in prog.bodies.items() if b.file in ("a2lfile/src/parser.rs", "a2lfile/src/ifdata.rs", "a2lfile/src/lib.rs")]
    t = diag.table_for(prog, A, fids, diag_effect)
    # errors built as struct literals and returned directly (require_block / require_keyword / ...)
    for fid in fids:
        rows = diag.agg_rows(prog, A, fid, {"parser::ParserError"})
        if rows:
            have = t.setdefault(mir.strip_generics(fid), [])
            carried = {r[0].split(" ", 1)[1] for r in have if r[0].startswith(("error_or_log", "log_warning"))}
            for r in rows:
                if "ParserError::" + r[0].split("::")[-1] in carried:
                    continue        # already a row of the channel that carries it
                have.append(r)
            have.sort(key=lambda r: (r[0], r[1]))
    return t


def r06_pos(chk, prog, rule="R06-pos"):
    """diagnostics take their line from ParserState.last_token_position, which get_token() sets for every token it hands out: a token
    is taken from the cursor directly (TokenIter::next) only inside get_token, or where the token just peeked is a comment (comments
    never are the position of a diagnostic)"""
    from . import sym
    n = 0
    for fid, b in sorted(prog.bodies.items()):
        sites = [(bi, t) for bi, t in b.calls() if mir.strip_generics(t.get("res") or "") == "parser::TokenIter::next"]
        if not sites:
            continue
        fn = mir.strip_generics(fid)
        S = None
        for bi, t in sites:
            n += 1
            if fn == "parser::ParserState::get_token":
                continue
            if S is None:
                S = sym.Analyzer(prog, opaque=[r".*"]).summary(fid)
            gs = guards.guard_set(b, S, bi)
            if not any(re.fullmatch(r"discr\(.*ttype\) == Comment", g) for g in gs):
                chk.add(Finding(rule, "%s::%s" % (rule, fn), "%s takes a token from the cursor without get_token() although the token is not known to be a comment: last_token_position is not updated, so a diagnostic raised next carries the line of an earlier token" % fid, b.where(t["ln"])))
    chk.rule(rule, "direct TokenIter::next calls: inside get_token, or for a peeked comment", n, floor=2)


def _count_span(b, ops, st):
    """(start local, end local) of the slice `text[a..b]` handed to the count_newlines() call whose result is added in statement st"""
    for o in ops:
        if o is None or o["p"]:
            continue
        for bj, t in b.calls():
            if t.get("dest") and not t["dest"]["p"] and t["dest"]["l"] == o["l"] and mir.strip_generics(t.get("res") or "").endswith("count_newlines") and t["args"]:
                l = mir.op_place(t["args"][0])
                for _ in range(6):
                    if l is None or l["p"]:
                        return None
                    nxt = None
                    for bk, t2 in b.calls():
                        if t2.get("dest") and not t2["dest"]["p"] and t2["dest"]["l"] == l["l"] and re.search(r"::index$", mir.strip_generics(t2.get("res") or "")) and len(t2["args"]) == 2:
                            rp = mir.op_place(t2["args"][1])
                            if rp is None or rp["p"]:
                                return None
                            for bm, sm, s4 in b.stmts():
                                if s4["k"] == "assign" and not s4["p"]["p"] and s4["p"]["l"] == rp["l"] and s4["rv"]["r"] == "agg" and "Range" in (s4["rv"].get("adt") or "") and len(s4["rv"]["ops"]) == 2:
                                    a_, e_ = mir.op_place(s4["rv"]["ops"][0]), mir.op_place(s4["rv"]["ops"][1])
                                    if a_ is not None and e_ is not None and not a_["p"] and not e_["p"]:
                                        return (guards.resolve_copy(b, a_["l"]), guards.resolve_copy(b, e_["l"]))
                            return None
                    for bk, sk, s5 in b.stmts():
                        if s5["k"] == "assign" and not s5["p"]["p"] and s5["p"]["l"] == l["l"] and s5["rv"]["r"] in ("ref", "use"):
                            nxt = s5["rv"]["p"] if s5["rv"]["r"] == "ref" else mir.op_place(s5["rv"]["a"])
                            if nxt is not None and nxt["p"] and all(x == "*" for x in nxt["p"]):
                                nxt = {"l": nxt["l"], "p": []}
                    l = nxt
    return None


def r06_line(chk, prog, rule="R06-line"):
    """token lines (and through them the position of every diagnostic) come from one counter per scan: in tokenizer.rs every
    addition to a u32 line counter adds the result of count_newlines() over a span of the text (no second way of counting that
    could skip part of the text)"""
    n = 0
    for fid, b in sorted(prog.bodies.items()):
        if b.file != "a2lfile/src/tokenizer.rs" or "::test" in fid or fid.endswith("count_newlines"):
            continue
        for bi, si, st in b.stmts():
            if st["k"] != "assign" or st["rv"]["r"] != "bin" or not st["rv"]["op"].startswith("Add"):
                continue
            ops = [mir.op_place(st["rv"]["a"]), mir.op_place(st["rv"]["b"])]
            tys = [b.locals[o["l"]]["ty"] if o is not None and not o["p"] else None for o in ops]
            if "u32" not in tys:
                continue
            # one operand is the running counter (a named local or parameter `line` / `*line*`), the other what is added
            names = [(b.locals[o["l"]].get("n") or "") if o is not None and not o["p"] else "" for o in ops]
            if not any("line" in nm for nm in names):
                srcs = []
                for o in ops:
                    if o is not None and not o["p"]:
                        for bj, sj, s2 in b.stmts():
                            if s2["k"] == "assign" and not s2["p"]["p"] and s2["p"]["l"] == o["l"] and s2["rv"]["r"] == "use":
                                pl = mir.op_place(s2["rv"]["a"])
                                if pl is not None and not pl["p"]:
                                    srcs.append(b.locals[pl["l"]].get("n") or "")
                if not any("line" in nm for nm in srcs):
                    continue
            n += 1
            from_count = False
            for o, c in zip(ops, (st["rv"]["a"], st["rv"]["b"])):
                if o is None or o["p"]:
                    continue
                for bj, t in b.calls():
                    if t.get("dest") and not t["dest"]["p"] and t["dest"]["l"] == o["l"] and mir.strip_generics(t.get("res") or "").endswith("count_newlines"):
                        from_count = True
            if from_count:
                # ... and where a token was just built, the counted span is the token's own extent [startpos..endpos]
                # (counting beyond the end of the token counts line breaks twice that the caller sees again as whitespace)
                span = _count_span(b, ops, st)
                tok = None
                for bk, sk, s3 in b.stmts():
                    if s3["k"] == "assign" and s3["rv"]["r"] == "agg" and s3["rv"].get("adt") == "tokenizer::A2lToken" and (bk == bi or b.dominates(bk, bi)):
                        f3 = s3["rv"]["fields"]
                        e_ = mir.op_place(s3["rv"]["ops"][f3.index("endpos")])
                        s_ = mir.op_place(s3["rv"]["ops"][f3.index("startpos")])
                        if e_ is not None and s_ is not None and not e_["p"] and not s_["p"]:
                            tok = (guards.resolve_copy(b, s_["l"]), guards.resolve_copy(b, e_["l"]), bk)
                if span is not None and tok is not None and tok[2] != 0 and span[1] != tok[1]:
                    chk.add(Finding(rule, "%s::%s::span" % (rule, mir.strip_generics(fid)), "%s advances the line counter by the line breaks of a span that does not end where the token it just built ends: line breaks behind the token are counted here and again when the caller skips them as whitespace" % fid, b.where(st["ln"])))
            if not from_count:
                chk.add(Finding(rule, "%s::%s" % (rule, mir.strip_generics(fid)), "%s advances a line counter by something other than count_newlines() of the consumed text: tokens behind that point (and every diagnostic there) can carry a wrong line" % fid, b.where(st["ln"])))
    chk.rule(rule, "additions to the scanner's line counters that add count_newlines() of a text span", n, floor=4)


def r06_msg(chk, rule="R06-msg"):
    """a diagnostic is read through its Display text: for every ParserError / TokenizerError variant that carries the position of the
    problem (`filename` and `error_line`, resp. `line`), the text starts with exactly those two fields as `file:line:`; every other
    line it mentions (`block_line` ..) comes later.  (The format literal of `#[error(..)]` is the Display implementation.)"""
    from . import astq
    n = 0
    for rel, en, linefield in (("a2lfile/src/parser.rs", "ParserError", "error_line"), ("a2lfile/src/tokenizer.rs", "TokenizerError", "line")):
        e = astq.enums(rel).get(en)
        if e is None:
            chk.add(Finding(rule, "%s::%s::anchor" % (rule, en), "enum %s not found in %s" % (en, rel)))
            continue
        for v in e["variants"]:
            names = [f["name"] for f in v["fields"]]
            if "filename" not in names or linefield not in names:
                continue
            n += 1
            fmt = None
            for a in v.get("attrs", []):
                m = re.match(r'error\s*\(\s*"((?:[^"\\]|\\.)*)"', a)
                if m:
                    fmt = m.group(1)
            if fmt is None:
                chk.add(Finding(rule, "%s::%s::%s" % (rule, en, v["name"]), "%s::%s has no #[error(\"..\")] format" % (en, v["name"]), rel))
                continue
            holes = re.findall(r"\{(\w+)[^}]*\}", fmt)
            want = "{filename}:{%s}:" % linefield
            if not fmt.startswith(want) or holes[:2] != ["filename", linefield]:
                chk.add(Finding(rule, "%s::%s::%s" % (rule, en, v["name"]), "the text of %s::%s does not start with its own position `%s` (it starts with `%s`): the diagnostic is shown at a different line than the one it was detected at" % (en, v["name"], want, fmt[:40]), rel))
    chk.rule(rule, "diagnostic variants with a position whose Display text starts with `{filename}:{line}:` of that position", n, floor=26)


def run(chk):
    prog = mir.prog()
    scope = scopes.load_scope(prog)
    r06_msg(chk)
    r06_pos(chk, prog)
    r06_line(chk, prog)
    # ------------------------------------------------------------------ R06-single
    readers = set()
    n = 0
    for fid, b in prog.bodies.items():
        txt = None
        for bi, blk in enumerate(b.blocks):
            if blk["cleanup"]:
                continue
            for s in blk["s"]:
                if s["k"] != "assign":
                    continue
                for op in mir.operands_of_rvalue(s["rv"]) + ([{"c": s["rv"]["p"]}] if s["rv"]["r"] in ("ref", "discr") else []):
                    pl = mir.op_place(op)
                    if pl and any(isinstance(e, dict) and e.get("f") == "strict" and e.get("adt") == STATE for e in pl["p"]):
                        readers.add(fid)
            t = blk["t"]
            ops = [t["d"]] if t["k"] == "switch" else (t["args"] if t["k"] == "call" else [])
            for op in ops:
                pl = mir.op_place(op)
                if pl and any(isinstance(e, dict) and e.get("f") == "strict" and e.get("adt") == STATE for e in pl["p"]):
                    readers.add(fid)
        n += 1
    if EOL not in prog.bodies:
        chk.add(Finding("R06-single", "R06-single::anchor", "ParserState::error_or_log not found"))
    for r in sorted(readers - {EOL}):
        chk.add(Finding("R06-single", "R06-single::" + mir.strip_generics(r), "%s reads ParserState.strict: strict and non-strict loading can now differ outside the single decision point error_or_log" % r, prog.bodies[r].where()))
    if EOL in prog.bodies and EOL not in readers:
        chk.add(Finding("R06-single", "R06-single::unused", "error_or_log no longer reads ParserState.strict", prog.bodies[EOL].where()))
    chk.rule("R06-single", "bodies scanned for reads of ParserState.strict (allowed reader: error_or_log)", n, floor=2000)

    # ------------------------------------------------------------------ R06-prop / R06-warn
    nprop = 0
    nwarn = 0
    for fid in sorted(scope):
        b = prog.bodies[fid]
        uses = None
        for bi, t in b.calls():
            r = t.get("res")
            if r == EOL:
                nprop += 1
                dest = t["dest"]
                ok = False
                if not dest["p"]:
                    if dest["l"] == 0:
                        ok = True
                    for bj, t2 in b.calls():
                        if re.search(r"Try>?::branch$", mir.strip_generics(t2.get("res") or "")):
                            for a in t2["args"]:
                                pl = mir.op_place(a)
                                if pl is not None and pl["l"] == dest["l"] and not pl["p"]:
                                    ok = True
                    for bj, si, s in b.stmts():
                        if s["k"] == "assign" and not s["p"]["p"] and s["p"]["l"] == 0 and s["rv"]["r"] == "use":
                            pl = mir.op_place(s["rv"]["a"])
                            if pl is not None and pl["l"] == dest["l"]:
                                ok = True
                if not ok:
                    chk.add(Finding("R06-prop", "R06-prop::%s::%s" % (mir.strip_generics(fid), guards.error_variant(b, bi)), "%s calls error_or_log(%s) and drops the result: in strict mode the problem no longer makes loading fail" % (fid, guards.error_variant(b, bi)), b.where(t["ln"])))
            elif r == LOGW and fid != EOL:
                nwarn += 1
                v = guards.error_variant(b, bi)
                if v not in DEPRECATION:
                    chk.add(Finding("R06-warn", "R06-warn::%s::%s" % (mir.strip_generics(fid), v), "%s reports %s through log_warning: a problem other than a deprecation notice is only a warning in strict mode too" % (fid, v), b.where(t["ln"])))
    chk.rule("R06-prop", "error_or_log call sites on the load path whose Result is propagated", nprop, floor=70)
    chk.rule("R06-warn", "log_warning call sites outside error_or_log carrying only deprecation variants", nwarn, floor=2)

    # ------------------------------------------------------------------ R06-swallow
    nsw = 0
    sites = set()
    for fid in sorted(scope):
        b = prog.bodies[fid]
        for bi, t in b.calls():
            r = mir.strip_generics((t.get("res") or "").lstrip("?"))
            if SWALLOW.search(r) and t["args"]:
                pl = mir.op_place(t["args"][0])
                ty = b.locals[pl["l"]]["ty"] if (pl is not None and not pl["p"]) else ""
                if "ParserError" in ty and "Result<" in ty:
                    # `res.or_else(|e| { self.error_or_log(e)?; Ok(default) })`: the error is handed to the single decision point
                    # inside the closure - the same thing as `match res { Err(e) => { self.error_or_log(e)?; .. } }`
                    if re.search(r"::(or_else|map_err|unwrap_or_else)$", r) and len(t["args"]) > 1:
                        cpl = mir.op_place(t["args"][1])
                        cl = None
                        if cpl is not None and not cpl["p"]:
                            for bj, sj, st in b.stmts():
                                if st["k"] == "assign" and not st["p"]["p"] and st["p"]["l"] == cpl["l"] and st["rv"]["r"] == "agg" and st["rv"].get("kind") == "closure":
                                    cl = st["rv"].get("cl")
                        if cl in prog.bodies and any((t2.get("res") or "").endswith("error_or_log") for bj, t2 in prog.bodies[cl].calls()):
                            continue
                    nsw += 1
                    base = re.sub(r"::\{closure#\d+\}", "", mir.strip_generics(fid))
                    if base.startswith("<specification::") or base.startswith("specification::"):
                        base = "specification::<generated sequence parser>"
                    sites.add("%s | %s" % (base, r.split("::")[-1]))
        # direct pattern matches on a parser Result (if let Ok(..) = .. / while let Ok(..) / match)
        for bi, si, st in b.stmts():
            if st["k"] == "assign" and st["rv"]["r"] == "discr":
                pl = st["rv"]["p"]
                ty = b.locals[pl["l"]]["ty"] if not pl["p"] else ""
                if ty.startswith("std::result::Result<") and "ParserError" in ty:
                    nsw += 1
                    base = re.sub(r"::\{closure#\d+\}", "", mir.strip_generics(fid))
                    if base.startswith("<specification::") or base.startswith("specification::"):
                        base = "specification::<generated code>"
                    # what produced the matched Result
                    src = "?"
                    for bj, t2 in b.calls():
                        if not t2["dest"]["p"] and t2["dest"]["l"] == pl["l"] and t2.get("res"):
                            src = mir.strip_generics(t2["res"].lstrip("?")).split("::")[-1]
                    sites.add("%s | match %s" % (base, src))
    op = os.path.join(common.VERIF, "oracle", "swallow_sites.json")
    allowed = json.load(open(op))["sites"] if os.path.exists(op) else None
    if allowed is None:
        chk.add(Finding("R06-swallow", "R06-swallow::oracle", "oracle/swallow_sites.json missing"))
    else:
        # a reviewed idiom that was moved into a helper function the reviewed tree does not know keeps its review
        kn = sym.known_functions()
        idioms = {a.split(" | ", 1)[1] for a in allowed if " | " in a}
        for s in sorted(sites - set(allowed)):
            fn, idiom = s.split(" | ", 1)
            if kn is not None and fn not in kn and idiom in idioms:
                continue
            chk.add(Finding("R06-swallow", "R06-swallow::" + s, "a Result<_, ParserError> is inspected or discarded instead of propagated at `%s`: not one of the reviewed speculative-parsing idioms; an error (and in strict mode a failure) can be dropped here" % s, "a2lfile/src"))
    chk.rule("R06-swallow", "sites where a parser Result is not propagated, compared with the reviewed list", nsw, floor=10, extra={"distinct_sites": sorted(sites)})

    # ------------------------------------------------------------------ R06-log
    # the list of logged problems only grows: ParserState.log_msgs is touched by log_warning alone, and only through Vec::push
    nlog = 0
    for fid, b in sorted(prog.bodies.items()):
        uses = []
        for bi, si, s in b.stmts():
            if s["k"] != "assign":
                continue
            pls = [mir.op_place(op) for op in mir.operands_of_rvalue(s["rv"])] + ([s["rv"]["p"]] if s["rv"]["r"] in ("ref", "discr", "len") else []) + [s["p"]]
            if any(pl and any(isinstance(e, dict) and e.get("f") == "log_msgs" and e.get("adt") == STATE for e in pl["p"]) for pl in pls):
                uses.append((bi, s))
        for bi, t in b.calls():
            for a in t["args"]:
                pl = mir.op_place(a)
                if pl and any(isinstance(e, dict) and e.get("f") == "log_msgs" and e.get("adt") == STATE for e in pl["p"]):
                    uses.append((bi, t))
        if not uses:
            continue
        nlog += len(uses)
        if not mir.strip_generics(fid).endswith("ParserState::log_warning"):
            chk.add(Finding("R06-log", "R06-log::" + mir.strip_generics(fid), "%s accesses ParserState.log_msgs directly: problems reported in non-strict mode may only be appended by log_warning, never cleared, replaced or reordered" % fid, b.where(uses[0][1].get("ln"))))
        else:
            muts = sorted({mir.strip_generics((t.get("res") or "").lstrip("?")) for bi, t in b.calls() if t["args"] and "Vec<" in (b.locals[mir.op_place(t["args"][0])["l"]]["ty"] if mir.op_place(t["args"][0]) else "")})
            for m in muts:
                if not m.endswith("Vec::push"):
                    chk.add(Finding("R06-log", "R06-log::log_warning::" + m, "log_warning applies %s to the problem list (expected: push only)" % m, b.where()))
    chk.rule("R06-log", "accesses to ParserState.log_msgs (allowed: log_warning, push only)", nlog, floor=1)

    # ------------------------------------------------------------------ R06-class
    diag.compare(chk, "R06-class", "parser", parser_table(prog), "diagnostic sites of parser.rs / ifdata.rs / lib.rs: channel, variant and control predicates compared with the reviewed table", floor=13,
                 row_filter=lambda r: r[0].startswith("error_or_log") or r[0].startswith("log_warning"))

    # ------------------------------------------------------------------ R06-loc
    nloc = 0
    A = sym.Analyzer(prog, opaque=[r"parser::.*", r"ifdata::.*", r"a2ml::.*", r"<specification::.*", r"specification::.*"])
    for fid in sorted(scope):
        b = prog.bodies[fid]
        if b.file not in PARSER_FILES:
            continue
        S = None
        for bi, si, s in b.stmts():
            if s["k"] == "assign" and s["rv"]["r"] == "agg" and s["rv"].get("kind") == "adt" and s["rv"]["adt"] == "parser::ParserError":
                flds = s["rv"]["fields"]
                if "error_line" not in flds:
                    continue
                if S is None:
                    S = A.summary(fid)
                nloc += 1
                v = s["rv"]["v"]
                for fname, op in zip(flds, s["rv"]["ops"]):
                    pl = mir.op_place(op)
                    terms = set(S.vals.get(pl["l"], set())) if pl is not None else set()
                    desc = sorted(sym.fmt(t) for t in terms)
                    if fname == "error_line":
                        if not any("last_token_position" in d for d in desc):
                            chk.add(Finding("R06-loc", "R06-loc::%s::%s::error_line" % (mir.strip_generics(fid), v), "%s builds ParserError::%s with error_line = %s: diagnostics must carry ParserState.last_token_position (the line of the token at which the problem was detected)" % (fid, v, desc or "a computed value"), b.where(s["ln"])))
                    if fname == "filename":
                        if not any(re.search(r"filenames.*fileid|fileid.*filenames", d) or ("filenames" in d) for d in desc):
                            chk.add(Finding("R06-loc", "R06-loc::%s::%s::filename" % (mir.strip_generics(fid), v), "%s builds ParserError::%s with filename = %s: must be filenames[<context|token>.fileid]" % (fid, v, desc or "a computed value"), b.where(s["ln"])))
    chk.rule("R06-loc", "ParserError constructions with file/line provenance checked", nloc, floor=30)

    # ------------------------------------------------------------------ R06-order
    nord = 0
    for fid in sorted(scope):
        b = prog.bodies[fid]
        if b.file not in ("a2lfile/src/parser.rs", "a2lfile/src/ifdata.rs", "a2lfile/src/lib.rs"):
            continue
        cons = [(bi, t) for bi, t in b.calls() if CONSUMERS.search(mir.strip_generics((t.get("res") or "").lstrip("?")))]
        if not cons:
            continue
        S = None
        for bi, t in b.calls():
            nm = mir.strip_generics((t.get("res") or "").lstrip("?"))
            is_ctor = re.search(r"parser::ParserError::[a-z_]+$", nm)
            is_agg = False
            if not is_ctor:
                continue
            nord += 1
            doms = [(bj, tj) for bj, tj in cons if tj["t"] is not None and bj != bi and b.dominates(tj["t"], bi)]
            if not doms:
                continue
            if S is None:
                S = A.summary(fid)
            gs = guards.guard_set(b, S, bi)
            for bj, tj in doms:
                cn = mir.strip_generics(tj["res"].lstrip("?")).split("::")[-1]
                # the diagnostic is decided by the result of that very call (e.g. `if let Some(t) = next() {..} else { eof }`)
                direct = False
                if not tj["dest"]["p"]:
                    for (sb, taken) in b.control_deps_closure(bi):
                        for st in b.blocks[sb]["s"]:
                            if st["k"] == "assign" and st["rv"]["r"] == "discr" and st["rv"]["p"]["l"] == tj["dest"]["l"]:
                                direct = True
                if direct:
                    continue
                if not any((cn + "(") in g for g in gs):
                    chk.add(Finding("R06-order", "R06-order::%s::%s::%s" % (mir.strip_generics(fid), nm.split("::")[-1], cn), "%s constructs the diagnostic %s after %s consumed another token, and not because of that token: the diagnostic carries the line of a later token, not of the token at which the problem was detected" % (fid, nm.split("::")[-1], cn), b.where(t["ln"])))
    chk.rule("R06-order", "diagnostic constructors checked against dominating token-consuming calls", nord, floor=14)

    # ------------------------------------------------------------------ R06-peek
    # the dual of R06-order: last_token_position (R06-loc: the only source of a diagnostic's line) is advanced by the consuming
    # calls only, never by peek_token.  A diagnostic about a token that was merely *peeked* therefore has to be constructed after
    # that token was consumed, or it carries the line of the token before it (seed C06s: the constructor call hoisted above
    # get_identifier in get_string)
    npeek = 0
    for fid in sorted(scope):
        b = prog.bodies[fid]
        if b.file not in ("a2lfile/src/parser.rs", "a2lfile/src/ifdata.rs", "a2lfile/src/lib.rs"):
            continue
        calls = list(b.calls())
        peeks = [(bi, t) for bi, t in calls if re.search(r"ParserState::peek_token$", mir.strip_generics((t.get("res") or "").lstrip("?"))) and t["t"] is not None]
        if not peeks:
            continue
        cons = [(bi, t) for bi, t in calls if CONSUMERS.search(mir.strip_generics((t.get("res") or "").lstrip("?"))) and t["t"] is not None]
        for bi, t in calls:
            nm = mir.strip_generics((t.get("res") or "").lstrip("?"))
            if not re.search(r"parser::ParserError::[a-z_]+$", nm):
                continue
            cb = prog.bodies.get((t.get("res") or "").lstrip("?")) or next((x for x in prog.bodies.values() if mir.strip_generics(x.id) == nm), None)
            if cb is None or not any("A2lToken" in l["ty"] and "Type" not in l["ty"] for l in cb.locals[1:1 + cb.argc]):
                continue        # the diagnostic is not about a token (unexpected_eof, ...)
            for pj, tp in peeks:
                if not b.dominates(tp["t"], bi):
                    continue
                npeek += 1
                if not any(b.dominates(tp["t"], bj) and b.dominates(tj["t"], bi) for bj, tj in cons):
                    chk.add(Finding("R06-peek", "R06-peek::%s::%s" % (mir.strip_generics(fid), nm.split("::")[-1]), "%s constructs the diagnostic %s for a token it has only peeked at; no consuming call lies between peek_token and the constructor, so last_token_position still is the line of the previous token" % (fid, nm.split("::")[-1]), b.where(t["ln"])))
    chk.rule("R06-peek", "diagnostics about a peeked token are constructed after the token was consumed", npeek, floor=1)
    chk.assumptions += ["not decided: model equality between the modes (follows from R06-single only together with run-time determinism)",
                        "oracle/diag_table.json (section parser) and oracle/swallow_sites.json are reviewed snapshots of semantic facts"]
