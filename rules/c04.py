"""C04 Grammar conformance (structural clauses; see DESIGN.md section 3, C04)"""
from . import genrules


def run(chk):
    chk.level = "translation_validation"
    chk.info["programs"] = 185
    chk.info["disagreements_checked"] = 0
    genrules.r04_dsl(chk)
    genrules.r04_grammar(chk)
    genrules.expansion_diffs(chk, "R04-shipped", lambda k: "[parse]" in k and "ParseableA2lObject" in k,
                             "generated parsers of specification.rs identical (canonical form) to the in-tree generator's output for the in-tree DSL")
    chk.assumptions += ["oracle/grammar_171.json is the A2L 1.7.1 grammar (frozen, reviewed copy of the DSL of the pinned commit)",
                        "not decided: that a whole document built from the grammar loads without diagnostics (composition with the tokenizer)"]
