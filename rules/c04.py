"""C04 Grammar conformance (structural clauses; see DESIGN.md section 3, C04)"""
from . import genrules


def run(chk):
    chk.level = "translation_validation"
    chk.info["programs"] = 185
    chk.info["disagreements_checked"] = 0
    genrules.r04_dsl(chk)
    genrules.r04_grammar(chk)
    genrules.expansion_diffs(chk, "R04-shipped", lambda k: "[parse]" in k and "ParseableA2lObject" in k,
                             "generated parsers of specification.rs identical (canonical form) to the in-tree generator's output for the in-tree DSL")
    # R04-helpers: the run-time helpers the generated parsers rely on for version gating, multiplicity and block/keyword form
    from . import diag, c06, mir
    helpers = ("check_block_version_lower", "check_block_version_upper", "check_enumitem_version_lower", "check_enumitem_version_upper",
               "handle_multiplicity_error", "require_block", "require_keyword", "get_identifier", "expect_token", "get_string_maxlen")
    diag.compare(chk, "R04-helpers", "parser", c06.parser_table(mir.prog()), "diagnostics of the helper functions behind version gating, multiplicity and block/keyword form, with their control predicates, compared with the reviewed table",
                 floor=10, fn_filter=lambda fn: fn.split("::")[-1] in helpers)
    chk.assumptions += ["oracle/grammar_171.json is the A2L 1.7.1 grammar (frozen, reviewed copy of the DSL of the pinned commit)",
                        "not decided: that a whole document built from the grammar loads without diagnostics (composition with the tokenizer)"]
