"""C09 Merge preserves the reference structure of the merged-in file (DESIGN.md section 3, C09)

R09-sites   every reference site (oracle/refsites.json) whose target namespace merge may rename is rewritten from that
            namespace's rename table, looked up by the site's own old value
R09-confuse no site is rewritten under the table of a different namespace; no non-reference is rewritten
R09-ctrl    the rewrite of a site is control dependent only on its own access path, the table and the lookup result
R09-unique  fresh names are checked against both modules' lists (make_unique_name)
"""
import json
import re
from . import mir, sym, refs, mergefacts
from .common import Finding

RENAMED_NS_FLOOR = 8


def site_index():
    T = refs.table()
    idx = {}
    for k, paths in T["paths"].items():
        for p in paths:
            idx[p] = (k, T["fields"][k])
    return idx


_reach = {}


def reach_of(prog, fid):
    if fid not in _reach:
        _reach[fid] = set(prog.reachable([fid]))
    return _reach[fid]


def run(chk):
    prog = mir.prog()
    n = refs.check_table_current(chk, "R09-table")
    chk.rule("R09-table", "identifier fields of the current DSL classified in the reference-site table", n or 0, floor=81)
    mf = mergefacts.MergeFacts(prog)
    if mf.S is None:
        chk.add(Finding("R09-sites", "R09-sites::anchor", "merge::merge_modules not found"))
        chk.rule("R09-sites", "reference sites rewritten under their namespace's rename table", 0, floor=1)
        return
    idx = site_index()
    tables_ns = set(mf.tables.values())
    for desc, ev in mf.table_problems:
        chk.add(Finding("R09-confuse", "R09-confuse::table::" + desc, "rename/action table computed from lists of different namespaces or sides: " + desc, prog.bodies[ev[3]].where(ev[4])))
    rw = mf.rename_writes()
    covered = {}     # path -> set(ns)
    nconf = 0
    for (path, root, ns, which, kpath, kroot, lk, ev) in rw:
        fn = prog.bodies.get(ev[3])
        where = fn.where(ev[4]) if fn else ""
        nconf += 1
        if ns is None:
            continue        # a lookup in some other map (merge_action etc.)
        if which != "#1":
            continue
        if not (isinstance(root, tuple) and root == ("param", 2)):
            chk.add(Finding("R09-confuse", "R09-confuse::side::" + path, "a rename table is applied to %s of the destination module (only the merged-in module may be rewritten)" % path, where))
            continue
        if kpath != path or kroot != root:
            chk.add(Finding("R09-confuse", "R09-confuse::key::" + path, "%s is overwritten with the new name looked up for a different field (%s)" % (path, kpath), where))
            continue
        site = idx.get(path)
        if site is None:
            chk.add(Finding("R09-confuse", "R09-confuse::nonref::" + path, "the %s rename table is applied to %s, which the reference-site table does not know as an identifier field" % (ns, path), where))
            continue
        k, info = site
        if info["role"] == "none":
            chk.add(Finding("R09-confuse", "R09-confuse::nonref::" + path, "the %s rename table is applied to %s, which is not a reference (%s)" % (ns, path, info.get("why")), where))
        elif info["ns"] != ns:
            chk.add(Finding("R09-confuse", "R09-confuse::%s::%s" % (ns, path), "%s %s the namespace `%s`, but it is rewritten from the rename table of `%s`: it silently retargets to an unrelated element of the same name" % (path, "references" if info["role"] == "ref" else "defines a name of", info["ns"], ns), where))
        else:
            covered.setdefault(path, set()).add(ns)
    chk.rule("R09-confuse", "writes whose new value comes from a rename table: right side, own key, right namespace", nconf, floor=55)

    # coverage
    nsites = 0
    for (k, path, info) in refs.sites():
        if info["ns"] not in tables_ns:
            continue
        nsites += 1
        if info["ns"] not in covered.get(path, ()):
            chk.add(Finding("R09-sites", "R09-sites::" + path, "reference site %s (-> %s) is not rewritten when merge renames its target: after a name conflict it silently points to the destination module's element of the same name" % (path, info["ns"]),
                            "a2lfile/src/merge.rs", {"site": path, "namespace": info["ns"]}))
    chk.rule("R09-sites", "reference sites of the namespaces merge renames (%s) rewritten under that namespace's table" % ", ".join(sorted(tables_ns)), nsites, floor=50)
    if len(tables_ns) < RENAMED_NS_FLOOR:
        chk.add(Finding("R09-sites", "R09-sites::tables", "only %d namespaces have a rename table (9 on the pinned tree)" % len(tables_ns)))

    # ordering: a reference site inside the merged-in module is rewritten before the field that holds it is moved to the destination
    b0 = prog.bodies[mf.entry]
    top = [(bi, t["res"]) for bi, t in b0.calls() if (t.get("res") or "").startswith("merge::") and t["res"] in prog.bodies]
    reach = {fid: set(prog.reachable([fid])) | {fid} for _, fid in top}

    def top_of(fid):
        return [(bi, f) for bi, f in top if fid in reach[f]]
    moves = {}
    for ev in mf.S.events:
        if ev[0] == "call" and re.search(r"(mem::take|mem::replace|mem::swap|Option::take|Option<.*>::take)$", mir.strip_generics(ev[1])) and ev[2]:
            for t in ev[2][0]:
                root, path = refs.term_path(t)
                if root == ("param", 2) and path:
                    moves.setdefault(path.split("/")[0], []).append(ev)
    nord = 0
    for (path, root, ns, which, kpath, kroot, lk, ev) in rw:
        if ns is None or which != "#1" or root != ("param", 2) or not path:
            continue
        field = path.split("/")[0]
        rt = top_of(ev[3])
        if len(rt) != 1:
            continue
        for mv in moves.get(field, []):
            mt = top_of(mv[3])
            if len(mt) != 1:
                continue
            nord += 1
            (rb, rf), (mb, mfid) = rt[0], mt[0]
            if rf == mfid:
                continue
            if not b0.dominates(rb, mb):
                chk.add(Finding("R09-order", "R09-order::%s::%s" % (path, mfid.split("::")[-1]), "%s moves %s out of the merged-in module before %s rewrites the reference %s (-> %s): the moved copy keeps the old name and silently points to the destination module's element" % (mfid, field, rf, path, ns), b0.where(b0.blocks[mb]["t"]["ln"])))
    chk.rule("R09-order", "reference sites of the merged-in module rewritten before the holder field is moved to the destination (pairs of rename step / move step)", nord, floor=30)

    # ordering 2: the decision "identical / conflict" for the elements of namespace Nc (calculate_item_actions) compares elements of the
    # merged-in module with `==`, reference fields included.  Every rewrite of a reference held by those elements that is driven by a
    # *different* namespace's rename table therefore comes before that comparison (otherwise an element of B that refers to a renamed
    # target still compares equal to A's element of the same name and is dropped, or is compared under a name that no longer exists)
    T = refs.table()
    ncmp = 0
    calls_c = [ev for ev in mf.S.events if ev[0] == "call" and ev[1] == "merge::calculate_item_actions"]
    for evc in calls_c:
        a0 = [t for t in evc[2][0] if not (isinstance(t, tuple) and t[0] == "var")]
        a1 = [t for t in evc[2][1] if not (isinstance(t, tuple) and t[0] == "var")]
        key = ("call", "merge::calculate_item_actions", (sorted(a0, key=repr)[0] if a0 else None, sorted(a1, key=repr)[0] if a1 else None))
        nsc = mf.tables.get(key)
        if nsc is None:
            continue
        lists = set(T["namespaces"].get(nsc, []))
        fc = evc[3]
        bc = prog.bodies[fc]
        Sfc = mf.A.summary(fc)
        # position of this comparison and of the rewrites inside the function that makes the comparison
        blk_c_local = [x[6] for x in Sfc.events if x[0] == "call" and x[1] == "merge::calculate_item_actions" and x[3] == fc and x[4] == evc[4]]
        wr_local = {}
        for x in Sfc.events:
            if x[0] == "write":
                wr_local.setdefault((x[3], x[4]), set()).add(x[5])
            elif x[0] == "call" and x[1].endswith("ItemList::rename_item"):
                wr_local.setdefault((x[3], x[4]), set()).add(x[6])
        for (path, root, ns, which, kpath, kroot, lk, ev) in rw:
            if ns is None or which != "#1" or root != ("param", 2) or not path or ns == nsc:
                continue
            if path.split("/")[0] not in lists:
                continue
            ncmp += 1
            ok = None
            loc = wr_local.get((ev[3], ev[4]))
            if loc and blk_c_local:
                ok = all(any(bw != bcmp and bc.dominates(bw, bcmp) for bw in loc) for bcmp in blk_c_local)
            else:
                # different steps of merge_modules: positions of the two steps there
                bw, bcmp = ev[5], evc[6]
                if bw != bcmp:
                    ok = b0.dominates(bw, bcmp)
            fr = ev[3]
            if ok is False:
                chk.add(Finding("R09-compare", "R09-compare::%s::%s" % (nsc, path), "%s decides which %s elements of the merged-in module are identical to the destination's before %s has rewritten their reference %s (-> %s): an element that refers to a renamed target is compared with its old reference text" % (fc, nsc, fr, path, ns), bc.where(evc[4])))
    chk.rule("R09-compare", "(comparison of a namespace's elements, rewrite of a reference inside those elements under another namespace's table) pairs: rewrite first", ncmp, floor=20)

    # references are resolved and compared through ItemList: its equality and its name index are part of this property's code
    from . import c08, c13, genrules
    genrules.r_eq(chk, rule_complete="R09-eq", rule_layout=None)      # "identical" is decided with the generated ==: every data field takes part
    c08.r08_listeq(chk, prog, rule="R09-listeq")
    c13.shared(chk, "R09-list", "merge looks up and compares elements of both modules through ItemList")
    # control dependence of the rewrites
    nctrl = 0
    A = mf.A
    for fid in sorted(prog.reachable(["merge::merge_modules"])):
        if not fid.startswith("merge::"):
            continue
        b = prog.bodies[fid]
        S = A.summary(fid)
        if S is None:
            continue
        direct = [ev for ev in S.events if ev[0] == "write" and ev[3] == fid and mergefacts.lookups_in(ev[2])]
        for ev in direct:
            wroot, wpath = refs.term_path(ev[1])
            lks = mergefacts.lookups_in(ev[2])
            if not wpath:
                continue
            nctrl += 1
            for (sb, taken) in b.control_deps_closure(ev[5]):
                t = b.blocks[sb]["t"]
                subj = switch_subject(b, S, sb)
                ok = False
                why = ""
                for st in subj:
                    if isinstance(st, tuple) and st[0] == "lookup":
                        ok = ok or any(st[2] == lk[2] for lk in lks)
                        why = "lookup"
                    elif isinstance(st, tuple) and st[0] == "call" and re.search(r"is_empty|::len$", st[1]):
                        ok = True
                    else:
                        r, pth = refs.term_path(st)
                        if pth and (wpath == pth or wpath.startswith(pth + "/")) and r == wroot:
                            ok = True
                        elif not pth and isinstance(r, tuple) and r[0] == "param":
                            ok = True
                        why = pth
                if subj and not ok:
                    chk.add(Finding("R09-ctrl", "R09-ctrl::%s::%s" % (mir.strip_generics(fid), wpath), "the rewrite of %s only happens depending on %s, which is not part of its own access path: when that other field is present/absent the reference keeps its old name" % (wpath, " / ".join(sorted(sym.fmt(x) for x in subj))), b.where(ev[4])))
    chk.rule("R09-ctrl", "rename writes whose control dependences are confined to their own access path, the table and the lookup result", nctrl, floor=25)

    # make_unique_name consults both lists
    b = prog.bodies.get("merge::make_unique_name")
    n = 0
    if b is None:
        chk.add(Finding("R09-unique", "R09-unique::anchor", "merge::make_unique_name not found"))
    else:
        n = 1
        S = A.summary("merge::calculate_item_actions")
        S2 = sym.Analyzer(prog).summary("merge::make_unique_name")
        gets = [ev for ev in S2.events if ev[0] == "call" and re.search(r"ItemList::(get|contains_key|index)$", ev[1])]
        roots = set()
        for ev in gets:
            for t in ev[2][0]:
                if isinstance(t, tuple) and t[0] == "param":
                    roots.add(t[1])
        if len(roots) < 2:
            chk.add(Finding("R09-unique", "R09-unique::lists", "make_unique_name checks a candidate name against %d list parameter(s); a fresh name must be free in both modules" % len(roots), b.where()))
        # and the caller passes the two different lists
        S3 = sym.Analyzer(prog, opaque=[r"merge::make_unique_name"]).summary("merge::calculate_item_actions")
        for ev in S3.events:
            if ev[0] == "call" and ev[1] == "merge::make_unique_name":
                n += 1
                lists = [frozenset(x for x in a if isinstance(x, tuple) and x[0] == "param") for a in ev[2][1:]]
                ps = set()
                for l in lists:
                    ps |= {x[1] for x in l}
                if not ({1, 2} <= ps):
                    chk.add(Finding("R09-unique", "R09-unique::args", "calculate_item_actions passes %s to make_unique_name: the fresh name is not checked against both the destination and the merged-in list" % [sorted(sym.fmt(x) for x in a) for a in ev[2][1:]], prog.bodies["merge::calculate_item_actions"].where(ev[4])))
    chk.rule("R09-unique", "fresh names checked against both lists", n, floor=2)
    chk.assumptions += ["oracle/refsites.json classifies every identifier field of the grammar (fail closed on new fields)",
                        "the verdict is exact relative to that table; no runtime clause is left undecided"]


def switch_subject(b, S, sb):
    """terms describing what the switch in block sb tests"""
    t = b.blocks[sb]["t"]
    d = mir.op_place(t["d"])
    if d is None or d["p"]:
        return set()
    l = d["l"]
    # find the definition of the discriminant local in this block
    for s in reversed(b.blocks[sb]["s"]):
        if s["k"] == "assign" and not s["p"]["p"] and s["p"]["l"] == l:
            rv = s["rv"]
            if rv["r"] == "discr":
                pl = rv["p"]
                terms = set(S.vals.get(pl["l"], set()))
                # field projections on the tested place
                for e in pl["p"]:
                    if isinstance(e, dict) and "f" in e and sym.is_repo_adt(e["adt"]):
                        nm = sym.short_adt(e["adt"]) + ("::" + e["v"] if e.get("v") else "") + "." + e["f"]
                        terms = {("f", x, nm) for x in terms}
                return terms
            if rv["r"] in ("use", "un"):
                src = mir.op_place(rv["a"])
                if src is not None and not src["p"]:
                    return set(S.vals.get(src["l"], set()))
            if rv["r"] == "bin":
                out = set()
                for o in (rv["a"], rv["b"]):
                    pl = mir.op_place(o)
                    if pl is not None:
                        out |= set(S.vals.get(pl["l"], set()))
                return out
            return set()
    # defined by the call terminator of the single predecessor (is_empty() etc.)
    return set(S.vals.get(l, set()))
