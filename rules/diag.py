"""guarded-diagnostic tables (A7) for sets of functions and their comparison with the frozen oracle/diag_table.json"""
import json
import os
import re
from . import common, mir, sym, guards
from .common import Finding


def table_for(prog, A, fids, effect_pred, write_pred=None):
    """dict fn -> sorted list of [effect, [guards...]]"""
    out = {}
    for fid in sorted(fids):
        b = prog.bodies.get(fid)
        if b is None:
            continue
        S = A.summary(fid)
        rows = []
        wseen = set()
        for ev in S.events:
            if ev[0] == "write" and write_pred is not None and ev[3] == fid:
                eff = write_pred(b, S, ev)
                # one assignment statement is one row, however many access paths denote its destination
                if eff is not None and (eff, ev[5], ev[4]) not in wseen:
                    wseen.add((eff, ev[5], ev[4]))
                    rows.append([eff, sorted(guards.guard_set(b, S, ev[5]))])
                continue
            if ev[0] != "call" or ev[3] != fid:
                continue
            eff = effect_pred(b, S, ev)
            if eff is None:
                continue
            # one call site is one row (the fixpoint may have recorded it with less and with more known arguments)
            if (eff, ev[6], ev[1]) in wseen:
                continue
            wseen.add((eff, ev[6], ev[1]))
            gs = sorted(guards.guard_set(b, S, ev[6]))
            rows.append([eff, gs])
        # predicate closures of this function (`.any(|x| x.a == y)`, `.filter(|x| ..)`, `.retain(|x| ..)`): what they test
        if b.kind != "Closure":
            for cid, cb in sorted(prog.bodies.items()):
                if cb.kind == "Closure" and cb.parent and (cb.parent == fid or cb.parent.startswith(fid + "::{closure")) and cb.locals and cb.locals[0]["ty"] == "bool":
                    try:
                        Sc = A.summary(cid)
                    except RecursionError:
                        Sc = None
                    if Sc is None:
                        continue
                    dsc, pos = guards.bool_desc(cb, Sc, 0, 2)
                    if dsc in ("flag", "expr"):
                        continue
                    if cid in _combinator_closures(prog, b):
                        continue        # its test is part of the formula of the Option combinator it is passed to (guards.combinator_formula)
                    if pos and re.fullmatch(r"eq\((arg\d+, arg1\.#\d+|arg1\.#\d+, arg\d+)\)", dsc):
                        continue        # `|e| e == x`: plain membership, the same test as `contains(&x)` (see guards.canon_test)
                    rows.append(["predicate closure", [dsc if pos else "!(" + dsc + ")"]])
        if rows:
            key = re.sub(r"\{closure#\d+\}", "{closure}", mir.strip_generics(fid))     # closure numbering is positional
            out.setdefault(key, []).extend(rows)
            out[key].sort(key=lambda r: (r[0], r[1]))
    return out


_cc_cache = {}


def _combinator_closures(prog, b):
    """closures of function b that are handed to Option::is_some_and / is_none_or / map_or / map"""
    if b.id not in _cc_cache:
        out = set()
        cl_of = {}
        for bi, si, st in b.stmts():
            if st["k"] == "assign" and not st["p"]["p"] and st["rv"]["r"] == "agg" and st["rv"].get("kind") == "closure":
                cl_of[st["p"]["l"]] = st["rv"].get("cl")
        for bi, t in b.calls():
            nm = mir.strip_generics((t.get("res") or "").lstrip("?"))
            if re.search(r"Option::(is_some_and|is_none_or|map_or|map)$", nm):
                for a in t["args"]:
                    pl = mir.op_place(a)
                    if pl is not None and not pl["p"] and pl["l"] in cl_of:
                        out.add(cl_of[pl["l"]])
        _cc_cache[b.id] = out
    return _cc_cache[b.id]


def load_oracle(section):
    p = os.path.join(common.VERIF, "oracle", "diag_table.json")
    if not os.path.exists(p):
        return None
    with open(p) as fh:
        return json.load(fh).get(section)


def compare(chk, rule, section, cur, what, floor, row_filter=None, fn_filter=None):
    ora = load_oracle(section)
    if ora is not None and (row_filter or fn_filter):
        def flt(t):
            out = {}
            for fn, rows in t.items():
                if fn_filter and not fn_filter(fn):
                    continue
                rr = [r for r in rows if (row_filter is None or row_filter(r))]
                if rr:
                    out[fn] = rr
            return out
        ora_full = ora
        ora = flt(ora)
        # functions the reviewed table does not know at all stay in: they may hold rows relocated out of a selected function
        newf = {fn: rows for fn, rows in cur.items() if fn not in ora_full}
        cur = flt(cur)
        for fn, rows in newf.items():
            rr = [r for r in rows if (row_filter is None or row_filter(r))]
            if rr and fn not in cur:
                cur[fn] = rr
    n = sum(len(v) for v in cur.values())
    n = sum(len(v) for v in cur.values())
    if ora is None:
        chk.add(Finding(rule, rule + "::oracle", "oracle/diag_table.json has no section %s" % section))
        chk.rule(rule, what, n, floor=floor)
        return
    def effkind(eff):
        # effect without the parameter-relative operand descriptions (they change when code moves into a helper)
        if eff.startswith("write ") and " = " in eff:
            return eff.split(" = ")[0]          # the value description is relative to the function's parameters
        return re.sub(r"\b(arg\d+\*?|local:[^,)]*|var)([.\w|\[\]]*)", "_", eff)
    diffs = {}
    for fn in sorted(set(cur) | set(ora)):
        a = [json.dumps(r) for r in cur.get(fn, [])]
        b = [json.dumps(r) for r in ora.get(fn, [])]
        extra = list(a)
        missing = []
        for r in b:
            if r in extra:
                extra.remove(r)
            else:
                missing.append(r)
        if missing or extra:
            diffs[fn] = [missing, extra]
    # same predicates, different combination (`a && b` turned into `a || b`, a flipped test whose negation also occurs on another
    # path): the predicate *sets* agree, the reaching conditions do not
    oforms0 = (load_oracle("_formulas") or {})
    for fn in sorted(set(cur) & set(ora)):
        for r in cur[fn]:
            if r in ora[fn]:
                fo = oforms0.get(fn, {}).get("\x1f".join(r[1]))
                fc = guards.FORMULAS.get((fn, tuple(r[1])))
                if fo is not None and fc is not None and guards.equivalent(fo, fc) is False:
                    d = diffs.setdefault(fn, [[], []])
                    d[0].append(json.dumps([r[0], r[1] + ["(reviewed combination)"]]))
                    d[1].append(json.dumps([r[0], r[1] + ["(combined differently: and/or/negation structure of the condition changed)"]]))
    # re-coded conditions: a row whose predicate set differs but whose reaching condition is logically equivalent to the
    # reviewed one (if/else-if chain vs match, guard clause vs nesting, flattened if-lets) is the same decision
    oforms = (load_oracle("_formulas") or {})
    for fn, (missing, extra) in diffs.items():
        for r in list(missing):
            eff, gs = json.loads(r)
            fo = oforms.get(fn, {}).get("\x1f".join(gs))
            if fo is None:
                continue
            for x in list(extra):
                e2, g2 = json.loads(x)
                if e2 != eff:
                    continue
                fc = guards.FORMULAS.get((fn, tuple(g2)))
                if fc is not None and guards.equivalent(fo, fc) is True:
                    missing.remove(r)
                    extra.remove(x)
                    break
    # merged / split statements: two reviewed rows with one effect (`set_tokenpos(pos)` at the end of two branches) replaced by
    # one statement behind the join, or the reverse -- the same decision when the single condition is logically the disjunction
    # of the others
    for fn, (missing, extra) in diffs.items():
        for (ones, manys, fone, fmany) in ((extra, missing, lambda g: guards.FORMULAS.get((fn, tuple(g))), lambda g: oforms.get(fn, {}).get("\x1f".join(g))),
                                           (missing, extra, lambda g: oforms.get(fn, {}).get("\x1f".join(g)), lambda g: guards.FORMULAS.get((fn, tuple(g))))):
            for x in list(ones):
                e1, g1 = json.loads(x)
                f1 = fone(g1)
                group = [m for m in manys if json.loads(m)[0] == e1]
                if f1 is None or len(group) < 2 or len(group) > 4:
                    continue
                fs = [fmany(json.loads(m)[1]) for m in group]
                if any(f is None for f in fs):
                    continue
                if guards.equivalent(f1, ["or"] + fs) is True:
                    ones.remove(x)
                    for m in group:
                        manys.remove(m)
    # relocation: rows that left a reviewed function and reappear, with the same effect, in a function the reviewed table does
    # not know (a helper extracted from it) are the same decision made in another place - not a difference
    newfns = [fn for fn in diffs if fn not in ora]
    absorbed = set()
    for fn, (missing, extra) in diffs.items():
        if fn in newfns:
            continue
        for r in list(missing):
            eff = json.loads(r)[0]
            for nf in newfns:
                # a helper is typically called from several places: one of its rows can stand for several rows that left
                hit = next((x for x in diffs[nf][1] if effkind(json.loads(x)[0]) == effkind(eff)), None)
                if hit is not None:
                    absorbed.add((nf, hit))
                    missing.remove(r)
                    break
    for nf, hit in absorbed:
        if hit in diffs[nf][1]:
            diffs[nf][1].remove(hit)
    for fn in sorted(diffs):
        missing, extra = diffs[fn]
        body = mir.prog().bodies.get(fn) or next((x for x in mir.prog().bodies.values() if mir.strip_generics(x.id) == fn), None)
        where = body.where() if body else fn
        # pair up changed rows by effect for readable messages
        for r in missing:
            eff, gs = json.loads(r)
            cand = [json.loads(x) for x in extra if json.loads(x)[0] == eff]
            if cand:
                c = cand[0]
                extra.remove(json.dumps(c))
                gone = sorted(set(gs) - set(c[1]))
                new = sorted(set(c[1]) - set(gs))
                chk.add(Finding(rule, "%s::%s::%s::changed::%s" % (rule, fn, eff, "|".join(gone + ["+"] + new)), "%s: the conditions under which `%s` happens changed: no longer required %s; newly required %s" % (fn, eff, gone or "-", new or "-"), where,
                                {"effect": eff, "reference_guards": gs, "current_guards": c[1]}))
            else:
                chk.add(Finding(rule, "%s::%s::%s::missing" % (rule, fn, eff), "%s: the diagnostic/effect `%s` (under %s) no longer exists" % (fn, eff, gs), where))
        for r in extra:
            eff, gs = json.loads(r)
            if fn_filter is not None and fn in newfns:
                continue        # a new function outside this rule's selection: reported by the rule that selects the whole table
            chk.add(Finding(rule, "%s::%s::%s::new::%s" % (rule, fn, eff, "|".join(gs)), "%s: new diagnostic/effect `%s` under %s (not in the reviewed table)" % (fn, eff, gs), where))
    chk.rule(rule, what, n, floor=floor)


def agg_rows(prog, A, fid, adts):
    """rows [build <Adt::Variant>, guards] for every construction of one of `adts` in function fid"""
    b = prog.bodies.get(fid)
    if b is None:
        return []
    S = A.summary(fid)
    rows = []
    for bi, blk in enumerate(b.blocks):
        if blk["cleanup"]:
            continue
        for s in blk["s"]:
            if s["k"] == "assign" and s["rv"]["r"] == "agg" and s["rv"].get("kind") == "adt" and s["rv"]["adt"] in adts:
                rows.append(["build %s::%s" % (s["rv"]["adt"].split("::")[-1], s["rv"]["v"]), sorted(guards.guard_set(b, S, bi))])
    return rows


def cursor_rows(prog, A, fid):
    """rows ["<var> += c" / "<var> -= c", guards] for every step of an integer scan variable in function fid"""
    import json as _json
    from . import c03, panics, zones
    b = prog.bodies.get(fid)
    if b is None:
        return []
    S = A.summary(fid)
    fz = panics.interproc(prog).zones_of(fid)
    succ = b.succ()
    rows = []
    for bi, blk in enumerate(b.blocks):
        if blk["cleanup"]:
            continue
        tmp = {}
        for s in blk["s"]:
            if s["k"] == "assign" and s["rv"]["r"] == "bin" and s["rv"]["op"] in ("AddWithOverflow", "SubWithOverflow") and "k" in s["rv"]["b"] and not s["p"]["p"]:
                c = mir.const_int(s["rv"]["b"])
                pl = mir.op_place(s["rv"]["a"])
                if c is not None and pl is not None:
                    tmp[s["p"]["l"]] = (_json.dumps(pl, sort_keys=True), "+=" if s["rv"]["op"].startswith("Add") else "-=", c, pl)
        for sb in succ[bi]:
            for s in b.blocks[sb]["s"]:
                if s["k"] == "assign" and s["rv"]["r"] == "use":
                    src = mir.op_place(s["rv"]["a"])
                    if src is not None and src["l"] in tmp and _json.dumps(s["p"], sort_keys=True) == tmp[src["l"]][0]:
                        _, op, c, pl = tmp[src["l"]]
                        rows.append(["%s %s %d" % (var_desc(b, fz, pl), op, c), sorted(guards.guard_set(b, S, sb))])
    return rows


def var_desc(b, fz, pl):
    l = pl["l"]
    if 1 <= l <= b.argc:
        return "arg%d" % l + ("*" if pl["p"] else "")
    # a local scan variable: described by its type and constant initialisers
    inits = set()
    for bi, blk in enumerate(b.blocks):
        for s in blk["s"]:
            if s["k"] == "assign" and not s["p"]["p"] and s["p"]["l"] == l and s["rv"]["r"] == "use":
                if "k" in s["rv"]["a"]:
                    inits.add(s["rv"]["a"]["k"])
                else:
                    p2 = mir.op_place(s["rv"]["a"])
                    if p2 is not None and 1 <= p2["l"] <= b.argc:
                        inits.add("arg%d" % p2["l"])
    return "local:%s{%s}" % (b.locals[l]["ty"], ",".join(sorted(inits)))


def ordering_rows(prog, A, fid):
    """rows of a comparator (a function or closure returning std::cmp::Ordering): the constants it returns and the comparisons it
    delegates to (with their operands), each with its control predicates"""
    b = prog.bodies.get(fid)
    if b is None or not b.locals or "Ordering" not in b.locals[0]["ty"]:
        return []
    S = A.summary(fid)
    rows = []
    for bi, blk in enumerate(b.blocks):
        if blk["cleanup"]:
            continue
        for s in blk["s"]:
            if s["k"] == "assign" and s["p"]["l"] == 0 and not s["p"]["p"]:
                rv = s["rv"]
                val = rv["a"]["k"] if rv["r"] == "use" and "k" in rv["a"] else (rv.get("v") if rv["r"] == "agg" else None)
                if val is not None:
                    rows.append(["return %s" % val, sorted(guards.guard_set(b, S, bi))])
    for ev in S.events:
        if ev[0] == "call" and ev[3] == fid and re.search(r"(::cmp|::partial_cmp|::total_cmp|Ordering::then|Ordering::then_with|Ordering::reverse)$", mir.strip_generics(ev[1])):
            rows.append(["%s(%s)" % ("::".join(mir.strip_generics(ev[1]).split("::")[-2:]), ", ".join(guards.fmt_terms(a, limit=2) for a in (ev[2] or [])[:2])), sorted(guards.guard_set(b, S, ev[6]))])
    rows.sort(key=lambda r: (r[0], r[1]))
    return rows


def bool_rows(prog, A, fid):
    """one row for a predicate function (returns bool): the condition under which it returns true, as a formula over its tests
    (flags that are set on several paths are expanded); the row's predicate list is the set of atoms of that formula"""
    b = prog.bodies.get(fid)
    if b is None or not b.locals or b.locals[0]["ty"] != "bool":
        return []
    S = A.summary(fid)
    f = guards.value_formula(b, S, 0)
    if f is None:
        return []
    atoms = sorted(guards.atoms_of(f))
    guards.FORMULAS[(guards.fkey(b), tuple(atoms))] = f
    return [["returns true", atoms]]


def state_rows(prog, A, fid):
    """rows [<var> = c] for constant assignments to an integer local that has several constant definitions (state machines)"""
    b = prog.bodies.get(fid)
    if b is None:
        return []
    S = A.summary(fid)
    consts = {}
    for bi, si, s in b.stmts():
        if s["k"] == "assign" and not s["p"]["p"] and s["rv"]["r"] == "use" and mir.const_int(s["rv"]["a"]) is not None and re.fullmatch(r"[iu](8|16|32|64|size)", b.locals[s["p"]["l"]]["ty"]):
            consts.setdefault(s["p"]["l"], []).append((bi, mir.const_int(s["rv"]["a"])))
    rows = []
    for l, defs in consts.items():
        vals = sorted({c for _, c in defs})
        if len(vals) < 2:
            continue
        name = "state{%s}" % ",".join(str(v) for v in vals)
        for bi, c in defs:
            if bi == 0:
                continue
            rows.append(["%s = %d" % (name, c), sorted(guards.guard_set(b, S, bi))])
    rows.sort(key=lambda r: (r[0], r[1]))
    return rows


def module_table(prog, A, fids, call_rx, adts=(), cursors=True):
    """generic decision table of a set of functions: calls matching call_rx (literal arguments shown), constructions of the given
    ADTs, scan-position steps and state-variable assignments, predicate functions' return conditions"""
    known = sym.known_functions()

    def eff(b, S, ev):
        nm = mir.strip_generics(ev[1])
        if not call_rx.search(nm):
            return None
        if known is not None and ev[1] in prog.bodies and prog.bodies[ev[1]].kind != "Closure" and prog.bodies[ev[1]].file != "a2lfile/src/specification.rs" and nm not in known:
            return None         # a helper the reviewed tree does not know: its effects are rows of their own (relocation), the call is not
        lits = []
        for i, a in enumerate(ev[2] or []):
            cs = sorted(sym.fmt(t) for t in a if isinstance(t, tuple) and t[0] == "const")
            if cs and len(cs) == len(a) and all(re.fullmatch(r"true|false|-?\d+_[iu](\d+|size)|\"[^\"]*\"", c) for c in cs):
                lits.append("#%d=%s" % (i, "|".join(cs)))
        last = nm.split("::")[-1]
        if last == "extend" and re.search(r"(HashSet|HashMap|BTreeSet|BTreeMap)", nm):
            last = "insert"     # set.extend(iter) records the same names as a loop of inserts
        return "call %s(%s)" % (last, ", ".join(lits))
    t = table_for(prog, A, fids, eff)
    for fid in fids:
        extra = []
        if adts:
            extra += agg_rows(prog, A, fid, set(adts))
        if cursors:
            try:
                extra += cursor_rows(prog, A, fid)
            except Exception:
                pass
            extra += state_rows(prog, A, fid)
        extra += bool_rows(prog, A, fid)
        if extra:
            key = re.sub(r"\{closure#\d+\}", "{closure}", mir.strip_generics(fid))
            t.setdefault(key, []).extend(extra)
            t[key].sort(key=lambda r: (r[0], r[1]))
    return t


def with_new_functions(prog, fids):
    """fids plus the functions of the same source files that the reviewed tree does not know (helpers extracted later): their
    rows take part in the comparison so that relocated decisions can be matched"""
    known = sym.known_functions()
    if known is None:
        return list(fids)
    files = {prog.bodies[f].file for f in fids if f in prog.bodies}
    extra = [f for f, b in prog.bodies.items() if b.file in files and b.kind != "Closure" and b.file != "a2lfile/src/specification.rs"
             and mir.strip_generics(f) not in known and f not in fids and "::test" not in f]
    return list(fids) + sorted(extra)
