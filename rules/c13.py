"""C13 ItemList: name index and positions stay coherent (structural clauses; DESIGN.md section 3, C13)

R13-pair    every mutation of `items` in an ItemList method is paired, on all paths, with the matching repair of `map`
R13-order   where a method both removes and inserts map keys, the removal dominates the insertion
R13-lookup  name lookups go through `map` and then index `items` with the looked-up position
R13-surface `items`/`map` are private and no method hands out `&mut Vec` / `&mut HashMap`
R13-panic   index obligations of the ItemList methods (see panics.py)
"""
import re
from . import mir, sym, panics
from .common import Finding

ITEMS = ("f", ("param", 1), "ItemList.items")
MAP = ("f", ("param", 1), "ItemList.map")

GROW = {"push"}
SHRINK_ONE = {"pop", "swap_remove", "remove"}
BULK = {"truncate", "clear", "sort_by", "sort", "sort_unstable_by", "sort_by_key", "sort_unstable", "sort_unstable_by_key", "sort_by_cached_key",
        "retain", "retain_mut", "dedup", "dedup_by", "dedup_by_key", "drain", "swap", "take", "replace", "reverse", "insert", "append",
        "extend", "extend_from_slice", "resize", "resize_with", "split_off", "rotate_left", "rotate_right", "splice", "set_len", "swap_with_slice",
        "copy_from_slice", "clone_from_slice", "fill", "fill_with", "clone_from"}
# calls that take `&mut items` without changing the set/order of elements
NEUTRAL = {"deref_mut", "iter_mut", "reserve", "reserve_exact", "shrink_to_fit", "shrink_to", "as_mut_slice", "index_mut", "get_mut", "first_mut",
           "last_mut", "into_iter", "as_mut", "borrow_mut", "capacity", "spare_capacity_mut"}


def has(terms, t):
    return t in terms


def subterms(t):
    """direct sub-terms of a term"""
    if not isinstance(t, tuple):
        return []
    k = t[0]
    if k == "f":
        return [t[1]]
    if k == "lookup":
        return [t[1], t[2]]
    if k == "call":
        return [a for a in t[2] if a is not None]
    return []


def derived_from(terms, base):
    """some term mentions `base` as a sub-term"""
    def rec(t):
        if t == base:
            return True
        return any(rec(x) for x in subterms(t))
    return any(rec(t) for t in terms)


def mentions_call(terms, callee_suffix, base=None):
    def rec(t):
        if isinstance(t, tuple) and t[0] == "call" and t[1].endswith(callee_suffix):
            if base is None or any(derived_from({a}, base) for a in t[2] if a is not None):
                return True
        return any(rec(x) for x in subterms(t))
    return any(rec(t) for t in terms)


def run(chk):
    prog = mir.prog()
    old = set(sym.TRANSPARENT_ADTS)
    sym.TRANSPARENT_ADTS.clear()
    try:
        _run(chk, prog)
    finally:
        sym.TRANSPARENT_ADTS.update(old)
    panics.run_scope(chk, "R13-panic", prog, [b.id for b in prog.bodies.values() if "itemlist::ItemList" in b.id],
                     what="panic obligations (index, unwrap, arithmetic) in the ItemList methods", floor=1)
    r13_bypass(chk, prog)
    chk.assumptions += ["std Vec/HashMap/slice functions behave as documented (push appends, swap_remove moves the last element into the hole, sort_by permutes)",
                        "not decided: the invariant itself over all operation histories (needs a program verifier, a different technique family)"]


def _run(chk, prog):
    A = sym.Analyzer(prog, opaque=[r".*itemlist::ItemList.*"])
    methods = [b for b in prog.bodies.values() if b.kind == "AssocFn" and b.impl_of and b.impl_of.startswith("itemlist::ItemList<")]
    adt = prog.adts.get("itemlist::ItemList")
    if adt is None:
        chk.add(Finding("R13-surface", "R13-surface::anchor", "type itemlist::ItemList not found"))
        chk.rule("R13-surface", "ItemList representation is private", 0, floor=1)
        return
    # ------------------------------------------------------------------ R13-surface
    fields = {f["name"]: f for f in adt["variants"][0]["fields"]}
    n = 0
    for fn in ("items", "map"):
        n += 1
        if fn not in fields:
            chk.add(Finding("R13-surface", "R13-surface::field::" + fn, "ItemList no longer has the field `%s` the rules are about" % fn, adt["file"]))
        elif fields[fn]["pub"]:
            chk.add(Finding("R13-surface", "R13-surface::pub::" + fn, "ItemList.%s is public: external code can break the name index" % fn, adt["file"]))
    for b in methods:
        n += 1
        ret = b.locals[0]["ty"]
        if b.vis == "pub" and re.search(r"&(\S+ )?mut (std::vec::Vec|std::collections::HashMap|\[)", ret):
            chk.add(Finding("R13-surface", "R13-surface::" + b.id, "%s hands out %s: callers can reorder/remove elements behind the name index" % (b.id, ret), b.where()))
    chk.rule("R13-surface", "ItemList fields private; no method returns &mut Vec / &mut HashMap / &mut [T]", n, floor=30)

    npair = 0
    norder = 0
    mutators = []
    for b in sorted(methods, key=lambda x: x.id):
        if b.kind != "AssocFn":
            continue
        S = A.summary(b.id)
        # own events, plus those of helper methods the reviewed tree does not know (expanded at their call site: e[6] is then
        # the calling block in this body)
        evs = [e for e in S.events if e[0] == "call" and (e[3] == b.id or not A.is_known(e[3]))]
        rets = b.return_blocks()
        map_removes = [e for e in evs if e[1].endswith("HashMap::remove") and e[2] and has(e[2][0], MAP)]
        map_inserts = [e for e in evs if (e[1].endswith("HashMap::insert") or e[1].endswith("HashMap::entry")) and e[2] and has(e[2][0], MAP)]
        map_clears = [e for e in evs if e[1].endswith("HashMap::clear") and e[2] and has(e[2][0], MAP)]
        short = b.id.split("::")[-1]
        is_mut = False

        def after_all_paths(ev_from, targets):
            """every path from the normal continuation of ev_from to a return passes one of targets"""
            tb = {t[6] for t in targets}
            if ev_from[6] in tb:
                return True
            succ = [x for x in b.succ()[ev_from[6]] if x not in tb]
            if not succ:
                return True
            return b.path_avoiding(succ, tb, rets) is None

        for e in evs:
            if not e[2] or not has(e[2][0], ITEMS):
                # mem::swap(&mut self.items, ..) has items as arg0 too; mem::take likewise
                continue
            seg = e[1].split("::")[-1]
            aty = e[7][0] if len(e) > 7 and e[7] else "?"
            takes_mut = bool(re.match(r"&mut (std::vec::Vec|\[)", aty)) or aty == "?"
            key = "%s::%s" % (b.id, seg)
            if seg in GROW:
                is_mut = True
                npair += 1
                pushed = e[2][1]
                ok = False
                for m in map_inserts:
                    keyterms = m[2][1] if len(m[2]) > 1 else frozenset()
                    if not any(mentions_call({k}, "get_name") for k in keyterms):
                        continue
                    # key must be the name of the pushed value
                    if not any(derived_from(keyterms, p) for p in pushed):
                        continue
                    # on all paths: insert before push (dominates) or after push on all paths
                    if b.dominates(m[6], e[6]) or after_all_paths(e, [m]):
                        ok = True
                        # index value: derived from len(items)
                        idx_ok = False
                        for v in evs:
                            if (v[1].endswith("Entry::or_insert") or v is m) and len(v[2]) >= 2:
                                vt = v[2][-1]
                                if mentions_call(vt, "Vec::len", ITEMS):
                                    idx_ok = True
                        # insert(key, self.items.len() - 1): the value is an arithmetic result (no term) -> accept when a len() call on items exists after the push
                        if not idx_ok:
                            idx_ok = any(v[1].endswith("Vec::len") and has(v[2][0], ITEMS) for v in evs)
                        if not idx_ok:
                            chk.add(Finding("R13-pair", "R13-pair::%s::index" % key, "%s: the position stored in the map for a pushed element is not derived from items.len()" % b.id, b.where(e[4])))
                if not ok:
                    chk.add(Finding("R13-pair", "R13-pair::" + key, "%s grows `items` (Vec::push) but does not, on every path, record the pushed element's name in `map`" % b.id, b.where(e[4])))
            elif seg in SHRINK_ONE:
                is_mut = True
                npair += 1
                # either the index came from map.remove(key) ...
                by_key = len(e[2]) > 1 and any(isinstance(t, tuple) and t[0] in ("lookup", "call") and derived_from({t}, MAP) for t in e[2][1]) and \
                    any(m for m in map_removes if b.dominates(m[6], e[6]))
                ok = by_key
                if not ok:
                    # ... or map.remove(name(removed)) on every path after the removed element is known
                    for m in map_removes:
                        kt = m[2][1] if len(m[2]) > 1 else frozenset()
                        if not mentions_call(kt, "get_name", ITEMS):
                            continue
                        # the block computing get_name(removed): every path from there to return must pass the remove
                        gn = [g for g in evs if g[1].endswith("get_name") and g[6] != m[6] and b.dominates(e[6], g[6]) and b.dominates(g[6], m[6])]
                        start = gn[0] if gn else e
                        if b.dominates(e[6], m[6]) and after_all_paths(start, [m]):
                            ok = True
                if not ok:
                    chk.add(Finding("R13-pair", "R13-pair::" + key, "%s removes an element from `items` (%s) but `map.remove(<its name>)` does not happen on every path afterwards" % (b.id, seg), b.where(e[4])))
                if seg == "swap_remove":
                    npair += 1
                    idxt = e[2][1] if len(e[2]) > 1 else frozenset()
                    fix = [m for m in map_inserts if e[1] and m[1].endswith("HashMap::insert") and len(m[2]) >= 3 and mentions_call(m[2][1], "get_name", ITEMS)
                           and (m[2][2] & idxt) and b.dominates(e[6], m[6])]
                    if not fix:
                        chk.add(Finding("R13-pair", "R13-pair::%s::moved" % key, "%s: after Vec::swap_remove the element moved into the hole is not re-registered in `map` under the same index" % b.id, b.where(e[4])))
            elif seg in BULK or (seg == "swap" and e[1].endswith("mem::swap")):
                is_mut = True
                npair += 1
                ok = bool(map_clears) and any(after_all_paths(e, [c]) or b.dominates(c[6], e[6]) for c in map_clears)
                if not ok:
                    chk.add(Finding("R13-pair", "R13-pair::" + key, "%s changes `items` wholesale (%s) but `map.clear()` (+rebuild) does not follow on every path" % (b.id, seg), b.where(e[4])))
                if seg not in ("clear",) and ok:
                    # rebuild: insert(name(elem of items), position) exists after the clear
                    rb = [m for m in map_inserts if len(m[2]) >= 2 and mentions_call(m[2][1], "get_name") and any(b.dominates(c[6], m[6]) for c in map_clears)]
                    if not rb:
                        chk.add(Finding("R13-pair", "R13-pair::%s::rebuild" % key, "%s clears `map` after %s but never re-inserts the remaining elements" % (b.id, seg), b.where(e[4])))
                if seg.startswith("sort"):
                    pass
            elif seg in NEUTRAL or not takes_mut:
                pass
            else:
                npair += 1
                chk.add(Finding("R13-pair", "R13-pair::%s::unclassified" % key, "%s passes `&mut items` to %s, an operation the rule does not know to keep `map` coherent" % (b.id, e[1]), b.where(e[4])))
        # rename: set_name on an element of items
        for e in evs:
            if e[1].endswith("A2lObjectNameSetter::set_name") and e[2] and derived_from(e[2][0], ITEMS):
                is_mut = True
                npair += 1
                newname = e[2][1] if len(e[2]) > 1 else frozenset()
                rm = [m for m in map_removes if len(m[2]) > 1 and mentions_call(m[2][1], "get_name", ITEMS) and b.dominates(m[6], e[6])]
                ins = [m for m in map_inserts if m[1].endswith("HashMap::insert") and len(m[2]) >= 3 and (m[2][1] & newname or any(derived_from(m[2][1], t) for t in newname)) and after_all_paths(e, [m])]
                if not rm or not ins:
                    chk.add(Finding("R13-pair", "R13-pair::%s::rename" % b.id, "%s renames an element but does not (remove old key before / insert new key after, on all paths)" % b.id, b.where(e[4])))
        # writes to the fields themselves
        for w in S.events:
            if w[0] == "write" and w[3] == b.id and w[1] in (ITEMS, MAP) and short not in ("new", "with_capacity", "default", "clone"):
                is_mut = True
                npair += 1
                if not map_clears:
                    chk.add(Finding("R13-pair", "R13-pair::%s::assign" % b.id, "%s assigns `%s` directly without rebuilding the map" % (b.id, sym.fmt(w[1])), b.where(w[4])))
        if is_mut:
            mutators.append(short)
        # ------------------------------------------------------------------ R13-order
        if map_removes and map_inserts:
            norder += 1
            for r in map_removes:
                for i in map_inserts:
                    if not b.dominates(r[6], i[6]):
                        chk.add(Finding("R13-order", "R13-order::" + b.id, "%s inserts a map key before (or without) removing the old one: if both names are equal the element loses its index entry" % b.id, b.where(i[4])))
    chk.rule("R13-pair", "mutations of `items` in ItemList methods paired on all paths with the matching repair of `map` (mutators: %s)" % ", ".join(sorted(set(mutators))), npair, floor=10)
    chk.rule("R13-order", "methods that remove and insert map keys: removal dominates insertion", norder, floor=3)
    for m in ("push", "pop", "swap_remove", "swap_remove_idx", "retain", "truncate", "sort_by", "rename_item", "clear"):
        if m not in mutators:
            chk.add(Finding("R13-pair", "R13-pair::anchor::" + m, "ItemList::%s is no longer recognised as a mutator of `items` (the rule lost its anchor)" % m))

    # ------------------------------------------------------------------ R13-lookup
    nl = 0
    for name, kind in (("get", "elem"), ("get_mut", "elem"), ("index", "pos"), ("contains_key", "bool")):
        b = prog.bodies.get("itemlist::ItemList::<T>::" + name)
        nl += 1
        if b is None:
            chk.add(Finding("R13-lookup", "R13-lookup::anchor::" + name, "ItemList::%s not found" % name))
            continue
        S = A.summary(b.id)
        evs = [e for e in S.events if e[0] == "call"]
        look = [e for e in evs if re.search(r"HashMap::(get|contains_key|get_key_value)$", e[1]) and has(e[2][0], MAP) and ("param", 2) in e[2][1]]
        if not look:
            chk.add(Finding("R13-lookup", "R13-lookup::" + b.id, "%s does not look its key up in `map`" % b.id, b.where()))
            continue
        if kind == "elem":
            ix = [e for e in evs if re.search(r"Index(Mut)?>?::index(_mut)?$|::get(_mut|_unchecked)?$", e[1]) and has(e[2][0], ITEMS)
                  and any(derived_from({t}, MAP) for t in e[2][1])]
            if not ix:
                chk.add(Finding("R13-lookup", "R13-lookup::%s::index" % b.id, "%s does not index `items` with the position found in `map`" % b.id, b.where()))
    b = prog.bodies.get("<itemlist::ItemList<T> as std::ops::Index<&str>>::index")
    nl += 1
    if b is None:
        chk.add(Finding("R13-lookup", "R13-lookup::anchor::Index<&str>", "Index<&str> for ItemList not found"))
    chk.rule("R13-lookup", "name lookups go through `map`, element access uses the looked-up position", nl, floor=5)


def _chain_calls(b, l, depth=0, seen=None):
    """callees passed through while following the value of local l back to where it comes from (copies, references, field
    projections, first argument of calls)"""
    seen = set() if seen is None else seen
    if depth > 14 or l in seen or 1 <= l <= b.argc:
        return []
    seen.add(l)
    out = []
    for blk in b.blocks:
        if blk["cleanup"]:
            continue
        for st in blk["s"]:
            if st["k"] == "assign" and not st["p"]["p"] and st["p"]["l"] == l:
                rv = st["rv"]
                pl = rv["p"] if rv["r"] == "ref" else (mir.op_place(rv["a"]) if rv["r"] in ("use", "cast") else None)
                # a field of the value (other than the payload of an Option / Result) is a different object: stop there
                if pl is not None and all(e == "*" or (isinstance(e, dict) and ("down" in e or (e.get("adt") or "").startswith(("std::option::Option", "std::result::Result")))) for e in pl["p"]):
                    out += _chain_calls(b, pl["l"], depth + 1, seen)
        t = blk["t"]
        if t["k"] == "call" and t.get("dest") and not t["dest"]["p"] and t["dest"]["l"] == l:
            out.append(t.get("res") or t.get("fn") or "?")
            if t["args"]:
                ap = mir.op_place(t["args"][0])
                if ap is not None:
                    out += _chain_calls(b, ap["l"], depth + 1, seen)
    return out


def r13_bypass(chk, prog, rule="R13-bypass"):
    """the name of an element that sits in an ItemList is the key of the list's index: outside itemlist.rs nothing assigns to the
    `name` field of an element reached through an ItemList (iteration, get_mut, index_mut); renaming goes through rename_item()"""
    n = 0
    for fid, b in sorted(prog.bodies.items()):
        if not (b.file or "").startswith("a2lfile/src/") or b.file in ("a2lfile/src/itemlist.rs", "a2lfile/src/specification.rs"):
            continue
        for bi, si, st in b.stmts():
            if st["k"] != "assign" or not st["p"]["p"]:
                continue
            last = st["p"]["p"][-1]
            if not (isinstance(last, dict) and last.get("f") == "name" and (last.get("adt") or "").startswith("specification::")):
                continue
            n += 1
            calls = _chain_calls(b, st["p"]["l"])
            # by-value iteration (`for x in list`) hands out owned elements that are no longer in any list
            via = [c for c in calls if "itemlist::ItemList" in c and not re.search(r"<itemlist::ItemList(<.*>)? as std::iter::IntoIterator>::into_iter$", c)]
            if not all(e == "*" for e in st["p"]["p"][:-1]):
                via = []        # a field of a nested object, not the element's own name
            if via:
                chk.add(Finding(rule, "%s::%s::%s" % (rule, mir.strip_generics(fid), last.get("adt", "").split("::")[-1]), "%s assigns the name of a %s that it reached through %s: the ItemList's name index keeps the old key (the element can no longer be found under its new name); use rename_item()" % (fid, last.get("adt"), mir.strip_generics(via[0])), b.where(st["ln"])))
    chk.rule(rule, "assignments to the name field of specification elements outside itemlist.rs: not through an ItemList", n, floor=10)


def shared(chk, rule, why, floor=50):
    """the ItemList pairing / lookup rules as a necessary condition of another property whose code looks elements up by name"""
    from . import common
    sub = common.Check(chk.pid, chk.tier)
    old = set(sym.TRANSPARENT_ADTS)
    sym.TRANSPARENT_ADTS.clear()
    try:
        _run(sub, mir.prog())
    finally:
        sym.TRANSPARENT_ADTS.update(old)
    prog = mir.prog()
    panics.run_scope(sub, "R13-panic", prog, [b.id for b in prog.bodies.values() if "itemlist::ItemList" in b.id],
                     what="panic obligations (index, unwrap, arithmetic) in the ItemList methods", floor=1)
    for f in sub.findings:
        chk.add(Finding(rule, f.key.replace("R13-", rule + "-"), why + ": " + f.msg, f.where, f.detail))
    chk.rule(rule, "ItemList pairing/lookup rules (see C13) this property's code relies on", sum(r["instances"] for r in sub.rules), floor=floor)
