"""C15 sort_new_items(): stable placement over long edit histories (structural clauses; DESIGN.md section 3, C15)"""
from . import mir, panics, scopes


def run(chk):
    prog = mir.prog()
    scope = {f for f in prog.reachable([r for r in ("sort::sort_new_items",) if r in prog.bodies]) if f.startswith("sort::")}
    panics.run_scope(chk, "R15-overflow", prog, scope, what="arithmetic/index obligations on the persistent uid in sort_new_items() and its helpers", floor=10)
    chk.assumptions += ["not decided: placement 'directly after the last placed element of its kind' (runtime order)"]
