"""C15 sort_new_items(): stable placement over arbitrarily long edit histories (structural clauses; DESIGN.md section 3, C15)

R15-overflow arithmetic obligations on the persistent uid (the doubling scheme): known finding
R15-cover    every uid-carrying child list of Module goes through exactly one order-preserving update per call
R15-frame    only layout fields are written
R15-table    uid updates with their control predicates equal the reviewed table (e.g. `maxid > 0` for IF_DATA / USER_RIGHTS)
R15-stable   the writer orders a group with a stable sort (elements that compare equal keep their order between writes)
"""
import re
from . import mir, sym, panics, scopes, diag, sortrules, refs
from .common import Finding


def run(chk):
    prog = mir.prog()
    if "sort::sort_new_items" not in prog.bodies:
        chk.add(Finding("R15-frame", "R15-frame::anchor", "sort::sort_new_items not found"))
        return
    scope = {f for f in prog.reachable(["sort::sort_new_items"]) if f.startswith("sort::")}
    panics.run_scope(chk, "R15-overflow", prog, scope, what="arithmetic/index obligations on the persistent uid in sort_new_items() and its helpers", floor=10)
    sortrules.frame(chk, "R15-frame", prog, "sort::sort_new_items")
    # ---------------------------------------------------------------- R15-cover
    A = sym.Analyzer(prog, opaque=[r"sort::sort_objectlist_new", r"sort::sort_optional_item", r".*::get_layout_mut", r".*::get_layout"])
    S = A.summary("sort::sort_new_items")
    touched = {}
    for ev in S.events:
        paths = set()
        if ev[0] == "call" and ev[2]:
            for t in ev[2][0]:
                r, p = refs.term_path(t)
                if p:
                    paths.add(p)
            if re.search(r"sort::(sort_objectlist_new|sort_optional_item)$", ev[1]) or (ev[1].endswith("get_layout_mut")):
                for p in paths:
                    segs = p.split("/")
                    for i, sg in enumerate(segs):
                        if sg.startswith("Module."):
                            touched.setdefault(sg, set()).add(ev[1].split("::")[-1])
        elif ev[0] == "write":
            r, p = refs.term_path(ev[1])
            segs = p.split("/")
            for sg in segs:
                if sg.startswith("Module.") and segs[-1] in ("Comment.uid", "BlockInfo.uid"):
                    touched.setdefault(sg, set()).add("write")
    adt = prog.adts.get("specification::Module")
    n = 0
    if adt:
        for f in adt["variants"][0]["fields"]:
            if f["name"] in ("name", "long_identifier", "__block_info"):
                continue
            n += 1
            if "Module." + f["name"] not in touched:
                chk.add(Finding("R15-cover", "R15-cover::Module." + f["name"], "sort_new_items() does not renumber Module.%s: its elements keep their old uids while all others are doubled, so they move relative to the already placed elements" % f["name"], prog.bodies["sort::sort_new_items"].where()))
    chk.rule("R15-cover", "uid-carrying children of Module renumbered by sort_new_items", n, floor=27)
    # ---------------------------------------------------------------- R15-table
    fids = [f for f in scope if prog.bodies[f].file == "a2lfile/src/sort.rs"]
    diag.compare(chk, "R15-table", "sort", sortrules.sort_table(prog, fids), "uid updates reachable from sort::sort_new_items with their control predicates, compared with the reviewed table", floor=15,
                 fn_filter=lambda fn: fn in {re.sub(r"\{closure#\d+\}", "{closure}", mir.strip_generics(f)) for f in fids} or fn.split("::{closure}")[0] in {mir.strip_generics(f) for f in fids})
    # comparators of sort.rs (placement of new elements behind placed ones, order among new elements): semantic decision tables
    from . import cmpsem
    cmpsem.compare(chk, "R15-cmp", select=lambda n: n.startswith("sort::"), floor=3)
    # ---------------------------------------------------------------- R15-next
    # "the slot behind an element that already has a position" is (its doubled uid) + 1: wherever a uid field is read to form `uid + 1`,
    # the doubled value has been stored in that field on every path to the read (uid + 1 of the undoubled value lies at or before
    # the doubled uids of the elements that follow, so the new element would be written in front of them)
    nnext = 0

    def is_uid(pl):
        return pl is not None and pl["p"] and isinstance(pl["p"][-1], dict) and pl["p"][-1].get("f") == "uid"
    for fid in fids:
        b = prog.bodies[fid]
        muls, writes, reads, adds = {}, [], {}, []
        for bi, si, st in b.stmts():
            if st["k"] != "assign":
                continue
            rv = st["rv"]
            if rv["r"] == "bin" and rv["op"].startswith("Mul") and is_uid(mir.op_place(rv["a"])) and mir.const_int(rv["b"]) == 2 and not st["p"]["p"]:
                muls[st["p"]["l"]] = (bi, si)
            elif rv["r"] == "use" and is_uid(st["p"]):
                src = mir.op_place(rv["a"])
                if src is not None and src["l"] in muls:
                    writes.append((bi, si, st["p"]["l"]))
            elif rv["r"] == "use" and not st["p"]["p"] and is_uid(mir.op_place(rv["a"])):
                reads[st["p"]["l"]] = (bi, si, mir.op_place(rv["a"])["l"])
            elif rv["r"] == "bin" and rv["op"].startswith("Add") and mir.const_int(rv["b"]) == 1:
                adds.append((bi, si, rv["a"], st["ln"]))
        for bi, si, a, ln in adds:
            pl = mir.op_place(a)
            rd = reads.get(pl["l"]) if pl is not None and not pl["p"] else ((bi, si, pl["l"]) if is_uid(pl) else None)
            if rd is None:
                continue
            nnext += 1
            ok = any(w[2] == rd[2] and ((w[0] == rd[0] and w[1] < rd[1]) or (w[0] != rd[0] and b.dominates(w[0], rd[0]))) for w in writes)
            if not ok:
                chk.add(Finding("R15-next", "R15-next::%s" % mir.strip_generics(fid), "%s forms `uid + 1` from a uid that has not been doubled on every path to this point: the position handed to the next new element lies in front of the doubled positions of the elements that follow" % fid, b.where(ln)))
    chk.rule("R15-next", "`uid + 1` computations in sort.rs that read the uid after its doubling was stored", nnext, floor=2)
    # ---------------------------------------------------------------- R15-stable
    n = 0
    for fid, b in prog.bodies.items():
        if b.file != "a2lfile/src/writer.rs":
            continue
        for bi, t in b.calls():
            r = mir.strip_generics((t.get("res") or "").lstrip("?"))
            if re.search(r"slice::sort", r) or re.search(r"::sort(_unstable)?(_by|_by_key)?$", r):
                n += 1
                if "unstable" in r:
                    chk.add(Finding("R15-stable", "R15-stable::" + mir.strip_generics(fid), "%s orders output elements with %s: elements that compare equal (same uid, line and tag) can change places between two writes" % (fid, r), b.where(t["ln"])))
    chk.rule("R15-stable", "sort calls in writer.rs that are stable", n, floor=1)
    # histories include merge_modules(): merged elements must arrive as 'new' elements (R08-reset of C08)
    from . import common, c08
    sub = common.Check(chk.pid, chk.tier)
    c08.run(sub)
    for f in sub.findings:
        if f.rule == "R08-reset":
            chk.add(Finding("R15-reset", f.key.replace("R08-reset", "R15-reset"), f.msg, f.where, f.detail))
    chk.rule("R15-reset", "elements moved in by merge_modules() whose location info is reset (so that sort_new_items() places them as new elements)", sum(r["instances"] for r in sub.rules if r["rule"] == "R08-reset"), floor=20)
    from . import writertab
    writertab.compare(chk, "R15-order", fn_filter=lambda fn: fn.split("::")[-1] in ("sort_function", "add_group", "apply_position_restrictions"), floor=20)
    chk.assumptions += ["not decided: placement 'directly after the last placed element of its kind' (runtime order)"]
