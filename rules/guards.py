"""A7: guarded-effect tables.  For an effect site (a call in some block) the set of control predicates that decide whether it
executes, in a structural normal form: callee names, comparison operators, operand provenance (access paths / constants),
polarity.  No source text, no line numbers, no local names."""
import re
from . import mir, sym

CMP = {"Lt": "<", "Le": "<=", "Gt": ">", "Ge": ">=", "Eq": "==", "Ne": "!="}
NEG = {"<": ">=", "<=": ">", ">": "<=", ">=": "<", "==": "!=", "!=": "=="}


def fmt_terms(terms, limit=3):
    xs = sorted({sym.fmt(t) for t in terms if not (isinstance(t, tuple) and t[0] == "var")})
    if not xs:
        xs = sorted({sym.fmt(t) for t in terms})
    xs = [re.sub(r"var:\w+", "var", re.sub(r"promoted\[\d+\]", "promoted", x)) for x in xs]
    novar = [x for x in xs if not re.search(r"\bvar\b", x)]
    if novar:
        xs = novar          # a named local that merely aliases a described value adds nothing
    if len(xs) > 1:
        # `f(_, _, x)` next to `f(a, _, x)`: the same value described with fewer known arguments adds nothing
        def general(x, y):
            if x == y or "_" not in x:
                return False
            marked = re.sub(r"(?<=[(\s])_(?=[,)])", "\x00", x)
            if "\x00" not in marked:
                return False
            rx = re.escape(marked).replace("\x00", ".+?").replace(re.escape("\x00"), ".+?")
            return re.fullmatch(rx, y) is not None
        xs = [x for x in xs if not any(general(x, y) for y in xs)]
    if xs and all(isinstance(t, tuple) and t[0] == "const" for t in terms):
        limit = 16          # a set of literals (e.g. the characters of a `contains([..])` test) is kept whole
    return "|".join(xs[:limit]) if xs else "?"


def _single_def(b, l):
    d = None
    for blk in b.blocks:
        for s_ in blk["s"]:
            if s_["k"] == "assign" and not s_["p"]["p"] and s_["p"]["l"] == l:
                if d is not None:
                    return None
                d = s_
        t_ = blk["t"]
        if t_["k"] == "call" and not t_["dest"]["p"] and t_["dest"]["l"] == l:
            return None
    return d


def const_local(b, l, depth=0):
    """the integer constant a single-definition local holds (through copies), or None"""
    if depth > 4:
        return None
    d = _single_def(b, l)
    if d is None or d["rv"]["r"] != "use":
        return None
    c = mir.const_int(d["rv"]["a"])
    if c is not None:
        return c
    pl = mir.op_place(d["rv"]["a"])
    if pl is not None and not pl["p"]:
        return const_local(b, pl["l"], depth + 1)
    return None


def arith_desc(b, S, l, depth=0):
    """`(x Sub 1)` for a single-definition local computed by +,-,* (checked or not) from described operands, else None"""
    if depth > 3:
        return None
    d = _single_def(b, l)
    if d is None:
        return None
    rv = d["rv"]
    if rv["r"] == "use":
        pl = mir.op_place(rv["a"])
        # `.0` of a checked-arithmetic tuple
        if pl is not None and len(pl["p"]) == 1 and isinstance(pl["p"][0], dict) and pl["p"][0].get("f") == "0" and pl["p"][0].get("adt") == "(tuple)":
            return arith_desc(b, S, pl["l"], depth + 1)
        return None
    if rv["r"] == "bin" and re.fullmatch(r"(Add|Sub|Mul|Div|Rem)(WithOverflow|Unchecked)?", rv["op"]):
        a, c = op_desc(b, S, rv["a"]), op_desc(b, S, rv["b"])
        if a.startswith("local:") and c.startswith("local:"):
            return None
        return "(%s %s %s)" % (a, re.sub(r"WithOverflow|Unchecked", "", rv["op"]), c)
    return None


def op_desc(b, S, op, _d=0):
    if "k" in op:
        return op["k"]
    pl = mir.op_place(op)
    if not pl["p"] and _d < 4:
        # a temporary that holds a copy of an indexed element: describe the element
        d0 = _single_def(b, pl["l"])
        if d0 is not None and d0["rv"]["r"] == "use":
            p0 = mir.op_place(d0["rv"]["a"])
            if p0 is not None and any(isinstance(e, dict) and ("idx" in e or "cidx" in e) for e in p0["p"]):
                return op_desc(b, S, d0["rv"]["a"], _d + 1)
    terms = set(S.vals.get(pl["l"], set()))
    proj = list(pl["p"])
    # a field of a locally built tuple (e.g. `match (a.uid(), b.uid())`): use what was stored in that field
    while proj and proj[0] == "*":
        proj = proj[1:]
    if proj and isinstance(proj[0], dict) and "f" in proj[0] and not sym.is_repo_adt(proj[0].get("adt") or "") and (pl["l"], proj[0]["f"]) in S.vals:
        terms = set(S.vals[(pl["l"], proj[0]["f"])])
        pl = {"l": pl["l"], "p": proj[1:]}
    idx_suffix = ""
    for e in pl["p"]:
        if isinstance(e, dict) and "f" in e and sym.is_repo_adt(e["adt"]):
            nm = sym.short_adt(e["adt"]) + ("::" + e["v"] if e.get("v") else "") + "." + e["f"]
            terms = {("f", x, nm) for x in terms}
        elif isinstance(e, dict) and "idx" in e:
            # element selected by a constant (or constant-valued) index: `buf[0]` and `buf[3]` are different operands
            c = const_local(b, e["idx"])
            if c is not None:
                idx_suffix += "[%s]" % c
        elif isinstance(e, dict) and "cidx" in e:
            idx_suffix += "[%s]" % e["cidx"]
    if idx_suffix:
        base = fmt_terms(terms) if terms else "local:" + b.locals[pl["l"]]["ty"].replace("std::", "")
        return base + idx_suffix
    if not terms and not pl["p"]:
        ar = arith_desc(b, S, pl["l"])
        if ar is not None:
            return ar
    if not terms or "{closure@" in b.locals[pl["l"]]["ty"]:
        ty = b.locals[pl["l"]]["ty"]
        if "{closure@" in ty and not pl["p"]:
            cd = closure_desc(b, pl["l"])
            if cd is not None:
                return "{|..| %s}" % cd
        if terms:
            return fmt_terms(terms)
        return "local:" + re.sub(r"\{closure@[^}]*\}", "{closure}", ty.replace("std::", ""))
    return fmt_terms(terms)


OPT_TESTS = {"Option::is_some": ("discr(%s) == Some", True), "Option::is_none": ("discr(%s) == Some", False),
             "Result::is_ok": ("discr(%s) == Ok", True), "Result::is_err": ("discr(%s) == Ok", False)}


def canon_test(name, args):
    """(description, positive?) of a boolean call: `x.is_some()` and `matches!(x, Some(_))` / `if let Some(_) = x` are one test;
    std callees are named by their last two path segments (as in operand descriptions), repo callees by their full path"""
    short = "::".join(name.split("::")[-2:])
    short = re.sub(r"^(option|result)::", "", short)
    # `a != b` through PartialEq::ne is the negation of `a == b`
    if re.search(r"(PartialEq(<.*>)?>?::ne|cmp::PartialEq::ne)$", name) or (name.split("::")[-1] == "ne" and (name.startswith("<") or re.match(r"(std|core|alloc)::", name))):
        return ("eq(%s)" % args, False)
    # membership of a value in a sequence: `s.contains(&x)`, `s.iter().any(|e| e == x)`, `s.iter().find(|e| e == x).is_some()` are one
    # test (what the closure compares is a row of its own unless it compares the whole element)
    if short in ("Option::is_some", "Option::is_none"):
        m = re.fullmatch(r"(?:find|position)\((.*), (_|\{\|\.\.\| eq\((?:arg\d+, arg1\.#\d+|arg1\.#\d+, arg\d+)\)\})\)", args)
        if m:
            return ("member(%s)" % m.group(1), short == "Option::is_some")
    if name.split("::")[-1] == "any" and (name.startswith("<") or re.match(r"(std|core|alloc)::", name)):
        m = re.fullmatch(r"(.*), (_|\{\|\.\.\| eq\((?:arg\d+, arg1\.#\d+|arg1\.#\d+, arg\d+)\)\})", args)
        if m:
            return ("member(%s)" % m.group(1), True)
    if re.search(r"(slice::<impl \[T\]>::contains|slice::contains|vec::Vec::contains|Vec::contains)$", name):
        m = re.fullmatch(r"(.*?), (.*)", args)
        if m:
            return ("member(%s)" % m.group(1), True)
    if short in OPT_TESTS and "," not in args:
        pat, pos = OPT_TESTS[short]
        return (pat % args, pos)
    if re.match(r"(std|core|alloc)::", name) or name.startswith("<"):
        name = name.split("::")[-1]
    return ("%s(%s)" % (name, args), True)


def const_bool_defs(b, l):
    """blocks that assign the constants true / false to the bool local l, if all its definitions are such constants
    (the shape `matches!(..)` and `let flag = if c { true } else { false }` compile to); else None"""
    t, f = [], []
    for bi, blk in enumerate(b.blocks):
        if blk["cleanup"]:
            continue
        for s in blk["s"]:
            if s["k"] == "assign" and not s["p"]["p"] and s["p"]["l"] == l:
                if s["rv"]["r"] == "use" and s["rv"]["a"].get("k") in ("true", "false"):
                    (t if s["rv"]["a"]["k"] == "true" else f).append(bi)
                else:
                    return None
        tt = blk["t"]
        if tt["k"] == "call" and not tt["dest"]["p"] and tt["dest"]["l"] == l:
            return None
    if not t or not f:
        return None
    return t, f


_clA = None


def closure_desc(b, l):
    """what a predicate closure stored in local l tests: the description of its bool result (`|sc| sc.name == x` ->
    `eq(arg2.name, arg1.#0)`), or None when the closure is not a simple predicate"""
    global _clA
    cl = None
    for blk in b.blocks:
        for s in blk["s"]:
            if s["k"] == "assign" and not s["p"]["p"] and s["p"]["l"] == l and s["rv"]["r"] == "agg" and s["rv"].get("kind") == "closure":
                cl = s["rv"].get("cl")
    prog = mir.prog()
    if cl is None or cl not in prog.bodies:
        return None
    cb = prog.bodies[cl]
    if not cb.locals or cb.locals[0]["ty"] != "bool":
        return None
    if _clA is None:
        _clA = sym.Analyzer(prog)
    try:
        Sc = _clA.summary(cl)
    except RecursionError:
        return None
    if Sc is None:
        return None
    dsc, pos = bool_desc(cb, Sc, 0, 2)
    if dsc in ("flag", "expr"):
        return None
    return dsc if pos else "!(" + dsc + ")"


def bool_desc(b, S, l, depth=0):
    """(description, positive?) of the bool local l from its single definition"""
    defs = []
    for bi, blk in enumerate(b.blocks):
        for s in blk["s"]:
            if s["k"] == "assign" and not s["p"]["p"] and s["p"]["l"] == l:
                defs.append(("s", s))
        t = blk["t"]
        if t["k"] == "call" and not t["dest"]["p"] and t["dest"]["l"] == l:
            defs.append(("c", t))
    if 1 <= l <= b.argc:
        return ("arg%d" % l, True)
    if len(defs) != 1 or depth > 4:
        return ("flag", True)
    kind, d = defs[0]
    if kind == "c":
        name = mir.strip_generics((d.get("res") or "?").lstrip("?"))
        args = ", ".join(op_desc(b, S, a) for a in d["args"])
        return canon_test(name, args)
    rv = d["rv"]
    if rv["r"] == "bin" and rv["op"] in CMP:
        return ("%s %s %s" % (op_desc(b, S, rv["a"]), CMP[rv["op"]], op_desc(b, S, rv["b"])), True)
    if rv["r"] == "un" and rv["op"] == "Not":
        pl = mir.op_place(rv["a"])
        if pl is not None and not pl["p"]:
            dsc, pos = bool_desc(b, S, pl["l"], depth + 1)
            return (dsc, not pos)
    if rv["r"] == "use":
        pl = mir.op_place(rv["a"])
        if pl is not None and not pl["p"]:
            return bool_desc(b, S, pl["l"], depth + 1)
        if pl is not None:
            return (op_desc(b, S, rv["a"]), True)
        return (rv["a"].get("k", "?"), True)
    return ("expr", True)


def switch_desc(b, S, sb, taken):
    t = b.blocks[sb]["t"]
    d = mir.op_place(t["d"])
    vals = [v for v, bb in t["ts"] if bb == taken]
    is_other = taken == t["o"] and not vals
    if t["dty"] == "bool" and d is not None and not d["p"]:
        dsc, pos = bool_desc(b, S, d["l"])
        truth = (not is_other and vals == ["1"]) or (is_other and [v for v, _ in t["ts"]] == ["0"])
        if not pos:
            truth = not truth
        m = re.fullmatch(r"(.*) (<|<=|>|>=|==|!=) (.*)", dsc)
        if m and not truth:
            return "%s %s %s" % (m.group(1), NEG[m.group(2)], m.group(3))
        return dsc if truth else "!(" + dsc + ")"
    if t["dty"] == "bool" and d is not None and d["p"]:
        dsc = op_desc(b, S, t["d"])
        truth = (not is_other and vals == ["1"]) or (is_other and [v for v, _ in t["ts"]] == ["0"])
        m = re.fullmatch(r"(is_some|is_none|is_ok|is_err)\((.*)\)", dsc)
        if m and "|" not in m.group(2):
            pat, pos = OPT_TESTS[{"is_some": "Option::is_some", "is_none": "Option::is_none", "is_ok": "Result::is_ok", "is_err": "Result::is_err"}[m.group(1)]]
            dsc = pat % m.group(2)
            if not pos:
                truth = not truth
        m = re.fullmatch(r"(.*) (<|<=|>|>=|==|!=) (.*)", dsc)
        if m and not truth:
            return "%s %s %s" % (m.group(1), NEG[m.group(2)], m.group(3))
        return dsc if truth else "!(" + dsc + ")"
    # discriminant / integer switch
    subj = "?"
    disc_names = None
    if d is not None and not d["p"]:
        for s in reversed(b.blocks[sb]["s"]):
            if s["k"] == "assign" and not s["p"]["p"] and s["p"]["l"] == d["l"]:
                rv = s["rv"]
                if rv["r"] == "discr":
                    subj = "discr(%s)" % op_desc(b, S, {"c": rv["p"]})
                    adt = rv.get("adt")
                    if adt:
                        disc_names = variant_names(adt)
                    if adt and not is_other:
                        names = variant_names(adt)
                        vals = [names.get(v, v) for v in vals]
                elif rv["r"] == "use":
                    subj = op_desc(b, S, rv["a"])
                break
        else:
            subj = op_desc(b, S, t["d"])
    elif d is not None:
        subj = op_desc(b, S, t["d"])
    ity = t.get("dty") if re.fullmatch(r"[iu](8|16|32|64|128|size)", t.get("dty") or "") else None
    if ity and not subj.startswith("discr("):
        # integer switch: same normal form as a comparison with a typed constant
        if is_other:
            others = sorted(v for v, _ in t["ts"])
            if len(others) == 1:
                return "%s != %s_%s" % (subj, others[0], ity)
            return "%s not in {%s}" % (subj, ",".join("%s_%s" % (v, ity) for v in others))
        if len(vals) == 1:
            return "%s == %s_%s" % (subj, vals[0], ity)
        return "%s == %s" % (subj, "|".join("%s_%s" % (v, ity) for v in vals))
    if is_other:
        others = sorted(v for v, _ in t["ts"])
        if len(others) == 1 and subj.startswith("discr(") and disc_names:
            return two_variant("%s != %s" % (subj, disc_names.get(others[0], others[0])))
        if subj.startswith("discr(") and disc_names:
            others = sorted(disc_names.get(v, v) for v in others)       # variants by name, as in the positive arms
        return "%s not in {%s}" % (subj, ",".join(others))
    return two_variant("%s == %s" % (subj, "|".join(vals)))


TWO = {"Err": "Ok", "None": "Some", "Break": "Continue"}


def two_variant(g):
    """Result / Option / ControlFlow have two variants: `== Err` is `!= Ok` (one canonical variant per type)"""
    m = re.fullmatch(r"(discr\(.*\)) (==|!=) (Err|None|Break)", g)
    if m:
        g = "%s %s %s" % (m.group(1), "!=" if m.group(2) == "==" else "==", TWO[m.group(3)])
    # `v.last()` / `v.first()` is Some exactly when v is not empty
    m = re.fullmatch(r"discr\((?:last|first)\(([^()]*(?:\([^()]*\))?[^()]*)\)\) (==|!=) Some", g)
    if m:
        return ("!(is_empty(%s))" if m.group(2) == "==" else "is_empty(%s)") % m.group(1)
    return g


_variants = {}


def variant_names(adt):
    if adt not in _variants:
        m = {}
        if adt == "std::option::Option":
            m = {"0": "None", "1": "Some"}
        elif adt == "std::result::Result":
            m = {"0": "Ok", "1": "Err"}
        elif adt == "std::ops::ControlFlow":
            m = {"0": "Continue", "1": "Break"}
        else:
            a = mir.prog().adts.get(adt)
            if a:
                m = {str(i): v["name"] for i, v in enumerate(a["variants"])}
        _variants[adt] = m
    return _variants[adt]


def guard_set(b, S, block, drop_iter=True, _depth=0):
    out = set()
    for (sb, taken) in b.control_deps_closure(block):
        t = b.blocks[sb]["t"]
        d = mir.op_place(t["d"])
        if t.get("dty") == "bool" and d is not None and not d["p"] and _depth < 4:
            # a test on a flag that only ever holds the constants true/false: the decision was taken where the flag was set
            # (matches!(..), `let is_x = if .. { true } else { false }`); continue with the conditions of those assignments
            src = resolve_copy(b, d["l"])
            cd = const_bool_defs(b, src)
            if cd is not None:
                vals = [v for v, bb in t["ts"] if bb == taken]
                is_other = taken == t["o"] and not vals
                truth = (not is_other and vals == ["1"]) or (is_other and [v for v, _ in t["ts"]] == ["0"])
                for db in (cd[0] if truth else cd[1]):
                    out |= guard_set(b, S, db, drop_iter, _depth + 1)
                continue
        if d is not None and not d["p"] and t.get("dty") != "bool" and _depth < 4:
            srcl = discr_source(b, sb, d)
            sd = selector_defs(b, resolve_copy(b, srcl)) if srcl is not None else None
            if sd is not None:
                vals = [v for v, bb in t["ts"] if bb == taken]
                if taken == t["o"] and not vals:
                    vals = [k for k in sd if k not in {v for v, _ in t["ts"]}]
                hit = False
                for v in vals:
                    for db in sd.get(v, []):
                        out |= guard_set(b, S, db, drop_iter, _depth + 1)
                        hit = True
                if hit:
                    continue
        g = switch_desc(b, S, sb, taken)
        m = re.fullmatch(r"(discr\(.*\)) == ([\w|]+)", g)
        if m and "|" in m.group(2):
            for v in m.group(2).split("|"):     # `A | B => ..` is the same decision as two arms
                out.add("%s == %s" % (m.group(1), v))
        else:
            out.add(g)
    if _depth == 0:
        k = (fkey(b), tuple(sorted(out)))
        if k not in FORMULAS:
            FORMULAS[k] = reach_formula(b, S, block)
    return out


def resolve_copy(b, l, depth=0):
    """follow `x = copy/move y` chains of single-definition temporaries"""
    if depth > 6:
        return l
    defs = []
    for blk in b.blocks:
        for s in blk["s"]:
            if s["k"] == "assign" and not s["p"]["p"] and s["p"]["l"] == l:
                defs.append(s)
        tt = blk["t"]
        if tt["k"] == "call" and not tt["dest"]["p"] and tt["dest"]["l"] == l:
            return l
    if len(defs) == 1 and defs[0]["rv"]["r"] == "use":
        pl = mir.op_place(defs[0]["rv"]["a"])
        if pl is not None and not pl["p"]:
            return resolve_copy(b, pl["l"], depth + 1)
    return l


def error_variant(b, block, adt_suffixes=("A2lError", "ParserError", "TokenizerError")):
    """variant of the error value built for the effect in `block`: nearest aggregate of an error ADT in the block or its
    chain of unique predecessors"""
    seen = set()
    cur = block
    preds = b.preds()
    for _ in range(12):
        if cur in seen:
            break
        seen.add(cur)
        for s in reversed(b.blocks[cur]["s"]):
            if s["k"] == "assign" and s["rv"]["r"] == "agg" and s["rv"].get("kind") == "adt" and s["rv"]["adt"].split("::")[-1] in adt_suffixes:
                return s["rv"]["adt"].split("::")[-1] + "::" + (s["rv"]["v"] or "")
        t = b.blocks[cur]["t"]
        if cur != block and t["k"] == "call" and t.get("res"):
            nm = mir.strip_generics(t["res"].lstrip("?"))
            if re.search(r"ParserError::[a-z_]+$", nm):
                return "ParserError::" + nm.split("::")[-1]
            # a constructor helper the reviewed tree does not know that builds exactly one variant of an error type
            hb = mir.prog().bodies.get(t["res"])
            known = sym.known_functions()
            if hb is not None and known is not None and nm not in known and hb.kind != "Closure" and hb.locals and hb.locals[0]["ty"].split("::")[-1] in adt_suffixes:
                built = {(x["rv"]["adt"].split("::")[-1], x["rv"]["v"] or "") for _, _, x in hb.stmts()
                         if x["k"] == "assign" and x["rv"]["r"] == "agg" and x["rv"].get("kind") == "adt" and x["rv"]["adt"].split("::")[-1] in adt_suffixes}
                if len(built) == 1:
                    a, v = list(built)[0]
                    return a + "::" + v
        ps = [p for p in preds[cur] if not b.blocks[p]["cleanup"]]
        if len(ps) != 1:
            break
        cur = ps[0]
    return "?"


# ---------------------------------------------------------------------------------------------
# reaching conditions as boolean formulas, compared for logical equivalence
#
# guard_set() gives the *set of predicates* an effect is control dependent on.  Two codings of the same decision - an if/else-if
# chain and a match on a tuple, nested if-lets and a flattened `and_then`, a guard clause with early return - have different
# predicate sets although the effect happens under exactly the same condition.  reach_formula() therefore also builds the
# condition itself: RC(B) = OR over the control dependences (S, edge) of B of [ RC(S) AND label(S, edge) ], cut at blocks
# already on the stack (loops).  Formulas are compared by truth table over the subjects they mention (equivalent()).

FORMULAS = {}       # (function key, tuple(sorted atoms)) -> formula of the first block registered with these atoms


def fkey(b):
    return re.sub(r"\{closure#\d+\}", "{closure}", mir.strip_generics(b.id))


def _atom(g):
    """predicate string -> (subject, set of admitted values | None, negated?)  as a JSON-able list"""
    m = re.fullmatch(r"!\((.*)\)", g)
    if m:
        return ["b", m.group(1), False]
    m = re.fullmatch(r"(.*) not in \{(.*)\}", g)
    if m:
        return ["e", m.group(1), sorted(m.group(2).split(",")), False]
    m = re.fullmatch(r"(.*?) (==|!=) ([^=<>!]+)", g)
    if m and not re.search(r" (<|<=|>|>=) ", m.group(1)):
        return ["e", m.group(1), sorted(m.group(3).split("|")), m.group(2) == "=="]
    m = re.fullmatch(r"(.*) (<|<=|>|>=) (.*)", g)
    if m:
        a, op, c = m.groups()
        if op == "<":
            return ["b", "%s < %s" % (a, c), True]
        if op == ">=":
            return ["b", "%s < %s" % (a, c), False]
        if op == ">":
            return ["b", "%s < %s" % (c, a), True]
        return ["b", "%s < %s" % (c, a), False]
    return ["b", g, True]


_loopcache = {}


def _loops(b):
    if id(b) not in _loopcache:
        _loopcache[id(b)] = b.natural_loops()
    return _loopcache[id(b)]


_vf_busy = set()


def selector_defs(b, l):
    """for a local that only ever receives enum values built on the spot (`conv = Some(f)` here, `conv = None` there): variant
    index -> blocks where that variant is stored; None if some definition is something else"""
    out = {}
    nd = 0
    for bi, blk in enumerate(b.blocks):
        if blk["cleanup"]:
            continue
        for s_ in blk["s"]:
            if s_["k"] == "assign" and not s_["p"]["p"] and s_["p"]["l"] == l:
                rv = s_["rv"]
                if rv["r"] == "agg" and rv.get("kind") == "adt" and rv.get("vi") is not None:
                    out.setdefault(str(rv["vi"]), []).append(bi)
                    nd += 1
                elif rv["r"] == "agg" and rv.get("kind") == "adt" and rv.get("v") is not None:
                    names = variant_names(rv["adt"])
                    idx = next((k for k, v in names.items() if v == rv["v"]), None)
                    if idx is None:
                        return None
                    out.setdefault(idx, []).append(bi)
                    nd += 1
                else:
                    return None
        t_ = blk["t"]
        if t_["k"] == "call" and not t_["dest"]["p"] and t_["dest"]["l"] == l:
            return None
    return out if nd >= 2 else None


def discr_source(b, sb, d):
    """the local whose discriminant the switch operand d (a plain local) holds, if it was read in block sb"""
    for s_ in reversed(b.blocks[sb]["s"]):
        if s_["k"] == "assign" and not s_["p"]["p"] and s_["p"]["l"] == d["l"] and s_["rv"]["r"] == "discr" and not s_["rv"]["p"]["p"]:
            return s_["rv"]["p"]["l"]
    return None


def n_defs(b, l):
    n = 0
    for blk in b.blocks:
        if blk["cleanup"]:
            continue
        for s_ in blk["s"]:
            if s_["k"] == "assign" and not s_["p"]["p"] and s_["p"]["l"] == l:
                n += 1
        t_ = blk["t"]
        if t_["k"] == "call" and not t_["dest"]["p"] and t_["dest"]["l"] == l:
            n += 1
    return n


def reach_formula(b, S, block, stack=(), depth=0):
    if block in stack or depth > 40:
        return True
    terms = []
    for (sb, taken) in b.control_deps(block):
        t = b.blocks[sb]["t"]
        d = mir.op_place(t["d"])
        lab = None
        if t.get("dty") == "bool" and d is not None and not d["p"]:
            src = resolve_copy(b, d["l"])
            cd = const_bool_defs(b, src)
            vals = [v for v, bb in t["ts"] if bb == taken]
            is_other = taken == t["o"] and not vals
            truth = (not is_other and vals == ["1"]) or (is_other and [v for v, _ in t["ts"]] == ["0"])
            if cd is not None:
                alts = [reach_formula(b, S, db, stack + (block, sb), depth + 1) for db in (cd[0] if truth else cd[1])]
                # the flag was set where one of these blocks ran; the switch itself is reached under RC(sb)
                lab = ["or"] + alts if len(alts) != 1 else alts[0]
                terms.append(lab if lab is not True else True)
                continue
            if n_defs(b, src) > 1 and depth < 12 and (id(b), src) not in _vf_busy and len(_vf_busy) < 6:
                # a flag that holds a constant on one path and the result of a test on another
                # (`let e = if let Some(x) = o { x.is_empty() } else { true }`): its value as a formula
                _vf_busy.add((id(b), src))
                try:
                    vf = value_formula(b, S, src, depth + 1)
                except RecursionError:
                    vf = None
                finally:
                    _vf_busy.discard((id(b), src))
                if vf is not None:
                    lab = vf if truth else neg(vf)
                    rc = reach_formula(b, S, sb, stack + (block,), depth + 1)
                    terms.append(_and(rc, lab))
                    continue
        if t.get("dty") == "bool" and d is not None and not d["p"] and depth < 40:
            # a test delegated to a predicate function the reviewed tree does not know (a long condition extracted into a
            # helper): the helper's own return condition, with its parameters replaced by the operands of the call
            hf = helper_formula(b, S, resolve_copy(b, d["l"]))
            if hf is None:
                hf = combinator_formula(b, S, resolve_copy(b, d["l"]))
            if hf is not None:
                vals = [v for v, bb in t["ts"] if bb == taken]
                is_other = taken == t["o"] and not vals
                truth = (not is_other and vals == ["1"]) or (is_other and [v for v, _ in t["ts"]] == ["0"])
                lab = hf if truth else neg(hf)
                loops = _loops(b)
                rc = True if (sb in loops and block in loops[sb]) else reach_formula(b, S, sb, stack + (block,), depth + 1)
                terms.append(_and(rc, lab))
                continue
        if d is not None and not d["p"] and t.get("dty") != "bool" and depth < 12:
            srcl = discr_source(b, sb, d)
            sd = selector_defs(b, resolve_copy(b, srcl)) if srcl is not None else None
            if sd is not None:
                vals = [v for v, bb in t["ts"] if bb == taken]
                if taken == t["o"] and not vals:
                    vals = [k for k in sd if k not in {v for v, _ in t["ts"]}]
                alts = [reach_formula(b, S, db, stack + (block, sb), depth + 1) for v in vals for db in sd.get(v, [])]
                if alts:
                    lab = alts[0] if len(alts) == 1 else ["or"] + alts
                    terms.append(lab)
                    continue
        g = switch_desc(b, S, sb, taken)
        lab = _atom(g)
        # inside a loop the condition is relative to the current iteration: what made earlier iterations continue is history
        loops = _loops(b)
        if sb in loops and block in loops[sb]:
            rc = True
        else:
            rc = reach_formula(b, S, sb, stack + (block,), depth + 1)
        terms.append(lab if rc is True else ["and", rc, lab])
    if not terms:
        return True
    if any(t is True for t in terms):
        return True
    return terms[0] if len(terms) == 1 else ["or"] + terms


_cfA = None


def _single_call_def(b, l):
    call = None
    n = 0
    for blk in b.blocks:
        if blk["cleanup"]:
            continue
        for s_ in blk["s"]:
            if s_["k"] == "assign" and not s_["p"]["p"] and s_["p"]["l"] == l:
                n += 1
        t = blk["t"]
        if t["k"] == "call" and t.get("dest") and not t["dest"]["p"] and t["dest"]["l"] == l:
            call = t
            n += 1
    return call if n == 1 else None


def _closure_of_local(b, l):
    for blk in b.blocks:
        for s_ in blk["s"]:
            if s_["k"] == "assign" and not s_["p"]["p"] and s_["p"]["l"] == l and s_["rv"]["r"] == "agg" and s_["rv"].get("kind") == "closure":
                return s_["rv"].get("cl")
    return None


def combinator_formula(b, S, l):
    """a bool obtained from an Option with a predicate closure -- `o.is_some_and(|x| P(x))`, `o.map_or(false, |x| P(x))`,
    `o.map(|x| P(x)).unwrap_or(false)` (and the `true` / `is_none_or` duals) -- as the formula the equivalent `if let Some(x) = o
    { P(x) } else { default }` has: (o is Some) and P(o), resp. (o is not Some) or P(o).  None for anything else"""
    global _cfA
    call = _single_call_def(b, l)
    if call is None:
        return None
    nm = mir.strip_generics((call.get("res") or "").lstrip("?"))
    recv = cl = None
    default = None
    args = call.get("args") or []
    if nm.endswith("Option::is_some_and") and len(args) == 2:
        recv, cl, default = args[0], args[1], False
    elif nm.endswith("Option::is_none_or") and len(args) == 2:
        recv, cl, default = args[0], args[1], True
    elif nm.endswith("Option::map_or") and len(args) == 3 and args[1].get("k") in ("true", "false"):
        recv, cl, default = args[0], args[2], args[1]["k"] == "true"
    elif nm.endswith("Option::unwrap_or") and len(args) == 2 and args[1].get("k") in ("true", "false"):
        ip = mir.op_place(args[0])
        inner = _single_call_def(b, ip["l"]) if ip is not None and not ip["p"] else None
        if inner is not None and mir.strip_generics((inner.get("res") or "").lstrip("?")).endswith("Option::map") and len(inner.get("args") or []) == 2:
            recv, cl, default = inner["args"][0], inner["args"][1], args[1]["k"] == "true"
    if recv is None:
        return None
    cp = mir.op_place(cl)
    cid = _closure_of_local(b, cp["l"]) if cp is not None and not cp["p"] else None
    prog = mir.prog()
    cb = prog.bodies.get(cid) if cid else None
    if cb is None or not cb.locals or cb.locals[0]["ty"] != "bool" or len(cb.blocks) > 40:
        return None
    if _cfA is None:
        _cfA = sym.Analyzer(prog, opaque=[r".*"])
    try:
        Sc = _cfA.summary(cid)
        P = value_formula(cb, Sc, 0) if Sc is not None else None
    except RecursionError:
        P = None
    if P is None:
        return None
    rdesc = op_desc(b, S, recv)
    # captured variables of the closure: described by what was stored into the closure value
    caps = {}
    for blk in b.blocks:
        for s_ in blk["s"]:
            if s_["k"] == "assign" and not s_["p"]["p"] and s_["p"]["l"] == cp["l"] and s_["rv"]["r"] == "agg" and s_["rv"].get("kind") == "closure":
                for i, o in enumerate(s_["rv"].get("ops") or []):
                    caps[i] = op_desc(b, S, o)

    def sub(txt):
        txt = re.sub(r"\barg1\.#(\d+)", lambda m: caps.get(int(m.group(1)), m.group(0)), txt)
        txt = re.sub(r"::\{closure#\d+\}", "", txt)        # constants promoted inside the closure are named after it
        return re.sub(r"\barg2\b", rdesc, txt)

    def rec(f):
        if f is True or f is False:
            return f
        if f[0] in ("and", "or"):
            return [f[0]] + [rec(x) for x in f[1:]]
        if f[0] == "e":
            return ["e", sub(f[1]), [sub(v) for v in f[2]], f[3]]
        return ["b", sub(f[1]), f[2]]
    some = ["e", "discr(%s)" % rdesc, ["Some"], True]
    # `v.last()` / `v.first()` is Some exactly when v is not empty
    rp = mir.op_place(recv)
    rdef = _single_call_def(b, rp["l"]) if rp is not None and not rp["p"] else None
    if rdef is not None and re.search(r"slice::(<impl \[T\]>::)?(last|first)$", mir.strip_generics((rdef.get("res") or "").lstrip("?"))) and rdef.get("args"):
        some = ["b", "is_empty(%s)" % op_desc(b, S, rdef["args"][0]), False]
    Pc = rec(P)
    return ["or", neg(some), Pc] if default else ["and", some, Pc]


_hf_cache = {}
_hfA = None


def helper_formula(b, S, l):
    """formula of the bool local l when it is the result of a call to a bool function of the repository that is not in
    oracle/known_functions.json; None otherwise (or when the helper's value is not a plain condition over its parameters)"""
    global _hfA
    call = None
    n = 0
    for blk in b.blocks:
        for s_ in blk["s"]:
            if s_["k"] == "assign" and not s_["p"]["p"] and s_["p"]["l"] == l:
                n += 1
        t = blk["t"]
        if t["k"] == "call" and t.get("dest") and not t["dest"]["p"] and t["dest"]["l"] == l:
            call = t
            n += 1
    if call is None or n != 1:
        return None
    prog = mir.prog()
    res = call.get("res") or ""
    hb = prog.bodies.get(res)
    known = sym.known_functions()
    if hb is None or known is None or hb.kind == "Closure" or mir.strip_generics(res) in known or hb.file == "a2lfile/src/specification.rs":
        return None
    if not hb.locals or hb.locals[0]["ty"] != "bool" or len(hb.blocks) > 40:
        return None
    if res not in _hf_cache:
        if _hfA is None:
            _hfA = sym.Analyzer(prog, opaque=[r".*"])
        try:
            Sh = _hfA.summary(res)
            _hf_cache[res] = value_formula(hb, Sh, 0) if Sh is not None else None
        except RecursionError:
            _hf_cache[res] = None
    F = _hf_cache[res]
    if F is None or F is True or F is False:
        return None
    args = [op_desc(b, S, a) for a in call["args"]]

    def sub(txt):
        return re.sub(r"\barg(\d+)\b", lambda m: args[int(m.group(1)) - 1] if 0 < int(m.group(1)) <= len(args) else m.group(0), txt)

    def rec(f):
        if f is True or f is False:
            return f
        if f[0] in ("and", "or"):
            return [f[0]] + [rec(x) for x in f[1:]]
        if f[0] == "e":
            return ["e", sub(f[1]), [sub(v) for v in f[2]], f[3]]
        return ["b", sub(f[1]), f[2]]
    return rec(F)


def _subjects(f, acc):
    if f is True or f is False:
        return
    if f[0] in ("and", "or"):
        for x in f[1:]:
            _subjects(x, acc)
    elif f[0] == "e":
        acc.setdefault(("e", f[1]), set()).update(f[2])
    elif f[0] == "b":
        acc.setdefault(("b", f[1]), set())


def _eval(f, env):
    if f is True or f is False:
        return f
    if f[0] == "and":
        return all(_eval(x, env) for x in f[1:])
    if f[0] == "or":
        return any(_eval(x, env) for x in f[1:])
    if f[0] == "e":
        v = env[("e", f[1])]
        return (v in f[2]) == f[3]
    return env[("b", f[1])] == f[2]


def _cofactor(f, key, val):
    """f with the subject `key` fixed to `val`, simplified"""
    if f is True or f is False:
        return f
    if f[0] in ("and", "or"):
        out = []
        for x in f[1:]:
            c = _cofactor(x, key, val)
            if c is True:
                if f[0] == "or":
                    return True
                continue
            if c is False:
                if f[0] == "and":
                    return False
                continue
            out.append(c)
        if not out:
            return f[0] == "and"
        return out[0] if len(out) == 1 else [f[0]] + out
    if f[0] == "e":
        if key == ("e", f[1]):
            return (val in f[2]) == f[3]
        return f
    if key == ("b", f[1]):
        return val == f[2]
    return f


def _first_subject(f):
    if f is True or f is False:
        return None
    if f[0] in ("and", "or"):
        for x in f[1:]:
            k = _first_subject(x)
            if k is not None:
                return k
        return None
    return (f[0], f[1])


def _shannon_equiv(f1, f2, subs, budget):
    """(equivalent?, satisfiable1, satisfiable2) by case split on one subject at a time (formulas of if/else-if chains collapse
    quickly under a split); None when the budget of splits is used up"""
    import json
    memo = {}

    def rec(a, b_):
        if (a is True or a is False) and (b_ is True or b_ is False):
            return (a == b_, a, b_)
        key = json.dumps([a, b_], sort_keys=True)
        if key in memo:
            return memo[key]
        budget[0] -= 1
        if budget[0] < 0:
            raise OverflowError
        k = _first_subject(a) or _first_subject(b_)
        dom = sorted(subs[k]) + ["\0other"] if k[0] == "e" else [True, False]
        eq, s1, s2 = True, False, False
        for v in dom:
            r = rec(_cofactor(a, k, v), _cofactor(b_, k, v))
            eq = eq and r[0]
            s1 = s1 or r[1]
            s2 = s2 or r[2]
            if not eq:
                break
        memo[key] = (eq, s1, s2)
        return memo[key]
    try:
        return rec(f1, f2)
    except (OverflowError, RecursionError):
        return None


def equivalent(f1, f2, limit=300000):
    """logical equivalence of two reaching conditions; None when it cannot be decided within the limits"""
    import itertools
    subs = {}
    _subjects(f1, subs)
    _subjects(f2, subs)
    keys = sorted(subs)
    doms = []
    n = 1
    for k in keys:
        dom = sorted(subs[k]) + ["\0other"] if k[0] == "e" else [True, False]
        doms.append(dom)
        n *= len(dom)
        if n > limit:
            # too many subjects for a truth table: case splits with simplification
            r = _shannon_equiv(f1, f2, subs, [60000])
            if r is None:
                return None
            if not r[0]:
                return False
            return True if (r[1] and r[2]) else None
    # an Option reached through another Option (`a.b` where `a` is an Option): `a.b` is Some only if `a` is Some.  Assignments that
    # contradict this cannot occur (the flattened `a.as_ref().and_then(|x| x.b.as_ref())` tests only the inner one)
    impl = []
    opt = [k for k in keys if k[0] == "e" and re.fullmatch(r"discr\([\w.]+\)", k[1]) and set(subs[k]) <= {"Some"}]
    for q in opt:
        for p_ in opt:
            if p_ is not q and q[1][6:-1].startswith(p_[1][6:-1] + "."):
                impl.append((q, p_))
    sat1 = sat2 = False
    for combo in itertools.product(*doms):
        env = dict(zip(keys, combo))
        if any(env[q] == "Some" and env[p_] != "Some" for q, p_ in impl):
            continue
        v1, v2 = _eval(f1, env), _eval(f2, env)
        sat1 |= v1
        sat2 |= v2
        if v1 != v2:
            return False
    if not (sat1 and sat2):
        # operand descriptions are coarser than the program (two different bytes of a buffer can share one description): a
        # condition that looks contradictory under them says nothing, and "both unsatisfiable" must not count as agreement
        return None
    return True


def implied_values(f, limit=300000):
    """for every boolean subject of formula f: the set of truth values it takes in the assignments that satisfy f
    ({True}: f implies it, {False}: f implies its negation, {True, False}: f does not determine it); None if too large"""
    import itertools
    subs = {}
    _subjects(f, subs)
    keys = sorted(subs)
    doms = []
    n = 1
    for k in keys:
        dom = sorted(subs[k]) + ["\0other"] if k[0] == "e" else [True, False]
        doms.append(dom)
        n *= len(dom)
        if n > limit:
            return None
    out = {k: set() for k in keys if k[0] == "b"}
    for combo in itertools.product(*doms):
        env = dict(zip(keys, combo))
        if _eval(f, env):
            for k in out:
                out[k].add(env[k])
    return out


# ---------------------------------------------------------------------------------------------
# value of a bool local as a formula (for predicate functions and flags that are set on several paths)

def neg(f):
    if f is True:
        return False
    if f is False:
        return True
    if f[0] == "and":
        return ["or"] + [neg(x) for x in f[1:]]
    if f[0] == "or":
        return ["and"] + [neg(x) for x in f[1:]]
    if f[0] == "e":
        return ["e", f[1], f[2], not f[3]]
    return ["b", f[1], not f[2]]


def _and(a, c):
    if a is True:
        return c
    if c is True:
        return a
    if a is False or c is False:
        return False
    return ["and", a, c]


def value_formula(b, S, l, depth=0, stack=()):
    """formula that is true exactly when the bool local l holds true (over the branch predicates and the tests stored in it);
    None if some definition cannot be described"""
    if depth > 8 or l in stack:
        return None
    if 1 <= l <= b.argc:
        return ["b", "arg%d" % l, True]
    alts = []
    for bi, blk in enumerate(b.blocks):
        if blk["cleanup"]:
            continue
        for s in blk["s"]:
            if s["k"] != "assign" or s["p"]["p"] or s["p"]["l"] != l:
                continue
            rv = s["rv"]
            val = None
            if rv["r"] == "use" and rv["a"].get("k") in ("true", "false"):
                val = rv["a"]["k"] == "true"
            elif rv["r"] == "use":
                pl = mir.op_place(rv["a"])
                if pl is not None and not pl["p"]:
                    val = value_formula(b, S, pl["l"], depth + 1, stack + (l,))
                elif pl is not None:
                    val = _atom(op_desc(b, S, rv["a"]))
            elif rv["r"] == "un" and rv["op"] == "Not":
                pl = mir.op_place(rv["a"])
                if pl is not None and not pl["p"]:
                    v = value_formula(b, S, pl["l"], depth + 1, stack + (l,))
                    val = neg(v) if v is not None else None
            elif rv["r"] == "bin" and rv["op"] in CMP:
                val = _atom("%s %s %s" % (op_desc(b, S, rv["a"]), CMP[rv["op"]], op_desc(b, S, rv["b"])))
            elif rv["r"] == "bin" and rv["op"] in ("BitAnd", "BitOr"):
                pa, pb = mir.op_place(rv["a"]), mir.op_place(rv["b"])
                if pa is not None and pb is not None and not pa["p"] and not pb["p"]:
                    va = value_formula(b, S, pa["l"], depth + 1, stack + (l,))
                    vb = value_formula(b, S, pb["l"], depth + 1, stack + (l,))
                    if va is not None and vb is not None:
                        val = ["and" if rv["op"] == "BitAnd" else "or", va, vb]
            if val is None:
                return None
            if val is False:
                continue
            alts.append(_and(reach_formula(b, S, bi), val))
        t = blk["t"]
        if t["k"] == "call" and not t["dest"]["p"] and t["dest"]["l"] == l:
            if not t.get("res"):
                return None
            cf = combinator_formula(b, S, l) if depth < 6 else None
            if cf is not None:
                alts.append(_and(reach_formula(b, S, bi), cf))
                continue
            dsc, pos = canon_test(mir.strip_generics(t["res"].lstrip("?")), ", ".join(op_desc(b, S, a) for a in t["args"]))
            a = _atom(dsc)
            if not pos:
                a = neg(a)
            alts.append(_and(reach_formula(b, S, bi), a))
    if not alts:
        return False
    return alts[0] if len(alts) == 1 else ["or"] + alts


def atoms_of(f, acc=None):
    acc = set() if acc is None else acc
    if f is True or f is False or f is None:
        return acc
    if f[0] in ("and", "or"):
        for x in f[1:]:
            atoms_of(x, acc)
    elif f[0] == "e":
        acc.add("%s %s %s" % (f[1], "in" if f[3] else "not in", "|".join(f[2])))
    else:
        acc.add(("" if f[2] else "!") + f[1])
    return acc
