"""C01 Save/reload stability (structural necessary conditions; see DESIGN.md section 3, C01)"""
from . import genrules, textrules, plumbing


def run(chk):
    genrules.r01_dual(chk)
    genrules.r_eq(chk, rule_complete=None, rule_layout="R01-eq")
    genrules.expansion_diffs(chk, "R01-shipped", lambda k: ("[stringify]" in k) or k.startswith("impl PartialEq") or "Display" in k,
                             "generated stringify/PartialEq/Display items identical (canonical form) to the generator's output")
    textrules.r01_esc(chk)
    textrules.r01_fmt(chk)
    textrules.r01_hex(chk)
    textrules.r01_finite(chk)
    textrules.r01_tokline(chk)
    plumbing.r05_plumb(chk, rule="R01-plumb")
    from . import c05, writertab
    c05.r05_adjacent(chk, rule="R01-adjacent")
    writertab.compare(chk, "R01-writer", floor=48)
    writertab.compare_ifdata(chk, "R01-ifdata-writer", floor=22)
    chk.assumptions += ["not decided: equality of the reloaded model and byte identity of the text for all inputs (runtime values)"]
