import re
"""C01 Save/reload stability (structural necessary conditions; see DESIGN.md section 3, C01)"""
from . import genrules, textrules, plumbing


def r01_eq_ifdata(chk, rule="R01-eq", rule_count="R01-eq-ifdata"):
    # the hand-written equality of IF_DATA trees: every comparison of two payloads is an equality (a `!=` in one arm makes equal
    # values unequal and unequal values equal for that variant, so a reloaded file compares unequal)
    from . import mir
    from .common import Finding
    prog = mir.prog()
    neq = 0
    for fid, b in sorted(prog.bodies.items()):
        if re.search(r"a2ml::GenericIfData(TaggedItem)? as std::cmp::PartialEq>::eq$", mir.strip_generics(fid)) or (b.trait_item == "std::cmp::PartialEq::eq" and "a2ml::GenericIfData" in (b.impl_of or "")):
            for bi, si, st in b.stmts():
                if st["k"] == "assign" and st["rv"]["r"] == "bin" and st["rv"]["op"] in ("Ne", "Lt", "Gt", "Le", "Ge"):
                    neq += 1
                    chk.add(Finding(rule, rule + "::ifdata::%s::%s" % (mir.strip_generics(fid), st["rv"]["op"]), "%s compares two payloads with %s instead of equality" % (fid, st["rv"]["op"]), b.where(st["ln"])))
                elif st["k"] == "assign" and st["rv"]["r"] == "bin" and st["rv"]["op"] == "Eq":
                    neq += 1
                elif st["k"] == "assign" and st["rv"]["r"] == "un" and st["rv"]["op"] == "Not":
                    chk.add(Finding(rule, rule + "::ifdata::%s::Not" % mir.strip_generics(fid), "%s negates a comparison result" % fid, b.where(st["ln"])))
            for bi, t in b.calls():
                nm = mir.strip_generics((t.get("res") or "").lstrip("?"))
                if nm.endswith("::ne"):
                    chk.add(Finding(rule, rule + "::ifdata::%s::ne" % mir.strip_generics(fid), "%s compares two payloads with != instead of ==" % fid, b.where(t["ln"])))
                elif nm.endswith("::eq"):
                    neq += 1
    chk.rule(rule_count, "payload comparisons in the PartialEq impls of GenericIfData / GenericIfDataTaggedItem that are equalities", neq, floor=10)


def run(chk):
    from .common import Finding
    genrules.r01_dual(chk)
    genrules.r_eq(chk, rule_complete=None, rule_layout="R01-eq")
    genrules.expansion_diffs(chk, "R01-shipped", lambda k: bool(re.search(r"\[[^\]]*\b(stringify|parse)\b[^\]]*\]", k)) or k.startswith("impl PartialEq") or "Display" in k,
                             "generated parse/stringify/PartialEq/Display items identical (canonical form) to the generator's output: the parser and the writer of one element are generated from the same DSL item, which is what makes them inverse to each other")
    textrules.r01_esc(chk)
    textrules.r01_fmt(chk)
    textrules.r01_hex(chk)
    textrules.r01_hexfloat(chk)
    textrules.r01_finite(chk)
    textrules.r01_tokline(chk)
    plumbing.r05_plumb(chk, rule="R01-plumb")
    from . import c05, writertab
    c05.r05_adjacent(chk, rule="R01-adjacent")
    # a line offset taken from the wrong token is written as a different number of line breaks, which the next load measures again
    c05.r05_token(chk, rule="R01-token")
    # what the writer prints must be read back as the same tokens: the scanner's branch precedence and character classes
    from . import c16, mir
    c16.r16_dispatch(chk, mir.prog(), rule="R01-dispatch")
    writertab.compare(chk, "R01-writer", floor=48)
    writertab.compare_ifdata(chk, "R01-ifdata-writer", floor=22)
    r01_eq_ifdata(chk)
    # histories include merge_includes(): afterwards nothing below an IF_DATA may still carry an include origin, or the written text
    # contains an /include directive that the reload cannot (or should not) resolve (rule R16-ifdata of C16)
    from . import common, c16
    sub = common.Check(chk.pid, chk.tier)
    c16.run(sub)
    for f in sub.findings:
        if f.rule == "R16-ifdata":
            chk.add(Finding("R01-includes", f.key.replace("R16-ifdata", "R01-includes"), f.msg, f.where, f.detail))
    chk.rule("R01-includes", "GenericIfData variants handled by merge_includes (see R16-ifdata)", sum(r["instances"] for r in sub.rules if r["rule"] == "R16-ifdata"), floor=8)
    chk.assumptions += ["not decided: equality of the reloaded model and byte identity of the text for all inputs (runtime values)"]
