"""A3: zone (difference-bound) abstract interpretation over MIR, used to discharge panic obligations.

Nodes: "Z" (zero), integer-typed places (canonical key "L<root>.<field>..."), symbolic lengths "len:<key>".
A state is a closed set of constraints  a - b <= c.  Flow-sensitive, intraprocedural, widening at loop heads."""
import re
from . import mir

INT_BITS = {"usize": 64, "u8": 8, "u16": 16, "u32": 32, "u64": 64, "u128": 128, "isize": 64, "i8": 8, "i16": 16, "i32": 32, "i64": 64, "i128": 128}
INF = float("inf")
LEN_MAX = (1 << 63) - 1


def is_int(ty):
    return ty in INT_BITS


def is_unsigned(ty):
    return ty in INT_BITS and ty[0] == "u"


def ty_max(ty):
    b = INT_BITS[ty]
    return (1 << b) - 1 if ty[0] == "u" else (1 << (b - 1)) - 1


class Zone:
    __slots__ = ("fwd", "bwd", "bottom")

    def __init__(self):
        self.fwd = {}   # a -> {b: c}   a - b <= c
        self.bwd = {}   # b -> {a: c}
        self.bottom = False

    def copy(self):
        z = Zone()
        z.fwd = {a: dict(m) for a, m in self.fwd.items()}
        z.bwd = {b: dict(m) for b, m in self.bwd.items()}
        z.bottom = self.bottom
        return z

    def get(self, a, b):
        if a == b:
            return 0
        return self.fwd.get(a, {}).get(b, INF)

    def _set(self, a, b, c):
        self.fwd.setdefault(a, {})[b] = c
        self.bwd.setdefault(b, {})[a] = c

    def add(self, a, b, c):
        """a - b <= c, keeping the closure"""
        if self.bottom or a == b:
            if a == b and c < 0:
                self.bottom = True
            return
        if self.get(a, b) <= c:
            return
        if self.get(b, a) + c < 0:
            self.bottom = True
            return
        ins = list(self.bwd.get(a, {}).items()) + [(a, 0)]
        outs = list(self.fwd.get(b, {}).items()) + [(b, 0)]
        for i, ci in ins:
            for j, cj in outs:
                if i == j:
                    if ci + c + cj < 0:
                        self.bottom = True
                        return
                    continue
                n = ci + c + cj
                if n < self.get(i, j):
                    self._set(i, j, n)

    def forget(self, x):
        for b in self.fwd.pop(x, {}):
            self.bwd.get(b, {}).pop(x, None)
        for a in self.bwd.pop(x, {}):
            self.fwd.get(a, {}).pop(x, None)

    def forget_prefix(self, pref):
        """forget every node whose key is `pref` or starts with pref + '.', '@', '[' (and the len: variants)"""
        names = set(self.fwd) | set(self.bwd)
        for n in names:
            k = n[4:] if n.startswith("len:") else n
            if k == pref or (k.startswith(pref) and k[len(pref)] in ".@[#"):
                self.forget(n)

    def assign(self, x, y, c):
        """x := y + c"""
        if self.bottom:
            return
        if x == y:
            if c == 0:
                return
            f = self.fwd.get(x, {})
            for b in list(f):
                self._set(x, b, f[b] + c)
            g = self.bwd.get(x, {})
            for a in list(g):
                self._set(a, x, g[a] - c)
            return
        self.forget(x)
        self.add(x, y, c)
        self.add(y, x, -c)

    def nodes(self):
        return set(self.fwd) | set(self.bwd)


def join(a, b):
    if a is None or a.bottom:
        return b.copy() if b is not None else None
    if b is None or b.bottom:
        return a.copy()
    z = Zone()
    for x, m in a.fwd.items():
        mb = b.fwd.get(x)
        if not mb:
            continue
        for y, c in m.items():
            cb = mb.get(y)
            if cb is not None:
                z._set(x, y, max(c, cb))
    return z


def widen(old, new):
    if old is None or old.bottom:
        return new.copy()
    if new.bottom:
        return old.copy()
    z = Zone()
    for x, m in old.fwd.items():
        mb = new.fwd.get(x)
        if not mb:
            continue
        for y, c in m.items():
            cb = mb.get(y)
            if cb is not None and cb <= c:
                z._set(x, y, c)
    return z


def leq(a, b):
    """a is at least as strong as b"""
    if a.bottom:
        return True
    if b.bottom:
        return False
    for x, m in b.fwd.items():
        ma = a.fwd.get(x, {})
        for y, c in m.items():
            if ma.get(y, INF) > c:
                return False
    return True


LEN_FNS = re.compile(r"(core::slice::len|std::vec::Vec::len|core::str::len|std::string::String::len|std::collections::VecDeque::len|.*::slice::.*::len)$")
ALIAS_FNS = re.compile(r"(core::str::as_bytes|std::string::String::as_str|std::string::String::as_bytes|<std::string::String as std::ops::Deref>::deref|"
                       r"<std::vec::Vec as std::ops::Deref>::deref|<std::vec::Vec as std::ops::DerefMut>::deref_mut|std::vec::Vec::as_slice|"
                       r"std::vec::Vec::as_mut_slice|.*AsRef.*::as_ref|.*Borrow.*::borrow|std::string::String::as_mut_str|core::slice::iter|core::slice::iter_mut|"
                       r"std::iter::Iterator::enumerate|<. as std::iter::IntoIterator>::into_iter|std::iter::IntoIterator::into_iter|"
                       r"<&'a (mut )?std::vec::Vec as std::iter::IntoIterator>::into_iter|<&(mut )?std::vec::Vec as std::iter::IntoIterator>::into_iter|"
                       r"std::iter::Iterator::by_ref|std::iter::Iterator::rev|core::str::as_str|std::vec::Vec::iter|core::str::bytes|<&'a (mut )?itemlist::ItemList as std::iter::IntoIterator>::into_iter|"
                       r"itemlist::ItemList::iter|itemlist::ItemList::iter_mut)$")
# known length effects of std mutators on their first (&mut) argument: delta or special
LEN_EFFECT = {"std::vec::Vec::push": ("delta", 1), "std::vec::Vec::insert": ("delta", 1), "std::string::String::push": ("grow", None),
              "std::string::String::push_str": ("grow", None), "std::vec::Vec::swap_remove": ("delta", -1), "std::vec::Vec::remove": ("delta", -1),
              "std::vec::Vec::pop": ("shrink", None), "std::vec::Vec::clear": ("zero", None), "std::string::String::clear": ("zero", None),
              "std::vec::Vec::truncate": ("shrink", None), "std::vec::Vec::retain": ("shrink", None), "std::vec::Vec::extend_from_slice": ("grow", None),
              "std::vec::Vec::reserve": ("same", None), "std::slice::sort_by": ("same", None), "std::vec::Vec::dedup": ("shrink", None),
              "<std::vec::Vec as std::ops::IndexMut>::index_mut": ("same", None), "<std::vec::Vec as std::ops::DerefMut>::deref_mut": ("same", None),
              "core::slice::iter_mut": ("same", None), "std::vec::Vec::iter_mut": ("same", None), "core::slice::get_mut": ("same", None),
              "std::vec::Vec::last_mut": ("same", None), "core::slice::last_mut": ("same", None), "core::slice::first_mut": ("same", None),
              "core::slice::swap": ("same", None), "core::slice::reverse": ("same", None), "std::slice::sort": ("same", None),
              "std::slice::sort_unstable_by": ("same", None), "std::slice::sort_by_key": ("same", None)}


class FnZones:
    """zone analysis of one MIR body"""

    def __init__(self, body, prog=None, entry=None):
        self.b = body
        self.prog = prog
        self.entry = entry
        self._refdef()
        self._booldefs()
        self.instate = {}
        self.solve()

    # ------------------------------------------------------------------ keys
    def _refdef(self):
        """single-definition locals that are plain references/copies of a place: local -> place"""
        b = self.b
        defs = {}
        count = {}
        for bi, blk in enumerate(b.blocks):
            for s in blk["s"]:
                if s["k"] == "assign" and not s["p"]["p"]:
                    l = s["p"]["l"]
                    count[l] = count.get(l, 0) + 1
                    rv = s["rv"]
                    if rv["r"] in ("ref", "rawptr"):
                        defs[l] = ("ref", rv["p"])
                    elif rv["r"] == "use" and mir.op_place(rv["a"]) is not None:
                        defs[l] = ("use", mir.op_place(rv["a"]))
                    elif rv["r"] == "cast" and mir.op_place(rv["a"]) is not None and rv["kind"].startswith("PointerCoercion"):
                        defs[l] = ("use", mir.op_place(rv["a"]))
                    else:
                        defs[l] = None
            t = blk["t"]
            if t["k"] == "call" and not t["dest"]["p"]:
                l = t["dest"]["l"]
                count[l] = count.get(l, 0) + 1
                name = mir.strip_generics((t.get("res") or "").lstrip("?"))
                if ALIAS_FNS.match(name) and t["args"] and mir.op_place(t["args"][0]) is not None:
                    defs[l] = ("alias", mir.op_place(t["args"][0]))
                else:
                    defs[l] = None
        # single-definition temporaries, for structural descriptions of operands
        idef = {}
        for bi, blk in enumerate(b.blocks):
            for st in blk["s"]:
                if st["k"] == "assign" and not st["p"]["p"] and count.get(st["p"]["l"]) == 1:
                    rv = st["rv"]
                    l = st["p"]["l"]
                    if rv["r"] == "use":
                        idef[l] = ("use", rv["a"])
                    elif rv["r"] == "un" and rv["op"] == "PtrMetadata":
                        idef[l] = ("len", rv["a"])
                    elif rv["r"] == "bin":
                        idef[l] = ("bin", rv["op"], rv["a"], rv["b"])
                    elif rv["r"] == "cast":
                        idef[l] = ("cast", rv["a"])
                    elif rv["r"] in ("ref", "rawptr"):
                        idef[l] = ("use", {"c": rv["p"]})
            t = blk["t"]
            if t["k"] == "call" and not t["dest"]["p"] and count.get(t["dest"]["l"]) == 1:
                nm = mir.strip_generics((t.get("res") or "?").lstrip("?"))
                if LEN_FNS.match(nm) and t["args"]:
                    idef[t["dest"]["l"]] = ("len", t["args"][0])
                elif ALIAS_FNS.match(nm) and t["args"]:
                    idef[t["dest"]["l"]] = ("use", t["args"][0])
                else:
                    idef[t["dest"]["l"]] = ("call", nm)
        self.intdef = idef
        self.count = count
        self.refdef = {l: d for l, d in defs.items() if d is not None and count.get(l) == 1 and l > b.argc}

    def root_key(self, l, depth=0):
        """canonical key prefix of what local l denotes (through single-def refs/aliases)"""
        d = self.refdef.get(l)
        ty = self.b.locals[l]["ty"]
        if d is not None and depth < 12 and (ty.startswith("&") or d[0] in ("alias",) or not is_int(ty)):
            k = self.place_key(d[1], depth + 1)
            if k is not None:
                return k
        return "L%d" % l

    def place_key(self, p, depth=0):
        k = self.root_key(p["l"], depth)
        for e in p["p"]:
            if e == "*" or e in ("opaque", "unbinder"):
                continue
            if "f" in e:
                k += "." + e["f"]
            elif "down" in e:
                k += "@" + e["down"]
            elif "idx" in e or "cidx" in e or "sub" in e:
                k += "[]"
            else:
                return None
        return k

    def place_ty(self, p):
        if not p["p"]:
            return self.b.locals[p["l"]]["ty"]
        last = None
        for e in reversed(p["p"]):
            if isinstance(e, dict) and "f" in e:
                return e["ty"]
            if e == "*":
                continue
            return None
        ty = self.b.locals[p["l"]]["ty"]
        while ty.startswith("&"):
            ty = ty[1:].lstrip()
            if ty.startswith("mut "):
                ty = ty[4:]
            if ty.startswith("'"):
                ty = ty.split(" ", 1)[1] if " " in ty else ty
        return ty

    def int_node(self, p):
        ty = self.place_ty(p)
        if ty is None or not is_int(ty):
            return None, None
        k = self.place_key(p)
        if k is None or "[]" in k:
            return None, ty
        return k, ty

    def op_node(self, op):
        """(node, const, ty) of an operand: node for int places, const for literals"""
        if "k" in op:
            c = mir.const_int(op)
            return None, c, op.get("ty")
        n, ty = self.int_node(mir.op_place(op))
        return n, None, ty

    def len_node(self, p):
        k = self.place_key(p)
        if k is None:
            return None
        return "len:" + k

    # ------------------------------------------------------------------ bool definitions
    def _booldefs(self):
        b = self.b
        self.booldef = {}
        cnt = {}
        for bi, blk in enumerate(b.blocks):
            for si, s in enumerate(blk["s"]):
                if s["k"] == "assign" and not s["p"]["p"] and b.locals[s["p"]["l"]]["ty"] == "bool":
                    l = s["p"]["l"]
                    cnt[l] = cnt.get(l, 0) + 1
                    rv = s["rv"]
                    if rv["r"] == "bin" and rv["op"] in ("Lt", "Le", "Gt", "Ge", "Eq", "Ne"):
                        self.booldef[l] = ("cmp", rv["op"], rv["a"], rv["b"], bi)
                    elif rv["r"] == "un" and rv["op"] == "Not":
                        self.booldef[l] = ("not", rv["a"], bi)
                    elif rv["r"] == "use":
                        self.booldef[l] = ("copy", rv["a"], bi)
            t = blk["t"]
            if t["k"] == "call" and not t["dest"]["p"] and b.locals[t["dest"]["l"]]["ty"] == "bool":
                l = t["dest"]["l"]
                cnt[l] = cnt.get(l, 0) + 1
                name = mir.strip_generics((t.get("res") or "").lstrip("?"))
                self.booldef[l] = ("call", name, t["args"], bi)
        for l in list(self.booldef):
            if cnt.get(l) != 1:
                del self.booldef[l]

    def cond_constraints(self, op, truth, at_block):
        """list of (a, b, c) constraints implied by bool operand `op` having value `truth` when leaving at_block"""
        pl = mir.op_place(op)
        if pl is None or pl["p"]:
            return []
        d = self.booldef.get(pl["l"])
        if d is None:
            return []
        preds = self.b.preds()[at_block]
        if d[-1] != at_block and not (len(preds) == 1 and d[-1] == preds[0] and not self.b.blocks[at_block]["s"]) \
                and not (len(preds) == 1 and d[-1] == preds[0] and d[0] == "call"):
            return []
        if d[0] == "not":
            return self.cond_constraints(d[1], not truth, at_block)
        if d[0] == "copy":
            return self.cond_constraints(d[1], truth, at_block)
        if d[0] == "cmp":
            op_, a, b_ = d[1], d[2], d[3]
            if not truth:
                op_ = {"Lt": "Ge", "Le": "Gt", "Gt": "Le", "Ge": "Lt", "Eq": "Ne", "Ne": "Eq"}[op_]
            na, ca, ta = self.op_node(a)
            nb, cb, tb = self.op_node(b_)
            A = na if na is not None else ("Z" if ca is not None else None)
            B = nb if nb is not None else ("Z" if cb is not None else None)
            if A is None or B is None:
                return []
            ka = ca or 0
            kb = cb or 0
            # A + ka  op  B + kb
            if op_ == "Lt":
                return [(A, B, kb - ka - 1)]
            if op_ == "Le":
                return [(A, B, kb - ka)]
            if op_ == "Gt":
                return [(B, A, ka - kb - 1)]
            if op_ == "Ge":
                return [(B, A, ka - kb)]
            if op_ == "Eq":
                return [(A, B, kb - ka), (B, A, ka - kb)]
            if op_ == "Ne":
                return [("ne", A, B, kb - ka)]
            return []
        if d[0] == "call":
            name, args = d[1], d[2]
            if re.search(r"::is_empty$", name) and args and mir.op_place(args[0]) is not None:
                ln = self.len_node(mir.op_place(args[0]))
                if ln:
                    return [(ln, "Z", 0)] if truth else [("Z", ln, -1)]
            if re.search(r"(core::slice::starts_with|core::str::starts_with|core::slice::ends_with|core::str::ends_with)$", name) and truth and len(args) >= 2:
                ln = self.len_node(mir.op_place(args[0])) if mir.op_place(args[0]) is not None else None
                lit = args[1]
                n = None
                # the literal usually arrives through single-definition temporaries: follow them to the constant / array type
                hops = 0
                while "k" not in lit and hops < 6:
                    lp = mir.op_place(lit)
                    hops += 1
                    if lp is None:
                        break
                    m_ = re.search(r"\[u8; (\d+)\]", self.b.locals[lp["l"]]["ty"])
                    if m_:
                        n = int(m_.group(1))
                        break
                    d_ = self.intdef.get(lp["l"])
                    if d_ is not None and d_[0] in ("use", "cast"):
                        lit = d_[1]
                    else:
                        break
                if n is None and "k" in lit:
                    s = mir.const_str(lit)
                    if s is not None:
                        n = len(s.encode("utf-8", "surrogatepass")) if "\\" not in s else None
                    m = re.fullmatch(r'(?:const )?b"(.*)"', lit["k"])
                    if m and "\\" not in m.group(1):
                        n = len(m.group(1))
                    if lit.get("ty") == "char":
                        n = 1
                if ln and n:
                    return [("Z", ln, -n)]
            return []
        return []

    # ------------------------------------------------------------------ transfer
    def nonneg(self, z, node, ty):
        if node and ty and is_unsigned(ty):
            z.add("Z", node, 0)
            if INT_BITS[ty] < 64:
                z.add(node, "Z", ty_max(ty))
        if node and node.startswith("len:"):
            z.add("Z", node, 0)
            z.add(node, "Z", LEN_MAX)

    def copy_sub(self, z, src, dst):
        """dst.* := src.* for every known sub-node"""
        if src is None or dst is None or src == dst:
            return
        for n in list(z.nodes()):
            for pre in ("", "len:"):
                if n.startswith(pre + src) and len(n) > len(pre + src) and n[len(pre + src)] in ".@":
                    tgt = pre + dst + n[len(pre + src):]
                    z.assign(tgt, n, 0)

    def stmt(self, z, s):
        if z.bottom or s["k"] != "assign":
            return
        p = s["p"]
        rv = s["rv"]
        r = rv["r"]
        node, ty = self.int_node(p)
        if node is None:
            # assignment to a non-int place: aggregate bookkeeping
            if not p["p"] and p["l"] in self.refdef:
                return      # creation of a single-definition reference/alias: no memory changes
            k = self.place_key(p) if p["p"] else "L%d" % p["l"]
            if k is not None and "[]" not in k:
                z.forget_prefix(k)
                if r == "agg" and rv.get("kind") == "adt" and rv["adt"].startswith("std::ops::Range"):
                    for fn, o in zip(rv["fields"], rv["ops"]):
                        n2, c2, t2 = self.op_node(o)
                        tgt = k + "." + fn
                        if n2 is not None:
                            z.assign(tgt, n2, 0)
                        elif c2 is not None:
                            z.assign(tgt, "Z", c2)
                elif r == "agg" and rv.get("kind") == "tuple":
                    for i, o in enumerate(rv["ops"]):
                        n2, c2, t2 = self.op_node(o)
                        tgt = "%s.%d" % (k, i)
                        if n2 is not None:
                            z.assign(tgt, n2, 0)
                        elif c2 is not None:
                            z.assign(tgt, "Z", c2)
                elif r == "use" and mir.op_place(rv["a"]) is not None:
                    sk = self.place_key(mir.op_place(rv["a"]))
                    self.copy_sub(z, sk, k)
                    # a multi-def reference local now points elsewhere: its own length symbol is stale (forgotten above),
                    # re-link it when the source has a length symbol
                    if sk is not None and self.refdef.get(p["l"]) is None and not p["p"]:
                        src_len = "len:" + sk
                        if src_len in z.nodes():
                            z.assign("len:" + k, src_len, 0)
                elif r in ("ref", "rawptr"):
                    sk = self.place_key(rv["p"])
                    if sk is not None and self.refdef.get(p["l"]) is None and not p["p"]:
                        self.copy_sub(z, sk, k)
                        if ("len:" + sk) in z.nodes():
                            z.assign("len:" + k, "len:" + sk, 0)
                elif r == "bin" and rv["op"].endswith("WithOverflow"):
                    self._arith(z, k + ".0", rv["op"][:-len("WithOverflow")], rv["a"], rv["b"], None, math=True)
            return
        # integer destination
        if r == "use":
            n2, c2, t2 = self.op_node(rv["a"])
            if n2 is not None:
                z.assign(node, n2, 0)
            elif c2 is not None:
                z.assign(node, "Z", c2)
            else:
                z.forget(node)
                self.nonneg(z, node, ty)
        elif r == "bin":
            self._arith(z, node, rv["op"], rv["a"], rv["b"], ty)
        elif r == "cast" and rv["kind"] == "IntToInt":
            n2, c2, t2 = self.op_node(rv["a"])
            fr, to = rv["from"], rv["to"]
            if n2 is not None and is_int(fr) and is_int(to) and ((is_unsigned(fr) and INT_BITS[to] > INT_BITS[fr]) or (fr[0] == to[0] and INT_BITS[to] >= INT_BITS[fr])
                                                                  or (is_unsigned(fr) and is_unsigned(to) and INT_BITS[to] >= INT_BITS[fr])):
                z.assign(node, n2, 0)
            elif c2 is not None:
                z.assign(node, "Z", c2)
            else:
                z.forget(node)
                self.nonneg(z, node, ty)
                # narrowing of an unsigned value never increases it when the source fits ... not assumed
        elif r == "un" and rv["op"] == "PtrMetadata":
            pl = mir.op_place(rv["a"])
            ln = self.len_node(pl) if pl is not None else None
            if ln:
                self.nonneg(z, ln, None)
                z.assign(node, ln, 0)
            else:
                z.forget(node)
                self.nonneg(z, node, ty)
        else:
            z.forget(node)
            self.nonneg(z, node, ty)

    def _arith(self, z, node, op, a, b_, ty, math=False):
        """node := a op b.  math=True: the destination is the mathematical result of a checked operation (the `.0` of a
        *WithOverflow tuple, only used after the overflow assert passed): no type-range facts are attached to it, otherwise
        `x - 1 >= 0` would be 'derived' before the check.  Unchecked operations can wrap: relations are kept only when the
        current state excludes wrapping."""
        na, ca, ta = self.op_node(a)
        nb, cb, tb = self.op_node(b_)
        uns = is_unsigned(ta or tb or ty or "usize")
        if not math and op in ("Add", "Sub", "Mul", "AddUnchecked", "SubUnchecked", "MulUnchecked"):
            tyx = ta or tb or ty
            safe = False
            if tyx in INT_BITS:
                mx = ty_max(tyx)
                if op.startswith("Sub") and uns:
                    if na is not None and cb is not None:
                        safe = z.get("Z", na) <= -cb
                    elif na is not None and nb is not None:
                        safe = z.get(nb, na) <= 0
                elif op.startswith("Add") and uns:
                    if na is not None and cb is not None:
                        safe = z.get(na, "Z") <= mx - cb
                    elif nb is not None and ca is not None:
                        safe = z.get(nb, "Z") <= mx - ca
            if ca is not None and cb is not None:
                safe = True
            if not safe:
                z.forget(node)
                self.nonneg(z, node, ty or ta or tb)
                return
        if op in ("Add", "AddUnchecked"):
            if na is not None and cb is not None:
                z.assign(node, na, cb)
            elif nb is not None and ca is not None:
                z.assign(node, nb, ca)
            elif ca is not None and cb is not None:
                z.assign(node, "Z", ca + cb)
            else:
                z.forget(node)
                if uns:
                    if na:
                        z.add(na, node, 0)
                    if nb:
                        z.add(nb, node, 0)
        elif op in ("Sub", "SubUnchecked"):
            if na is not None and cb is not None:
                z.assign(node, na, -cb)
            elif ca is not None and cb is not None:
                z.assign(node, "Z", ca - cb)
            else:
                old_a = na
                if na == node:
                    # x = x - y : x' <= x  -> keep only upper bounds
                    f = z.fwd.get(node, {})
                    ups = dict(f)
                    z.forget(node)
                    if uns:
                        for bb, c in ups.items():
                            z.add(node, bb, c)
                        z.add("Z", node, 0)
                    return
                z.forget(node)
                if uns and na:
                    z.add(node, na, 0)
                elif uns and ca is not None:
                    z.add(node, "Z", ca)
        elif op in ("Mul", "MulUnchecked"):
            k = cb if cb is not None else ca
            n = na if cb is not None else nb
            z.forget(node)
            if uns and n is not None and k is not None and k >= 1:
                z.add(n, node, 0)
            if ca is not None and cb is not None:
                z.assign(node, "Z", ca * cb)
        elif op == "Div":
            z.forget(node)
            if uns and na is not None:
                z.add(node, na, 0)
        elif op == "Rem":
            z.forget(node)
            if uns and na is not None:
                z.add(node, na, 0)
            if uns and cb is not None and cb > 0:
                z.add(node, "Z", cb - 1)
            elif uns and nb is not None:
                z.add(node, nb, -1)
        elif op == "BitAnd":
            z.forget(node)
            if uns:
                if na is not None:
                    z.add(node, na, 0)
                if nb is not None:
                    z.add(node, nb, 0)
                k = cb if cb is not None else ca
                if k is not None and k >= 0:
                    z.add(node, "Z", k)
        elif op in ("Shr", "ShrUnchecked"):
            z.forget(node)
            if uns and na is not None:
                z.add(node, na, 0)
        else:
            z.forget(node)
        if not math:
            self.nonneg(z, node, ty or ta or tb)

    def call(self, z, t):
        """effects of a call terminator on the state flowing to its normal successor"""
        if z.bottom:
            return
        name = mir.strip_generics((t.get("res") or "").lstrip("?"))
        args = t["args"]
        dest = t["dest"]
        # checked element access: `s.get(i)` is Some exactly when i < len(s); remembered for the edge on which the Option (or the
        # ControlFlow that `?` turns it into) is found to be Some / Continue
        if not dest["p"]:
            if re.search(r"(slice::<impl \[T\]>::get|vec::Vec::get|std::vec::Vec::get|slice::get)$", name) and len(args) == 2:
                self.getfacts[dest["l"]] = (args[1], args[0], 1)
            elif re.search(r"option::Option.*Try>?::branch$|<std::option::Option as std::ops::Try>::branch$", name) and args:
                pl0 = mir.op_place(args[0])
                if pl0 is not None and not pl0["p"] and pl0["l"] in self.getfacts:
                    ix, ct, _ = self.getfacts[pl0["l"]]
                    self.getfacts[dest["l"]] = (ix, ct, 0)
        # 1. effects through &mut arguments
        eff = LEN_EFFECT.get(name)
        for ai, a in enumerate(args):
            pl = mir.op_place(a)
            if pl is None:
                continue
            ty = self.place_ty(pl) if not pl["p"] else None
            lty = self.b.locals[pl["l"]]["ty"] if not pl["p"] else ""
            if not lty.startswith("&mut") and not lty.startswith("&'a mut") and " mut " not in lty[:12]:
                continue
            k = self.root_key(pl["l"])
            if eff is not None and ai == 0:
                kind, d = eff
                ln = "len:" + k
                if kind == "delta":
                    self.nonneg(z, ln, None)
                    z.assign(ln, ln, d)
                    if d < 0:
                        pass
                elif kind == "zero":
                    z.assign(ln, "Z", 0)
                elif kind == "shrink":
                    ups = dict(z.fwd.get(ln, {}))
                    z.forget(ln)
                    for bb, c in ups.items():
                        z.add(ln, bb, c)
                    self.nonneg(z, ln, None)
                elif kind == "grow":
                    lows = dict(z.bwd.get(ln, {}))
                    z.forget(ln)
                    for aa, c in lows.items():
                        z.add(aa, ln, c)
                    self.nonneg(z, ln, None)
                continue
            if name.endswith("Iterator::next") or re.search(r"::next$", name):
                # iterator state changes; bounds facts of Range handled below
                continue
            z.forget_prefix(k)
        # 2. result
        dnode, dty = self.int_node(dest)
        if not dest["p"] and dest["l"] in self.refdef:
            dk = None
        else:
            dk = self.place_key(dest) if dest["p"] else "L%d" % dest["l"]
        if dnode is not None:
            z.forget(dnode)
            self.nonneg(z, dnode, dty)
            if LEN_FNS.match(name) and args and mir.op_place(args[0]) is not None:
                ln = self.len_node(mir.op_place(args[0]))
                if ln:
                    self.nonneg(z, ln, None)
                    z.assign(dnode, ln, 0)
            elif re.search(r"(std::cmp::min|Ord::min|::min)$", name) and len(args) == 2:
                for a in args:
                    n2, c2, _ = self.op_node(a)
                    if n2 is not None:
                        z.add(dnode, n2, 0)
                    elif c2 is not None:
                        z.add(dnode, "Z", c2)
            elif re.search(r"(std::cmp::max|Ord::max|::max)$", name) and len(args) == 2:
                for a in args:
                    n2, c2, _ = self.op_node(a)
                    if n2 is not None:
                        z.add(n2, dnode, 0)
                    elif c2 is not None:
                        z.add("Z", dnode, -c2)
            elif re.search(r"::saturating_sub$", name) and len(args) == 2:
                n2, c2, _ = self.op_node(args[0])
                if n2 is not None:
                    z.add(dnode, n2, 0)
            elif self.prog is not None and hasattr(self.prog, "ret_facts"):
                for (rel, ai, c) in self.prog.ret_facts.get(t.get("res"), []):
                    self._apply_ret_fact(z, dnode, rel, args, ai, c)
        elif dk is not None and "[]" not in dk:
            z.forget_prefix(dk)
            if ALIAS_FNS.match(name) and args and mir.op_place(args[0]) is not None and self.refdef.get(dest["l"]) is None:
                sk = self.place_key(mir.op_place(args[0]))
                if sk:
                    self.copy_sub(z, sk, dk)
                    if ("len:" + sk) in z.nodes():
                        z.assign("len:" + dk, "len:" + sk, 0)
            elif re.search(r"range::.*next$|Range.*::next$|std::iter::range::next$", name) and args:
                pl = mir.op_place(args[0])
                ik = self.root_key(pl["l"]) if pl is not None and not pl["p"] else None
                if ik:
                    v = dk + "@Some.0"
                    z.forget(v)
                    z.add("Z", v, 0)
                    if (ik + ".end") in z.nodes():
                        z.add(v, ik + ".end", -1)
                    if (ik + ".start") in z.nodes():
                        z.add(ik + ".start", v, 0)
                        # start' = v + 1 on the Some path; keep only start <= end
                        ups = z.get(ik + ".start", ik + ".end")
                        z.forget(ik + ".start")
                        z.add(v, ik + ".start", -1)
            elif re.search(r"Enumerate.*::next$|enumerate::.*next$", name) and args:
                pl = mir.op_place(args[0])
                ik = self.root_key(pl["l"]) if pl is not None and not pl["p"] else None
                if ik:
                    v = dk + "@Some.0.0"
                    z.forget(v)
                    z.add("Z", v, 0)
                    ln = "len:" + ik
                    if ln in z.nodes() or True:
                        self.nonneg(z, ln, None)
                        z.add(v, ln, -1)
            elif re.search(r"(core::slice::index::index|core::str::traits::index|<std::vec::Vec as std::ops::Index>::index|<std::string::String as std::ops::Index>::index)(_mut)?$", name) and len(args) == 2:
                # sub-slice: len(dest) = end - start (only simple cases)
                rk = self.place_key(mir.op_place(args[1])) if mir.op_place(args[1]) is not None else None
                sk = self.place_key(mir.op_place(args[0])) if mir.op_place(args[0]) is not None else None
                ln = "len:" + dk
                if rk and sk:
                    self.nonneg(z, ln, None)
                    nodes = z.nodes()
                    st, en = rk + ".start", rk + ".end"
                    if st in nodes and en not in nodes:
                        # [start..]: len = len(src) - start  -> remember as affine fact
                        z.add(ln, "len:" + sk, 0)
                        self.affine[ln] = ("len:" + sk, st)
                    elif st not in nodes and en in nodes:
                        z.assign(ln, en, 0)
                    elif st in nodes and en in nodes:
                        z.add(ln, en, 0)
                        self.affine[ln] = (en, st)

    def _apply_ret_fact(self, z, dnode, rel, args, ai, c):
        pass

    affine = {}
    getfacts = {}

    def edge(self, z, bi, succ_block):
        """refine the out-state of block bi along the edge to succ_block"""
        t = self.b.blocks[bi]["t"]
        if z.bottom:
            return z
        if t["k"] == "switch":
            d = t["d"]
            dty = t["dty"]
            if dty == "bool":
                tv = None
                ts = t["ts"]
                # targets: [["0", bbFalse]] otherwise = true
                if len(ts) == 1 and ts[0][0] == "0":
                    if succ_block == ts[0][1] and succ_block != t["o"]:
                        tv = False
                    elif succ_block == t["o"] and succ_block != ts[0][1]:
                        tv = True
                if tv is not None:
                    cons = self.cond_constraints(d, tv, bi)
                    if cons:
                        z = z.copy()
                        ne = [c for c in cons if c[0] == "ne"]
                        cons = [c for c in cons if c[0] != "ne"]
                        for (_, A, B, k) in ne:
                            # A != B + k : sharpen a non-strict bound
                            if z.get(A, B) == k:
                                z.add(A, B, k - 1)
                            if z.get(B, A) == -k:
                                z.add(B, A, -k - 1)
                        for (a, b_, c) in cons:
                            z.add(a, b_, c)
                            # affine side facts: S = A - B and  Z - S <= -k  =>  B - A <= -k
                            for nd in (a, b_):
                                pass
                        for (a, b_, c) in cons:
                            if a == "Z" and b_ in self.affine:
                                A, B = self.affine[b_]
                                z.add(B, A, c)
            elif is_int(dty):
                # discriminant of the result of a checked access: on the Some / Continue edge the index is in range
                dpl = mir.op_place(d)
                if dpl is not None and not dpl["p"]:
                    for s_ in self.b.blocks[bi]["s"]:
                        if s_["k"] == "assign" and not s_["p"]["p"] and s_["p"]["l"] == dpl["l"] and s_["rv"]["r"] == "discr" and not s_["rv"]["p"]["p"] and s_["rv"]["p"]["l"] in self.getfacts:
                            ixop, ctop, sv = self.getfacts[s_["rv"]["p"]["l"]]
                            listed = [int(v) for v, bb in t["ts"] if bb == succ_block]
                            alllisted = {int(v) for v, bb in t["ts"]}
                            on_some = (listed == [sv] and succ_block != t["o"]) or (succ_block == t["o"] and not listed and alllisted == {1 - sv})
                            if on_some:
                                ln = self.len_node(mir.op_place(ctop)) if mir.op_place(ctop) is not None else None
                                ix, ic, _ = self.op_node(ixop)
                                if ln is not None:
                                    z = z.copy()
                                    self.nonneg(z, ln, None)
                                    if ix is not None:
                                        z.add(ix, ln, -1)
                                    elif ic is not None:
                                        z.add("Z", ln, -(ic + 1))
                n, c0, _ = self.op_node(d)
                if n is not None:
                    vals = [int(v) for v, bb in t["ts"] if bb == succ_block]
                    if len(vals) == 1 and succ_block != t["o"]:
                        z = z.copy()
                        z.assign(n, "Z", vals[0])
        elif t["k"] == "assert":
            # after a passed assert its condition holds
            cons = [c for c in self.cond_constraints(t["cond"], t["exp"], bi) if c[0] != "ne"]
            ak = t["ak"]
            z2 = None
            if ak == "BoundsCheck":
                ln, lc, _ = self.op_node(t["ops"][0])
                ix, ic, _ = self.op_node(t["ops"][1])
                z2 = z.copy()
                A = ix if ix is not None else None
                if A is not None:
                    if ln is not None:
                        z2.add(A, ln, -1)
                    elif lc is not None:
                        z2.add(A, "Z", lc - 1)
            if ak == "Overflow" and len(t["ops"]) == 2:
                # the checked operation did not overflow
                na, ca, ta = self.op_node(t["ops"][0])
                nb, cb, tb = self.op_node(t["ops"][1])
                ty = ta if ta in INT_BITS else tb
                if ty in INT_BITS:
                    z2 = z2 or z.copy()
                    mx = ty_max(ty)
                    if t["op"] == "Sub" and is_unsigned(ty):
                        if na is not None and cb is not None:
                            z2.add("Z", na, -cb)
                        elif na is not None and nb is not None:
                            z2.add(nb, na, 0)
                        elif ca is not None and nb is not None:
                            z2.add(nb, "Z", ca)
                    elif t["op"] == "Add" and is_unsigned(ty):
                        if na is not None and cb is not None:
                            z2.add(na, "Z", mx - cb)
                        elif nb is not None and ca is not None:
                            z2.add(nb, "Z", mx - ca)
            if cons:
                z2 = z2 or z.copy()
                for (a, b_, c) in cons:
                    z2.add(a, b_, c)
            if z2 is not None:
                z = z2
        return z

    def block_out(self, bi, zin):
        z = zin.copy()
        blk = self.b.blocks[bi]
        for s in blk["s"]:
            self.stmt(z, s)
        t = blk["t"]
        if t["k"] == "call":
            self.call(z, t)
        elif t["k"] == "drop":
            pass
        return z

    def solve(self):
        b = self.b
        self.affine = {}
        self.getfacts = {}
        n = len(b.blocks)
        z0 = Zone()
        for i in range(1, b.argc + 1):
            ty = b.locals[i]["ty"]
            if is_int(ty):
                self.nonneg(z0, "L%d" % i, ty)
        if self.entry:
            for (a, bb, c) in self.entry:
                z0.add(a, bb, c)
        instate = {0: z0}
        heads = {h for (_, h) in b.back_edges()}
        visits = {}
        order = b.rpo()
        pos = {x: i for i, x in enumerate(order)}
        work = [0]
        inwork = {0}
        steps = 0
        succs = b.succ()
        while work and steps < 40000:
            work.sort(key=lambda x: -pos.get(x, 0))
            bi = work.pop()
            inwork.discard(bi)
            steps += 1
            zin = instate[bi]
            zout = self.block_out(bi, zin)
            for sb in succs[bi]:
                if b.blocks[sb]["cleanup"]:
                    continue
                ze = self.edge(zout, bi, sb)
                if ze.bottom:
                    continue
                old = instate.get(sb)
                if old is None:
                    new = ze.copy()
                else:
                    if leq(ze, old):
                        continue
                    new = join(old, ze)
                    if sb in heads:
                        visits[sb] = visits.get(sb, 0) + 1
                        if visits[sb] > 2:
                            new = widen(old, new)
                instate[sb] = new
                if sb not in inwork:
                    work.append(sb)
                    inwork.add(sb)
        self.instate = instate
        self.steps = steps

    # ------------------------------------------------------------------ queries
    def state_before_terminator(self, bi):
        zin = self.instate.get(bi)
        if zin is None:
            return None   # unreachable
        z = zin.copy()
        for s in self.b.blocks[bi]["s"]:
            self.stmt(z, s)
        return z

    def le(self, z, a, ka, b, kb):
        """is  a + ka <= b + kb  implied?  a/b: node or None (constant only)"""
        if z is None or z.bottom:
            return True
        A = a if a is not None else "Z"
        B = b if b is not None else "Z"
        return z.get(A, B) <= kb - ka
