// C20: canonicalisation (9 behaviour-preserving rewrite classes) and item-by-item diff between
// the fresh expansion of the in-tree DSL by the in-tree generator and the shipped specification.rs.
use proc_macro2::{TokenStream, TokenTree};
use quote::ToTokens;
use std::collections::BTreeMap;
use std::str::FromStr;
use syn::visit::{self, Visit};
use syn::visit_mut::{self, VisitMut};
use crate::ast::esc;

struct UsesIdent<'a>(&'a str, bool);
impl<'ast, 'a> Visit<'ast> for UsesIdent<'a> {
    fn visit_ident(&mut self, i: &'ast proc_macro2::Ident) { if i == self.0 { self.1 = true; } }
    fn visit_macro(&mut self, m: &'ast syn::Macro) {
        for t in m.tokens.clone() { if tok_has(&t, self.0) { self.1 = true; } }
        visit::visit_macro(self, m);
    }
}
fn tok_has(t: &TokenTree, name: &str) -> bool {
    match t { TokenTree::Ident(i) => i == name, TokenTree::Group(g) => g.stream().into_iter().any(|x| tok_has(&x, name)), _ => false }
}

struct Canon;
impl VisitMut for Canon {
    fn visit_attributes_mut(&mut self, attrs: &mut Vec<syn::Attribute>) {
        attrs.retain(|a| !a.path().is_ident("doc"));
        for a in attrs.iter_mut() {
            if a.path().is_ident("derive") {
                // sort derive list
                if let syn::Meta::List(ml) = &mut a.meta {
                    let mut names: Vec<String> = ml.tokens.to_string().split(',').map(|s| s.trim().to_string()).filter(|s| !s.is_empty()).collect();
                    names.sort();
                    ml.tokens = TokenStream::from_str(&names.join(", ")).unwrap();
                }
            }
        }
    }
    fn visit_expr_mut(&mut self, e: &mut syn::Expr) {
        visit_mut::visit_expr_mut(self, e);
        loop {
            match e {
                // N3: redundant parens
                syn::Expr::Paren(p) => { let inner = (*p.expr).clone(); *e = inner; continue; }
                // N7: x.len() == 0  ->  x.is_empty()
                syn::Expr::Binary(b) if matches!(b.op, syn::BinOp::Eq(_)) => {
                    if let (syn::Expr::MethodCall(mc), syn::Expr::Lit(l)) = (&*b.left, &*b.right) {
                        if mc.method == "len" && mc.args.is_empty() && l.to_token_stream().to_string() == "0" {
                            let recv = &mc.receiver;
                            *e = syn::parse_quote!(#recv.is_empty());
                            continue;
                        }
                    }
                    break;
                }
                // N9: (*E).field -> E.field
                syn::Expr::Field(f) => {
                    if let syn::Expr::Unary(u) = &*f.base {
                        if matches!(u.op, syn::UnOp::Deref(_)) { let inner = (*u.expr).clone(); f.base = Box::new(inner); continue; }
                    }
                    break;
                }
                // N5: &seqitemN -> seqitemN
                syn::Expr::Reference(r) if r.mutability.is_none() => {
                    if let syn::Expr::Path(p) = &*r.expr {
                        if let Some(id) = p.path.get_ident() {
                            if id.to_string().starts_with("seqitem") { let inner = (*r.expr).clone(); *e = inner; continue; }
                        }
                    }
                    break;
                }
                _ => break,
            }
        }
    }
    fn visit_arm_mut(&mut self, a: &mut syn::Arm) {
        visit_mut::visit_arm_mut(self, a);
        // N2: { expr } -> expr
        if let syn::Expr::Block(b) = &*a.body {
            if b.attrs.is_empty() && b.label.is_none() && b.block.stmts.len() == 1 {
                if let syn::Stmt::Expr(inner, None) = &b.block.stmts[0] {
                    let inner = inner.clone();
                    a.body = Box::new(inner);
                }
            }
        }
        a.comma = Some(Default::default());
    }
    fn visit_expr_for_loop_mut(&mut self, f: &mut syn::ExprForLoop) {
        visit_mut::visit_expr_for_loop_mut(self, f);
        // N6: for (i, x) in E.iter().enumerate() with i unused -> for x in &E
        if let syn::Pat::Tuple(pt) = &*f.pat {
            if pt.elems.len() == 2 {
                if let (syn::Pat::Ident(i), x) = (&pt.elems[0], &pt.elems[1]) {
                    let mut u = UsesIdent(&i.ident.to_string(), false);
                    u.visit_block(&f.body);
                    if !u.1 {
                        if let syn::Expr::MethodCall(en) = &*f.expr {
                            if en.method == "enumerate" {
                                if let syn::Expr::MethodCall(it) = &*en.receiver {
                                    if it.method == "iter" {
                                        let recv = (*it.receiver).clone();
                                        let x = x.clone();
                                        f.pat = Box::new(x);
                                        f.expr = Box::new(syn::parse_quote!(&#recv));
                                    }
                                }
                            }
                        }
                    }
                }
            }
        }
    }
    fn visit_block_mut(&mut self, b: &mut syn::Block) {
        visit_mut::visit_block_mut(self, b);
        // N8: unused `const TAG_LIST` in this block
        let mut remove = None;
        for (idx, s) in b.stmts.iter().enumerate() {
            if let syn::Stmt::Item(syn::Item::Const(c)) = s {
                let name = c.ident.to_string();
                let mut u = UsesIdent(&name, false);
                for (j, s2) in b.stmts.iter().enumerate() { if j != idx { u.visit_stmt(s2); } }
                if !u.1 { remove = Some(idx); }
            }
        }
        if let Some(i) = remove { b.stmts.remove(i); }
    }
}

fn item_key(it: &syn::Item) -> Option<String> {
    Some(match it {
        syn::Item::Struct(s) => format!("struct {}", s.ident),
        syn::Item::Enum(s) => format!("enum {}", s.ident),
        syn::Item::Trait(s) => format!("trait {}", s.ident),
        syn::Item::Impl(i) => {
            let ty = flat(i.self_ty.to_token_stream()).join(" ");
            let tr = i.trait_.as_ref().map(|t| flat(t.1.to_token_stream()).join(" ")).unwrap_or_default();
            let fns: Vec<String> = i.items.iter().filter_map(|x| if let syn::ImplItem::Fn(f) = x { Some(f.sig.ident.to_string()) } else { None }).collect();
            format!("impl {} for {} [{}]", tr, ty, fns.join(","))
        }
        syn::Item::Use(_) => return None,
        syn::Item::Mod(m) => { if m.attrs.iter().any(|a| a.to_token_stream().to_string().contains("cfg (test)")) { return None; } format!("mod {}", m.ident) }
        syn::Item::Macro(m) => format!("macro {}", m.mac.path.to_token_stream()),
        other => format!("other {}", other.to_token_stream().to_string().chars().take(40).collect::<String>()),
    })
}

fn canon_items(mut f: syn::File) -> BTreeMap<String, Vec<String>> {
    f.attrs.clear();
    Canon.visit_file_mut(&mut f);
    let mut m = BTreeMap::new();
    for it in &f.items {
        if let Some(k) = item_key(it) {
            let toks: Vec<String> = flat(it.to_token_stream());
            m.entry(k).or_insert_with(Vec::new).extend(toks);
        }
    }
    m
}
fn flat(ts: TokenStream) -> Vec<String> {
    let mut out = Vec::new();
    for t in ts { match t { TokenTree::Group(g) => { out.push(format!("{:?}(", g.delimiter())); out.extend(flat(g.stream())); out.push(")".into()); } t => out.push(t.to_string()) } }
    // drop trailing commas
    let mut res: Vec<String> = Vec::new();
    for (i, x) in out.iter().enumerate() { if x == "," && out.get(i+1).map(|s| s == ")").unwrap_or(true) { continue; } res.push(x.clone()); }
    res
}


/// replace every `name!{...}` invocation in ts by f(inner); returns (source text, number of invocations)
pub fn expand_macros(ts: TokenStream, name: &str, f: &dyn Fn(TokenStream) -> TokenStream) -> (TokenStream, usize) {
    let toks: Vec<TokenTree> = ts.into_iter().collect();
    let mut out = TokenStream::new();
    let mut i = 0;
    let mut found = 0;
    while i < toks.len() {
        if let TokenTree::Ident(id) = &toks[i] {
            if id == name {
                if let (Some(TokenTree::Punct(p)), Some(TokenTree::Group(g))) = (toks.get(i + 1), toks.get(i + 2)) {
                    if p.as_char() == '!' {
                        out.extend(f(g.stream()));
                        found += 1;
                        i += 3;
                        // swallow a trailing `;`
                        if let Some(TokenTree::Punct(p)) = toks.get(i) { if p.as_char() == ';' { i += 1; } }
                        continue;
                    }
                }
            }
        }
        out.extend(std::iter::once(toks[i].clone()));
        i += 1;
    }
    (out, found)
}

pub fn expand_and_diff(orig_path: &str, shipped_path: &str) -> String {
    let orig = std::fs::read_to_string(orig_path).expect("read orig");
    let ts = TokenStream::from_str(&orig).expect("tokenize orig");
    let (out, found) = expand_macros(ts, "a2l_specification", &|g| crate::a2lspec::a2l_specification(g));
    if found != 1 {
        return format!("{{\"error\":\"expected exactly one a2l_specification! invocation, found {}\"}}", found);
    }
    let fresh: syn::File = match syn::parse2(out) {
        Ok(f) => f,
        Err(e) => return format!("{{\"error\":{}}}", esc(&format!("fresh expansion does not parse: {e}"))),
    };
    let shipped: syn::File = match syn::parse_file(&std::fs::read_to_string(shipped_path).expect("read shipped")) {
        Ok(f) => f,
        Err(e) => return format!("{{\"error\":{}}}", esc(&format!("shipped file does not parse: {e}"))),
    };
    let a = canon_items(fresh);
    let b = canon_items(shipped);
    let mut diffs: Vec<String> = Vec::new();
    let mut equal_keys: Vec<String> = Vec::new();
    for (k, v) in &a {
        match b.get(k) {
            None => diffs.push(format!("{{\"key\":{},\"kind\":\"only_fresh\"}}", esc(k))),
            Some(w) => {
                if v != w {
                    let p = v.iter().zip(w.iter()).position(|(x, y)| x != y).unwrap_or(v.len().min(w.len()));
                    let lo = p.saturating_sub(8);
                    diffs.push(format!(
                        "{{\"key\":{},\"kind\":\"diff\",\"pos\":{},\"fresh\":{},\"shipped\":{}}}",
                        esc(k), p,
                        esc(&v[lo..(p + 8).min(v.len())].join(" ")),
                        esc(&w[lo..(p + 8).min(w.len())].join(" "))
                    ));
                } else {
                    equal_keys.push(esc(k));
                }
            }
        }
    }
    for k in b.keys() {
        if !a.contains_key(k) {
            diffs.push(format!("{{\"key\":{},\"kind\":\"only_shipped\"}}", esc(k)));
        }
    }
    let ntok: usize = b.values().map(|v| v.len()).sum();
    format!(
        "{{\"items_fresh\":{},\"items_shipped\":{},\"tokens_shipped\":{},\"equal\":{},\"diffs\":[{}],\"equal_keys\":[{}]}}",
        a.len(), b.len(), ntok, equal_keys.len(), diffs.join(","), equal_keys.join(",")
    )
}
