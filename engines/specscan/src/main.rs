// specscan: syn-based fact extractor (Engine S).
//   specscan ast <file.rs>...            -> JSON {"files": {path: ast}}   on stdout
//   specscan expand <orig.rs> <shipped.rs>  -> C20 canonical item diff (JSON on stdout)
//   specscan a2ml-expand <invocation.rs>    -> expansion of a2ml_specification! by the in-tree generator (Rust source on stdout)
// The in-tree generator sources are copied into src/gen_under_test/ before each build (see bin/vcheck).
#![allow(dead_code)]
mod ast;
mod canon;
// in-tree generator sources, copied from /repo/a2lmacros/src before each build
#[allow(warnings)]
pub(crate) mod a2lspec;
#[allow(warnings)]
pub(crate) mod a2mlspec;
#[allow(warnings)]
pub(crate) mod codegenerator;
#[allow(warnings)]
pub(crate) mod util;

use std::str::FromStr;

fn main() {
    let args: Vec<String> = std::env::args().collect();
    if args.len() < 2 {
        eprintln!("usage: specscan ast|expand|a2ml-expand ...");
        std::process::exit(2);
    }
    match args[1].as_str() {
        "ast" => {
            let mut out = String::from("{\"files\":{");
            for (i, p) in args[2..].iter().enumerate() {
                let src = match std::fs::read_to_string(p) {
                    Ok(s) => s,
                    Err(e) => {
                        eprintln!("specscan: cannot read {p}: {e}");
                        std::process::exit(2);
                    }
                };
                let f = match syn::parse_file(&src) {
                    Ok(f) => f,
                    Err(e) => {
                        eprintln!("specscan: cannot parse {p}: {e}");
                        std::process::exit(2);
                    }
                };
                if i > 0 {
                    out.push(',');
                }
                out.push_str(&ast::esc(p));
                out.push(':');
                out.push_str(&ast::file(&f));
            }
            out.push_str("}}");
            println!("{}", out);
        }
        "expand" => {
            let r = canon::expand_and_diff(&args[2], &args[3]);
            println!("{}", r);
        }
        "a2ml-expand" => {
            let src = std::fs::read_to_string(&args[2]).expect("read invocation");
            let ts = proc_macro2::TokenStream::from_str(&src).expect("tokenize invocation");
            let out = canon::expand_macros(ts, "a2ml_specification", &|g| a2mlspec::a2ml_specification(g));
            println!("{}", out.0);
        }
        other => {
            eprintln!("unknown subcommand {other}");
            std::process::exit(2);
        }
    }
}
