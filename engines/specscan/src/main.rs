// specscan: syn-based fact extractor (Engine S).
//   specscan ast <file.rs>...            -> JSON {"files": {path: ast}}   on stdout
//   specscan expand <orig.rs> <shipped.rs>  -> C20 canonical item diff (JSON on stdout)
//   specscan a2ml-expand <invocation.rs>    -> expansion of a2ml_specification! by the in-tree generator (Rust source on stdout)
// The in-tree generator sources are copied into src/gen_under_test/ before each build (see bin/vcheck).
#![allow(dead_code)]
mod ast;
mod canon;
// in-tree generator sources, copied from /repo/a2lmacros/src before each build
#[allow(warnings)]
pub(crate) mod a2lspec;
#[allow(warnings)]
pub(crate) mod a2mlspec;
#[allow(warnings)]
pub(crate) mod codegenerator;
#[allow(warnings)]
pub(crate) mod util;

use std::str::FromStr;

fn main() {
    let args: Vec<String> = std::env::args().collect();
    if args.len() < 2 {
        eprintln!("usage: specscan ast|expand|a2ml-expand ...");
        std::process::exit(2);
    }
    match args[1].as_str() {
        "ast" => {
            let mut out = String::from("{\"files\":{");
            for (i, p) in args[2..].iter().enumerate() {
                let src = match std::fs::read_to_string(p) {
                    Ok(s) => s,
                    Err(e) => {
                        eprintln!("specscan: cannot read {p}: {e}");
                        std::process::exit(2);
                    }
                };
                let f = match syn::parse_file(&src) {
                    Ok(f) => f,
                    Err(e) => {
                        eprintln!("specscan: cannot parse {p}: {e}");
                        std::process::exit(2);
                    }
                };
                if i > 0 {
                    out.push(',');
                }
                out.push_str(&ast::esc(p));
                out.push(':');
                out.push_str(&ast::file(&f));
            }
            out.push_str("}}");
            println!("{}", out);
        }
        "expand" => {
            let r = canon::expand_and_diff(&args[2], &args[3]);
            println!("{}", r);
        }
        "a2ml-expand" => {
            let src = std::fs::read_to_string(&args[2]).expect("read invocation");
            let ts = proc_macro2::TokenStream::from_str(&src).expect("tokenize invocation");
            let out = canon::expand_macros(ts, "a2ml_specification", &|g| a2mlspec::a2ml_specification(g));
            println!("{}", out.0);
        }
        "a2ml-text" => {
            // for every a2ml_specification!{..} invocation in the file: the macro input (as nested token JSON), and the
            // string constants / item names of the expansion produced by the in-tree generator
            let src = std::fs::read_to_string(&args[2]).expect("read invocation");
            let ts = proc_macro2::TokenStream::from_str(&src).expect("tokenize invocation");
            let toks: Vec<proc_macro2::TokenTree> = ts.into_iter().collect();
            let mut out = String::from("{\"specs\":[");
            let mut first = true;
            let mut i = 0;
            while i + 2 < toks.len() {
                if let (proc_macro2::TokenTree::Ident(id), proc_macro2::TokenTree::Punct(p), proc_macro2::TokenTree::Group(g)) = (&toks[i], &toks[i + 1], &toks[i + 2]) {
                    if id == "a2ml_specification" && p.as_char() == '!' {
                        let expansion = a2mlspec::a2ml_specification(g.stream());
                        let mut consts = Vec::new();
                        let mut items = Vec::new();
                        match syn::parse2::<syn::File>(expansion.clone()) {
                            Ok(f) => {
                                for it in &f.items {
                                    match it {
                                        syn::Item::Const(c) => {
                                            if let syn::Expr::Lit(l) = &*c.expr {
                                                if let syn::Lit::Str(sv) = &l.lit {
                                                    consts.push(format!("{}:{}", ast::esc(&c.ident.to_string()), ast::esc(&sv.value())));
                                                }
                                            }
                                        }
                                        other => items.push(ast::item(other)),
                                    }
                                }
                            }
                            Err(e) => {
                                eprintln!("specscan: expansion of a2ml_specification! does not parse: {e}");
                                std::process::exit(3);
                            }
                        }
                        if !first { out.push(','); }
                        first = false;
                        out.push_str(&format!("{{\"input\":{},\"consts\":{{{}}},\"items\":[{}]}}", ast::token_tree(g.stream()), consts.join(","), items.join(",")));
                        i += 3;
                        continue;
                    }
                }
                i += 1;
            }
            out.push_str("]}");
            println!("{}", out);
        }
        other => {
            eprintln!("unknown subcommand {other}");
            std::process::exit(2);
        }
    }
}
