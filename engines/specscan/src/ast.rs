// Generic syn AST -> JSON dump (only what the rule layer needs; unknown constructs
// are emitted as {"t":"Verbatim","src":...} so that rules fail closed on them).
use proc_macro2::{Delimiter, TokenStream, TokenTree};
use quote::ToTokens;
use syn::spanned::Spanned;

pub fn esc(s: &str) -> String {
    let mut o = String::with_capacity(s.len() + 2);
    o.push('"');
    for c in s.chars() {
        match c {
            '"' => o.push_str("\\\""),
            '\\' => o.push_str("\\\\"),
            '\n' => o.push_str("\\n"),
            '\r' => o.push_str("\\r"),
            '\t' => o.push_str("\\t"),
            c if (c as u32) < 0x20 => o.push_str(&format!("\\u{:04x}", c as u32)),
            c => o.push(c),
        }
    }
    o.push('"');
    o
}

pub fn toks<T: ToTokens>(t: &T) -> String {
    norm_tokens(t.to_token_stream())
}

/// token text with single spaces, no space around `::`, `.`, before `,`/`;`/`)`/`]`, after `(`/`[`/`&`/`!`
pub fn norm_tokens(ts: TokenStream) -> String {
    let mut out: Vec<String> = Vec::new();
    flat(ts, &mut out);
    let mut s = String::new();
    let mut prev = String::new();
    for t in out {
        let nospace_before = matches!(t.as_str(), "::" | "." | "," | ";" | ")" | "]" | "?" | ">" | "<" | "(" | "[") && !prev.is_empty();
        let nospace_after_prev = matches!(prev.as_str(), "::" | "." | "(" | "[" | "&" | "!" | "<" | "*" | "-" if prev != "-" || true);
        let need_space = !(s.is_empty() || nospace_before || nospace_after_prev);
        // keep binary operators readable: put spaces around `=`-like tokens handled by default
        if need_space {
            s.push(' ');
        }
        s.push_str(&t);
        prev = t;
    }
    s
}

fn flat(ts: TokenStream, out: &mut Vec<String>) {
    let mut pending: Option<String> = None;
    for t in ts {
        match t {
            TokenTree::Group(g) => {
                if let Some(p) = pending.take() {
                    out.push(p);
                }
                let (o, c) = match g.delimiter() {
                    Delimiter::Parenthesis => ("(", ")"),
                    Delimiter::Brace => ("{", "}"),
                    Delimiter::Bracket => ("[", "]"),
                    Delimiter::None => ("", ""),
                };
                if !o.is_empty() {
                    out.push(o.into());
                }
                flat(g.stream(), out);
                if !c.is_empty() {
                    out.push(c.into());
                }
            }
            TokenTree::Punct(p) => {
                let mut cur = pending.take().unwrap_or_default();
                cur.push(p.as_char());
                if p.spacing() == proc_macro2::Spacing::Joint {
                    pending = Some(cur);
                } else {
                    out.push(cur);
                }
            }
            other => {
                if let Some(p) = pending.take() {
                    out.push(p);
                }
                out.push(other.to_string());
            }
        }
    }
    if let Some(p) = pending.take() {
        out.push(p);
    }
}

fn line<T: Spanned>(t: &T) -> usize {
    t.span().start().line
}

fn arr(v: Vec<String>) -> String {
    format!("[{}]", v.join(","))
}

fn opt(v: Option<String>) -> String {
    v.unwrap_or_else(|| "null".to_string())
}

pub fn path_str(p: &syn::Path) -> String {
    let mut s = String::new();
    if p.leading_colon.is_some() {
        s.push_str("::");
    }
    for (i, seg) in p.segments.iter().enumerate() {
        if i > 0 {
            s.push_str("::");
        }
        s.push_str(&seg.ident.to_string());
    }
    s
}

/// generic arguments of the last segment (turbofish or type args), as token strings
fn path_generics(p: &syn::Path) -> Vec<String> {
    let mut v = Vec::new();
    for seg in p.segments.iter() {
        if let syn::PathArguments::AngleBracketed(ab) = &seg.arguments {
            for a in &ab.args {
                v.push(esc(&toks(a)));
            }
        }
    }
    v
}

pub fn lit(l: &syn::Lit) -> String {
    match l {
        syn::Lit::Str(s) => format!("{{\"t\":\"Lit\",\"kind\":\"str\",\"v\":{}}}", esc(&s.value())),
        syn::Lit::ByteStr(s) => format!("{{\"t\":\"Lit\",\"kind\":\"bytestr\",\"v\":{}}}", esc(&String::from_utf8_lossy(&s.value()))),
        syn::Lit::Byte(b) => format!("{{\"t\":\"Lit\",\"kind\":\"byte\",\"v\":{},\"src\":{}}}", b.value(), esc(&b.to_token_stream().to_string())),
        syn::Lit::Char(c) => format!("{{\"t\":\"Lit\",\"kind\":\"char\",\"v\":{}}}", esc(&c.value().to_string())),
        syn::Lit::Int(i) => format!("{{\"t\":\"Lit\",\"kind\":\"int\",\"v\":{},\"suffix\":{}}}", esc(i.base10_digits()), esc(i.suffix())),
        syn::Lit::Float(f) => format!("{{\"t\":\"Lit\",\"kind\":\"float\",\"v\":{},\"suffix\":{}}}", esc(f.base10_digits()), esc(f.suffix())),
        syn::Lit::Bool(b) => format!("{{\"t\":\"Lit\",\"kind\":\"bool\",\"v\":{}}}", b.value),
        other => format!("{{\"t\":\"Lit\",\"kind\":\"other\",\"v\":{}}}", esc(&other.to_token_stream().to_string())),
    }
}

pub fn pat(p: &syn::Pat) -> String {
    match p {
        syn::Pat::Ident(i) => format!(
            "{{\"t\":\"PIdent\",\"name\":{},\"mut\":{},\"ref\":{},\"sub\":{}}}",
            esc(&i.ident.to_string()),
            i.mutability.is_some(),
            i.by_ref.is_some(),
            opt(i.subpat.as_ref().map(|(_, p)| pat(p)))
        ),
        syn::Pat::Wild(_) => "{\"t\":\"PWild\"}".into(),
        syn::Pat::Rest(_) => "{\"t\":\"PRest\"}".into(),
        syn::Pat::Tuple(t) => format!("{{\"t\":\"PTuple\",\"elems\":{}}}", arr(t.elems.iter().map(pat).collect())),
        syn::Pat::TupleStruct(t) => format!(
            "{{\"t\":\"PTupleStruct\",\"path\":{},\"elems\":{}}}",
            esc(&path_str(&t.path)),
            arr(t.elems.iter().map(pat).collect())
        ),
        syn::Pat::Struct(s) => {
            let fields: Vec<String> = s
                .fields
                .iter()
                .map(|f| format!("{{\"name\":{},\"pat\":{}}}", esc(&f.member.to_token_stream().to_string()), pat(&f.pat)))
                .collect();
            format!("{{\"t\":\"PStruct\",\"path\":{},\"fields\":{},\"rest\":{}}}", esc(&path_str(&s.path)), arr(fields), s.rest.is_some())
        }
        syn::Pat::Path(p) => format!("{{\"t\":\"PPath\",\"path\":{}}}", esc(&path_str(&p.path))),
        syn::Pat::Lit(l) => format!("{{\"t\":\"PLit\",\"lit\":{}}}", lit(&l.lit)),
        syn::Pat::Reference(r) => format!("{{\"t\":\"PRef\",\"mut\":{},\"pat\":{}}}", r.mutability.is_some(), pat(&r.pat)),
        syn::Pat::Or(o) => format!("{{\"t\":\"POr\",\"cases\":{}}}", arr(o.cases.iter().map(pat).collect())),
        syn::Pat::Type(t) => format!("{{\"t\":\"PType\",\"pat\":{},\"ty\":{}}}", pat(&t.pat), esc(&toks(&t.ty))),
        syn::Pat::Slice(s) => format!("{{\"t\":\"PSlice\",\"elems\":{}}}", arr(s.elems.iter().map(pat).collect())),
        syn::Pat::Paren(p) => pat(&p.pat),
        syn::Pat::Range(r) => format!("{{\"t\":\"PRange\",\"src\":{}}}", esc(&toks(r))),
        other => format!("{{\"t\":\"PVerbatim\",\"src\":{}}}", esc(&toks(other))),
    }
}

pub fn block(b: &syn::Block) -> String {
    arr(b.stmts.iter().map(stmt).collect())
}

pub fn stmt(s: &syn::Stmt) -> String {
    match s {
        syn::Stmt::Local(l) => {
            let (init, els) = match &l.init {
                Some(i) => (Some(expr(&i.expr)), i.diverge.as_ref().map(|(_, e)| expr(e))),
                None => (None, None),
            };
            format!("{{\"t\":\"Let\",\"pat\":{},\"init\":{},\"else\":{},\"line\":{}}}", pat(&l.pat), opt(init), opt(els), line(l))
        }
        syn::Stmt::Item(i) => format!("{{\"t\":\"ItemStmt\",\"item\":{}}}", item(i)),
        syn::Stmt::Expr(e, semi) => format!("{{\"t\":\"ExprStmt\",\"e\":{},\"semi\":{}}}", expr(e), semi.is_some()),
        syn::Stmt::Macro(m) => format!(
            "{{\"t\":\"ExprStmt\",\"e\":{},\"semi\":{}}}",
            mac(&m.mac, line(m)),
            m.semi_token.is_some()
        ),
    }
}

fn mac(m: &syn::Macro, ln: usize) -> String {
    // try to parse the arguments as a comma separated expression list (format!, write!, assert!, vec!, matches! ...)
    let args: Option<Vec<String>> = m
        .parse_body_with(syn::punctuated::Punctuated::<syn::Expr, syn::Token![,]>::parse_terminated)
        .ok()
        .map(|p| p.iter().map(expr).collect());
    format!(
        "{{\"t\":\"Macro\",\"path\":{},\"args\":{},\"src\":{},\"line\":{}}}",
        esc(&path_str(&m.path)),
        match args { Some(a) => arr(a), None => "null".into() },
        esc(&norm_tokens(m.tokens.clone())),
        ln
    )
}

pub fn expr(e: &syn::Expr) -> String {
    let ln = line(e);
    match e {
        syn::Expr::Array(a) => format!("{{\"t\":\"Array\",\"elems\":{},\"line\":{}}}", arr(a.elems.iter().map(expr).collect()), ln),
        syn::Expr::Assign(a) => format!("{{\"t\":\"Assign\",\"l\":{},\"r\":{},\"line\":{}}}", expr(&a.left), expr(&a.right), ln),
        syn::Expr::Binary(b) => {
            let op = b.op.to_token_stream().to_string();
            format!("{{\"t\":\"Binary\",\"op\":{},\"l\":{},\"r\":{},\"line\":{}}}", esc(&op), expr(&b.left), expr(&b.right), ln)
        }
        syn::Expr::Block(b) => format!("{{\"t\":\"Block\",\"stmts\":{},\"label\":{},\"line\":{}}}", block(&b.block), opt(b.label.as_ref().map(|l| esc(&l.name.ident.to_string()))), ln),
        syn::Expr::Break(b) => format!(
            "{{\"t\":\"Break\",\"label\":{},\"e\":{},\"line\":{}}}",
            opt(b.label.as_ref().map(|l| esc(&l.ident.to_string()))),
            opt(b.expr.as_ref().map(|e| expr(e))),
            ln
        ),
        syn::Expr::Call(c) => format!("{{\"t\":\"Call\",\"f\":{},\"args\":{},\"line\":{}}}", expr(&c.func), arr(c.args.iter().map(expr).collect()), ln),
        syn::Expr::Cast(c) => format!("{{\"t\":\"Cast\",\"e\":{},\"ty\":{},\"line\":{}}}", expr(&c.expr), esc(&toks(&c.ty)), ln),
        syn::Expr::Closure(c) => format!(
            "{{\"t\":\"Closure\",\"params\":{},\"body\":{},\"move\":{},\"line\":{}}}",
            arr(c.inputs.iter().map(pat).collect()),
            expr(&c.body),
            c.capture.is_some(),
            ln
        ),
        syn::Expr::Continue(_) => format!("{{\"t\":\"Continue\",\"line\":{}}}", ln),
        syn::Expr::Field(f) => format!("{{\"t\":\"Field\",\"base\":{},\"name\":{},\"line\":{}}}", expr(&f.base), esc(&f.member.to_token_stream().to_string()), ln),
        syn::Expr::ForLoop(f) => format!("{{\"t\":\"For\",\"pat\":{},\"iter\":{},\"body\":{},\"line\":{}}}", pat(&f.pat), expr(&f.expr), block(&f.body), ln),
        syn::Expr::Group(g) => expr(&g.expr),
        syn::Expr::If(i) => format!(
            "{{\"t\":\"If\",\"cond\":{},\"then\":{},\"else\":{},\"line\":{}}}",
            expr(&i.cond),
            block(&i.then_branch),
            opt(i.else_branch.as_ref().map(|(_, e)| expr(e))),
            ln
        ),
        syn::Expr::Index(i) => format!("{{\"t\":\"Index\",\"base\":{},\"idx\":{},\"line\":{}}}", expr(&i.expr), expr(&i.index), ln),
        syn::Expr::Let(l) => format!("{{\"t\":\"LetCond\",\"pat\":{},\"e\":{},\"line\":{}}}", pat(&l.pat), expr(&l.expr), ln),
        syn::Expr::Lit(l) => lit(&l.lit),
        syn::Expr::Loop(l) => format!("{{\"t\":\"Loop\",\"body\":{},\"label\":{},\"line\":{}}}", block(&l.body), opt(l.label.as_ref().map(|l| esc(&l.name.ident.to_string()))), ln),
        syn::Expr::Macro(m) => mac(&m.mac, ln),
        syn::Expr::Match(m) => {
            let arms: Vec<String> = m
                .arms
                .iter()
                .map(|a| {
                    format!(
                        "{{\"pat\":{},\"guard\":{},\"body\":{},\"line\":{}}}",
                        pat(&a.pat),
                        opt(a.guard.as_ref().map(|(_, g)| expr(g))),
                        expr(&a.body),
                        line(a)
                    )
                })
                .collect();
            format!("{{\"t\":\"Match\",\"e\":{},\"arms\":{},\"line\":{}}}", expr(&m.expr), arr(arms), ln)
        }
        syn::Expr::MethodCall(m) => format!(
            "{{\"t\":\"MethodCall\",\"recv\":{},\"method\":{},\"turbofish\":{},\"args\":{},\"line\":{}}}",
            expr(&m.receiver),
            esc(&m.method.to_string()),
            match &m.turbofish {
                Some(t) => arr(t.args.iter().map(|a| esc(&toks(a))).collect()),
                None => "[]".into(),
            },
            arr(m.args.iter().map(expr).collect()),
            ln
        ),
        syn::Expr::Paren(p) => expr(&p.expr),
        syn::Expr::Path(p) => format!(
            "{{\"t\":\"Path\",\"path\":{},\"generics\":{},\"qself\":{},\"line\":{}}}",
            esc(&path_str(&p.path)),
            arr(path_generics(&p.path)),
            opt(p.qself.as_ref().map(|q| esc(&toks(&q.ty)))),
            ln
        ),
        syn::Expr::Range(r) => format!(
            "{{\"t\":\"Range\",\"start\":{},\"end\":{},\"closed\":{},\"line\":{}}}",
            opt(r.start.as_ref().map(|e| expr(e))),
            opt(r.end.as_ref().map(|e| expr(e))),
            matches!(r.limits, syn::RangeLimits::Closed(_)),
            ln
        ),
        syn::Expr::Reference(r) => format!("{{\"t\":\"Ref\",\"mut\":{},\"e\":{},\"line\":{}}}", r.mutability.is_some(), expr(&r.expr), ln),
        syn::Expr::Repeat(r) => format!("{{\"t\":\"Repeat\",\"e\":{},\"len\":{},\"line\":{}}}", expr(&r.expr), expr(&r.len), ln),
        syn::Expr::Return(r) => format!("{{\"t\":\"Return\",\"e\":{},\"line\":{}}}", opt(r.expr.as_ref().map(|e| expr(e))), ln),
        syn::Expr::Struct(s) => {
            let fields: Vec<String> = s
                .fields
                .iter()
                .map(|f| format!("{{\"name\":{},\"e\":{}}}", esc(&f.member.to_token_stream().to_string()), expr(&f.expr)))
                .collect();
            format!(
                "{{\"t\":\"Struct\",\"path\":{},\"fields\":{},\"rest\":{},\"line\":{}}}",
                esc(&path_str(&s.path)),
                arr(fields),
                opt(s.rest.as_ref().map(|e| expr(e))),
                ln
            )
        }
        syn::Expr::Try(t) => format!("{{\"t\":\"Try\",\"e\":{},\"line\":{}}}", expr(&t.expr), ln),
        syn::Expr::Tuple(t) => format!("{{\"t\":\"Tuple\",\"elems\":{},\"line\":{}}}", arr(t.elems.iter().map(expr).collect()), ln),
        syn::Expr::Unary(u) => format!("{{\"t\":\"Unary\",\"op\":{},\"e\":{},\"line\":{}}}", esc(&u.op.to_token_stream().to_string()), expr(&u.expr), ln),
        syn::Expr::While(w) => format!("{{\"t\":\"While\",\"cond\":{},\"body\":{},\"line\":{}}}", expr(&w.cond), block(&w.body), ln),
        syn::Expr::Unsafe(u) => format!("{{\"t\":\"Unsafe\",\"stmts\":{},\"line\":{}}}", block(&u.block), ln),
        other => format!("{{\"t\":\"Verbatim\",\"src\":{},\"line\":{}}}", esc(&toks(other)), ln),
    }
}

fn attrs(a: &[syn::Attribute]) -> String {
    arr(a.iter().filter(|x| !x.path().is_ident("doc")).map(|x| esc(&toks(&x.meta))).collect())
}

fn vis(v: &syn::Visibility) -> String {
    esc(&toks(v))
}

fn sig(s: &syn::Signature) -> String {
    let params: Vec<String> = s
        .inputs
        .iter()
        .map(|a| match a {
            syn::FnArg::Receiver(r) => format!("{{\"name\":\"self\",\"ty\":{}}}", esc(&toks(r))),
            syn::FnArg::Typed(t) => format!("{{\"name\":{},\"ty\":{}}}", esc(&toks(&t.pat)), esc(&toks(&t.ty))),
        })
        .collect();
    let ret = match &s.output {
        syn::ReturnType::Default => "null".to_string(),
        syn::ReturnType::Type(_, t) => esc(&toks(t)),
    };
    format!("{{\"name\":{},\"params\":{},\"ret\":{},\"generics\":{}}}", esc(&s.ident.to_string()), arr(params), ret, esc(&toks(&s.generics)))
}

fn fields(f: &syn::Fields) -> String {
    arr(f
        .iter()
        .enumerate()
        .map(|(i, f)| {
            format!(
                "{{\"name\":{},\"ty\":{},\"vis\":{}}}",
                esc(&f.ident.as_ref().map(|i| i.to_string()).unwrap_or_else(|| i.to_string())),
                esc(&toks(&f.ty)),
                vis(&f.vis)
            )
        })
        .collect())
}

pub fn item(i: &syn::Item) -> String {
    let ln = line(i);
    match i {
        syn::Item::Struct(s) => format!(
            "{{\"t\":\"Struct\",\"name\":{},\"vis\":{},\"attrs\":{},\"generics\":{},\"fields\":{},\"line\":{}}}",
            esc(&s.ident.to_string()),
            vis(&s.vis),
            attrs(&s.attrs),
            esc(&toks(&s.generics)),
            fields(&s.fields),
            ln
        ),
        syn::Item::Enum(e) => {
            let vs: Vec<String> = e
                .variants
                .iter()
                .map(|v| {
                    format!(
                        "{{\"name\":{},\"attrs\":{},\"fields\":{},\"discr\":{}}}",
                        esc(&v.ident.to_string()),
                        attrs(&v.attrs),
                        fields(&v.fields),
                        opt(v.discriminant.as_ref().map(|(_, e)| expr(e)))
                    )
                })
                .collect();
            format!(
                "{{\"t\":\"Enum\",\"name\":{},\"vis\":{},\"attrs\":{},\"variants\":{},\"line\":{}}}",
                esc(&e.ident.to_string()),
                vis(&e.vis),
                attrs(&e.attrs),
                arr(vs),
                ln
            )
        }
        syn::Item::Impl(im) => {
            let mut items = Vec::new();
            for it in &im.items {
                match it {
                    syn::ImplItem::Fn(f) => items.push(format!(
                        "{{\"t\":\"Fn\",\"sig\":{},\"vis\":{},\"attrs\":{},\"body\":{},\"line\":{}}}",
                        sig(&f.sig),
                        vis(&f.vis),
                        attrs(&f.attrs),
                        block(&f.block),
                        line(f)
                    )),
                    syn::ImplItem::Const(c) => items.push(format!(
                        "{{\"t\":\"Const\",\"name\":{},\"ty\":{},\"e\":{},\"line\":{}}}",
                        esc(&c.ident.to_string()),
                        esc(&toks(&c.ty)),
                        expr(&c.expr),
                        line(c)
                    )),
                    syn::ImplItem::Type(t) => items.push(format!("{{\"t\":\"Type\",\"name\":{},\"ty\":{}}}", esc(&t.ident.to_string()), esc(&toks(&t.ty)))),
                    other => items.push(format!("{{\"t\":\"Verbatim\",\"src\":{}}}", esc(&toks(other)))),
                }
            }
            format!(
                "{{\"t\":\"Impl\",\"self_ty\":{},\"trait\":{},\"generics\":{},\"attrs\":{},\"items\":{},\"line\":{}}}",
                esc(&toks(&im.self_ty)),
                opt(im.trait_.as_ref().map(|(_, p, _)| esc(&toks(p)))),
                esc(&toks(&im.generics)),
                attrs(&im.attrs),
                arr(items),
                ln
            )
        }
        syn::Item::Fn(f) => format!(
            "{{\"t\":\"Fn\",\"sig\":{},\"vis\":{},\"attrs\":{},\"body\":{},\"line\":{}}}",
            sig(&f.sig),
            vis(&f.vis),
            attrs(&f.attrs),
            block(&f.block),
            ln
        ),
        syn::Item::Const(c) => format!(
            "{{\"t\":\"Const\",\"name\":{},\"ty\":{},\"e\":{},\"line\":{}}}",
            esc(&c.ident.to_string()),
            esc(&toks(&c.ty)),
            expr(&c.expr),
            ln
        ),
        syn::Item::Static(c) => format!(
            "{{\"t\":\"Static\",\"name\":{},\"ty\":{},\"e\":{},\"line\":{}}}",
            esc(&c.ident.to_string()),
            esc(&toks(&c.ty)),
            expr(&c.expr),
            ln
        ),
        syn::Item::Use(u) => format!("{{\"t\":\"Use\",\"src\":{},\"line\":{}}}", esc(&toks(&u.tree)), ln),
        syn::Item::Mod(m) => {
            let is_test = m.attrs.iter().any(|a| toks(&a.meta).replace(' ', "").contains("cfg(test)"));
            let items = match &m.content {
                Some((_, items)) if !is_test => arr(items.iter().map(item).collect()),
                _ => "null".into(),
            };
            format!(
                "{{\"t\":\"Mod\",\"name\":{},\"attrs\":{},\"cfg_test\":{},\"items\":{},\"line\":{}}}",
                esc(&m.ident.to_string()),
                attrs(&m.attrs),
                is_test,
                items,
                ln
            )
        }
        syn::Item::Trait(t) => {
            let mut items = Vec::new();
            for it in &t.items {
                if let syn::TraitItem::Fn(f) = it {
                    items.push(format!(
                        "{{\"t\":\"Fn\",\"sig\":{},\"body\":{},\"line\":{}}}",
                        sig(&f.sig),
                        opt(f.default.as_ref().map(block)),
                        line(f)
                    ));
                }
            }
            format!("{{\"t\":\"Trait\",\"name\":{},\"items\":{},\"line\":{}}}", esc(&t.ident.to_string()), arr(items), ln)
        }
        syn::Item::Type(t) => format!("{{\"t\":\"TypeAlias\",\"name\":{},\"ty\":{},\"line\":{}}}", esc(&t.ident.to_string()), esc(&toks(&t.ty)), ln),
        syn::Item::Macro(m) => format!(
            "{{\"t\":\"ItemMacro\",\"path\":{},\"ident\":{},\"tokens\":{},\"line\":{}}}",
            esc(&path_str(&m.mac.path)),
            opt(m.ident.as_ref().map(|i| esc(&i.to_string()))),
            token_tree(m.mac.tokens.clone()),
            ln
        ),
        other => format!("{{\"t\":\"Verbatim\",\"src\":{},\"line\":{}}}", esc(&toks(other)), ln),
    }
}

/// nested token tree as JSON: idents/literals/puncts are strings, groups are {"d":"{","s":[...]}
pub fn token_tree(ts: TokenStream) -> String {
    let mut v = Vec::new();
    for t in ts {
        match t {
            TokenTree::Group(g) => {
                let d = match g.delimiter() {
                    Delimiter::Parenthesis => "(",
                    Delimiter::Brace => "{",
                    Delimiter::Bracket => "[",
                    Delimiter::None => "",
                };
                v.push(format!("{{\"d\":\"{}\",\"s\":{},\"line\":{}}}", d, token_tree(g.stream()), g.span().start().line));
            }
            TokenTree::Ident(i) => v.push(format!("{{\"i\":{},\"line\":{}}}", esc(&i.to_string()), i.span().start().line)),
            TokenTree::Punct(p) => v.push(format!("{{\"p\":{},\"joint\":{}}}", esc(&p.as_char().to_string()), p.spacing() == proc_macro2::Spacing::Joint)),
            TokenTree::Literal(l) => v.push(format!("{{\"l\":{},\"line\":{}}}", esc(&l.to_string()), l.span().start().line)),
        }
    }
    arr(v)
}

pub fn file(f: &syn::File) -> String {
    format!("{{\"attrs\":{},\"items\":{}}}", attrs(&f.attrs), arr(f.items.iter().map(item).collect()))
}
