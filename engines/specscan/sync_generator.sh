#!/bin/sh
# copy the in-tree generator of the tree under analysis into the tool's src/ (REPO defaults to /repo)
set -e
REPO=${REPO:-/repo}
D=$(dirname "$0")/src
for f in a2lspec.rs a2mlspec.rs codegenerator.rs util.rs; do
  cmp -s "$REPO/a2lmacros/src/$f" "$D/$f" || cp "$REPO/a2lmacros/src/$f" "$D/$f"
done
mkdir -p "$D/codegenerator"
for f in "$REPO"/a2lmacros/src/codegenerator/*.rs; do
  b=$(basename "$f"); cmp -s "$f" "$D/codegenerator/$b" || cp "$f" "$D/codegenerator/$b"
done
# remove files that no longer exist in the tree
for f in "$D"/codegenerator/*.rs; do b=$(basename "$f"); [ -f "$REPO/a2lmacros/src/codegenerator/$b" ] || rm -f "$f"; done
