// mirfacts: a rustc_private driver that exports the type-checked MIR of the local crate
// as JSON facts.  It is an exporter, not an analyser: every rule lives in /verif/rules.
//
// Injected with RUSTC_WORKSPACE_WRAPPER under `cargo +nightly check`; output goes to
// $MIRFACTS_OUT/<crate>.json (one write per process).
#![feature(rustc_private)]
extern crate rustc_abi;
extern crate rustc_driver;
extern crate rustc_hir;
extern crate rustc_interface;
extern crate rustc_middle;
extern crate rustc_span;

use rustc_driver::Compilation;
use rustc_hir::def::DefKind;
use rustc_interface::interface::Compiler;
use rustc_middle::mir::{
    AggregateKind, AssertKind, BasicBlock, Body, BorrowKind, Operand, Place, PlaceRef,
    ProjectionElem, Rvalue, StatementKind, TerminatorKind,
};
use rustc_middle::ty::{self, Ty, TyCtxt};
use rustc_span::def_id::{DefId, LOCAL_CRATE};
use rustc_span::Span;
use std::fmt::Write as _;

fn esc(s: &str) -> String {
    let mut o = String::with_capacity(s.len() + 2);
    o.push('"');
    for c in s.chars() {
        match c {
            '"' => o.push_str("\\\""),
            '\\' => o.push_str("\\\\"),
            '\n' => o.push_str("\\n"),
            '\r' => o.push_str("\\r"),
            '\t' => o.push_str("\\t"),
            c if (c as u32) < 0x20 => {
                let _ = write!(o, "\\u{:04x}", c as u32);
            }
            c => o.push(c),
        }
    }
    o.push('"');
    o
}

struct Ex<'tcx> {
    tcx: TyCtxt<'tcx>,
}

impl<'tcx> Ex<'tcx> {
    fn path(&self, d: DefId) -> String {
        self.tcx.def_path_str(d)
    }

    fn ty_str(&self, t: Ty<'tcx>) -> String {
        format!("{}", t)
    }

    /// the ADT def path behind references / Box / Option / Vec ... only the outermost ADT after refs
    fn adt_of(&self, t: Ty<'tcx>) -> Option<String> {
        let mut t = t;
        loop {
            match t.kind() {
                ty::Ref(_, inner, _) => t = *inner,
                ty::RawPtr(inner, _) => t = *inner,
                ty::Adt(def, _) => return Some(self.path(def.did())),
                _ => return None,
            }
        }
    }

    fn line(&self, sp: Span) -> (String, usize, bool) {
        let sm = self.tcx.sess.source_map();
        let exp = sp.from_expansion();
        let sp2 = if exp { sp.source_callsite() } else { sp };
        let loc = sm.lookup_char_pos(sp2.lo());
        let fname = match &loc.file.name {
            rustc_span::FileName::Real(r) => match r.local_path() {
                Some(p) => p.to_string_lossy().to_string(),
                None => format!("{:?}", r),
            },
            other => format!("{:?}", other),
        };
        (fname, loc.line, exp)
    }

    fn snippet(&self, sp: Span) -> String {
        let sm = self.tcx.sess.source_map();
        let sp = if sp.from_expansion() { sp.source_callsite() } else { sp };
        match sm.span_to_snippet(sp) {
            Ok(s) => {
                let mut out = String::new();
                let mut last_ws = false;
                for c in s.chars() {
                    if c.is_whitespace() {
                        if !last_ws {
                            out.push(' ');
                        }
                        last_ws = true;
                    } else {
                        out.push(c);
                        last_ws = false;
                    }
                    if out.len() > 160 {
                        break;
                    }
                }
                out
            }
            Err(_) => String::new(),
        }
    }

    fn place(&self, body: &Body<'tcx>, p: Place<'tcx>) -> String {
        self.place_ref(body, p.as_ref())
    }

    fn place_ref(&self, body: &Body<'tcx>, p: PlaceRef<'tcx>) -> String {
        let mut s = format!("{{\"l\":{},\"p\":[", p.local.as_usize());
        let mut first = true;
        for (base, elem) in p.iter_projections() {
            if !first {
                s.push(',');
            }
            first = false;
            match elem {
                ProjectionElem::Deref => s.push_str("\"*\""),
                ProjectionElem::Field(f, fty) => {
                    let bty = base.ty(body, self.tcx);
                    match bty.ty.kind() {
                        ty::Adt(def, _) => {
                            let vi = bty.variant_index.unwrap_or(rustc_abi::FIRST_VARIANT);
                            let v = def.variant(vi);
                            let fname = v.fields[f].name.to_string();
                            let _ = write!(
                                s,
                                "{{\"f\":{},\"adt\":{},\"v\":{},\"i\":{},\"ty\":{}}}",
                                esc(&fname),
                                esc(&self.path(def.did())),
                                if def.is_enum() { esc(v.name.as_str()) } else { "null".to_string() },
                                f.as_usize(),
                                esc(&self.ty_str(fty))
                            );
                        }
                        ty::Tuple(_) => {
                            let _ = write!(s, "{{\"f\":\"{}\",\"adt\":\"(tuple)\",\"v\":null,\"i\":{},\"ty\":{}}}", f.as_usize(), f.as_usize(), esc(&self.ty_str(fty)));
                        }
                        ty::Closure(d, _) => {
                            let _ = write!(s, "{{\"f\":\"{}\",\"adt\":\"(closure)\",\"v\":null,\"i\":{},\"cl\":{},\"ty\":{}}}", f.as_usize(), f.as_usize(), esc(&self.path(*d)), esc(&self.ty_str(fty)));
                        }
                        _ => {
                            let _ = write!(s, "{{\"f\":\"{}\",\"adt\":\"(other)\",\"v\":null,\"i\":{},\"ty\":{}}}", f.as_usize(), f.as_usize(), esc(&self.ty_str(fty)));
                        }
                    }
                }
                ProjectionElem::Index(l) => {
                    let _ = write!(s, "{{\"idx\":{}}}", l.as_usize());
                }
                ProjectionElem::ConstantIndex { offset, min_length, from_end } => {
                    let _ = write!(s, "{{\"cidx\":{},\"min\":{},\"fe\":{}}}", offset, min_length, from_end);
                }
                ProjectionElem::Subslice { from, to, from_end } => {
                    let _ = write!(s, "{{\"sub\":[{},{}],\"fe\":{}}}", from, to, from_end);
                }
                ProjectionElem::Downcast(name, vi) => {
                    let n = name.map(|n| n.to_string()).unwrap_or_else(|| format!("{}", vi.as_usize()));
                    let _ = write!(s, "{{\"down\":{}}}", esc(&n));
                }
                ProjectionElem::OpaqueCast(_) => s.push_str("\"opaque\""),
                ProjectionElem::UnwrapUnsafeBinder(_) => s.push_str("\"unbinder\""),
            }
        }
        s.push_str("]}");
        s
    }

    fn operand(&self, body: &Body<'tcx>, owner: DefId, o: &Operand<'tcx>) -> String {
        match o {
            Operand::Copy(p) => format!("{{\"c\":{}}}", self.place(body, *p)),
            Operand::Move(p) => format!("{{\"m\":{}}}", self.place(body, *p)),
            Operand::Constant(c) => {
                let ty = c.const_.ty();
                let mut s = format!("{{\"k\":{},\"ty\":{}", esc(&format!("{}", c.const_)), esc(&self.ty_str(ty)));
                if let ty::FnDef(d, args) = ty.kind() {
                    let _ = write!(s, ",\"fn\":{}", esc(&self.path(*d)));
                    let _ = write!(s, ",\"res\":{}", esc(&self.resolve(owner, *d, args)));
                }
                if let Some(d) = c.const_.is_required_const().then_some(()).and_then(|_| match c.const_ {
                    rustc_middle::mir::Const::Unevaluated(u, _) => Some(u.def),
                    _ => None,
                }) {
                    let _ = write!(s, ",\"cdef\":{}", esc(&self.path(d)));
                }
                s.push('}');
                s
            }
            Operand::RuntimeChecks(rc) => format!("{{\"k\":{},\"ty\":\"bool\"}}", esc(&format!("{:?}", rc))),
        }
    }

    fn resolve(&self, owner: DefId, d: DefId, args: ty::GenericArgsRef<'tcx>) -> String {
        let env = ty::TypingEnv::post_analysis(self.tcx, owner);
        match ty::Instance::try_resolve(self.tcx, env, d, args) {
            Ok(Some(inst)) => self.path(inst.def_id()),
            _ => format!("?{}", self.path(d)),
        }
    }

    fn rvalue(&self, body: &Body<'tcx>, owner: DefId, rv: &Rvalue<'tcx>) -> String {
        match rv {
            Rvalue::Use(o, _) => format!("{{\"r\":\"use\",\"a\":{}}}", self.operand(body, owner, o)),
            Rvalue::Repeat(o, n) => format!("{{\"r\":\"repeat\",\"a\":{},\"n\":{}}}", self.operand(body, owner, o), esc(&format!("{}", n))),
            Rvalue::Ref(_, bk, p) => {
                let m = match bk {
                    BorrowKind::Shared => "shared",
                    BorrowKind::Fake(_) => "fake",
                    BorrowKind::Mut { .. } => "mut",
                };
                format!("{{\"r\":\"ref\",\"bk\":\"{}\",\"p\":{}}}", m, self.place(body, *p))
            }
            Rvalue::ThreadLocalRef(d) => format!("{{\"r\":\"tls\",\"d\":{}}}", esc(&self.path(*d))),
            Rvalue::RawPtr(k, p) => format!("{{\"r\":\"rawptr\",\"bk\":{},\"p\":{}}}", esc(&format!("{:?}", k)), self.place(body, *p)),
            Rvalue::Cast(k, o, t) => {
                let from = o.ty(body, self.tcx);
                format!(
                    "{{\"r\":\"cast\",\"kind\":{},\"a\":{},\"from\":{},\"to\":{}}}",
                    esc(&format!("{:?}", k)),
                    self.operand(body, owner, o),
                    esc(&self.ty_str(from)),
                    esc(&self.ty_str(*t))
                )
            }
            Rvalue::BinaryOp(op, ab) => format!(
                "{{\"r\":\"bin\",\"op\":\"{:?}\",\"a\":{},\"b\":{}}}",
                op,
                self.operand(body, owner, &ab.0),
                self.operand(body, owner, &ab.1)
            ),
            Rvalue::UnaryOp(op, o) => format!("{{\"r\":\"un\",\"op\":\"{:?}\",\"a\":{}}}", op, self.operand(body, owner, o)),
            Rvalue::Discriminant(p) => {
                let pty = p.ty(body, self.tcx).ty;
                format!("{{\"r\":\"discr\",\"p\":{},\"adt\":{}}}", self.place(body, *p), match self.adt_of(pty) { Some(a) => esc(&a), None => "null".into() })
            }
            Rvalue::Aggregate(kind, ops) => {
                let mut s = String::from("{\"r\":\"agg\",");
                match &**kind {
                    AggregateKind::Array(t) => {
                        let _ = write!(s, "\"kind\":\"array\",\"ty\":{}", esc(&self.ty_str(*t)));
                    }
                    AggregateKind::Tuple => s.push_str("\"kind\":\"tuple\""),
                    AggregateKind::Adt(d, vi, _, _, active) => {
                        let def = self.tcx.adt_def(*d);
                        let v = def.variant(*vi);
                        let names: Vec<String> = match active {
                            Some(f) => vec![esc(v.fields[*f].name.as_str())],
                            None => v.fields.iter().map(|f| esc(f.name.as_str())).collect(),
                        };
                        let _ = write!(
                            s,
                            "\"kind\":\"adt\",\"adt\":{},\"v\":{},\"fields\":[{}]",
                            esc(&self.path(*d)),
                            if def.is_enum() { esc(v.name.as_str()) } else { "null".into() },
                            names.join(",")
                        );
                    }
                    AggregateKind::Closure(d, _) => {
                        let _ = write!(s, "\"kind\":\"closure\",\"cl\":{}", esc(&self.path(*d)));
                    }
                    AggregateKind::Coroutine(d, _) | AggregateKind::CoroutineClosure(d, _) => {
                        let _ = write!(s, "\"kind\":\"coroutine\",\"cl\":{}", esc(&self.path(*d)));
                    }
                    AggregateKind::RawPtr(..) => s.push_str("\"kind\":\"rawptr\""),
                }
                s.push_str(",\"ops\":[");
                let v: Vec<String> = ops.iter().map(|o| self.operand(body, owner, o)).collect();
                s.push_str(&v.join(","));
                s.push_str("]}");
                s
            }
            Rvalue::CopyForDeref(p) => format!("{{\"r\":\"use\",\"a\":{{\"c\":{}}},\"cfd\":true}}", self.place(body, *p)),
            Rvalue::WrapUnsafeBinder(o, _) => format!("{{\"r\":\"use\",\"a\":{}}}", self.operand(body, owner, o)),
        }
    }

    fn body(&self, did: DefId, out: &mut String) {
        let tcx = self.tcx;
        let body: &Body<'tcx> = tcx.optimized_mir(did);
        let kind = tcx.def_kind(did);
        let (file, line, _) = self.line(tcx.def_span(did));
        let vis = if matches!(kind, DefKind::Fn | DefKind::AssocFn) {
            let v = tcx.visibility(did);
            if v.is_public() { "pub" } else { "restricted" }
        } else {
            "closure"
        };
        let parent = tcx.opt_parent(did).map(|p| self.path(p)).unwrap_or_default();
        // for trait impl methods: the trait method it implements
        let mut trait_item = String::from("null");
        let mut impl_of = String::from("null");
        if kind == DefKind::AssocFn {
            if let Some(ai) = tcx.opt_associated_item(did) {
                if let Some(t) = ai.trait_item_def_id() {
                    trait_item = esc(&self.path(t));
                }
            }
            if let Some(p) = tcx.opt_parent(did) {
                if matches!(tcx.def_kind(p), DefKind::Impl { .. }) {
                    let st = tcx.type_of(p).instantiate_identity().skip_norm_wip();
                    impl_of = esc(&self.ty_str(st));
                }
            }
        }
        let _ = write!(
            out,
            "{{\"id\":{},\"kind\":\"{:?}\",\"vis\":\"{}\",\"file\":{},\"line\":{},\"parent\":{},\"trait_item\":{},\"impl_of\":{},\"argc\":{},\"sig\":{},",
            esc(&self.path(did)),
            kind,
            vis,
            esc(&file),
            line,
            esc(&parent),
            trait_item,
            impl_of,
            body.arg_count,
            esc(&self.snippet(tcx.def_span(did)))
        );
        // locals
        let mut names: Vec<Option<String>> = vec![None; body.local_decls.len()];
        let mut upvar_names: Vec<(usize, String)> = Vec::new();
        for vdi in &body.var_debug_info {
            if let rustc_middle::mir::VarDebugInfoContents::Place(p) = &vdi.value {
                if p.projection.is_empty() {
                    names[p.local.as_usize()] = Some(vdi.name.to_string());
                } else if p.local.as_usize() == 1 {
                    // closure upvars: _1.N or (*_1).N
                    for e in p.projection.iter() {
                        if let ProjectionElem::Field(f, _) = e {
                            upvar_names.push((f.as_usize(), vdi.name.to_string()));
                            break;
                        }
                    }
                }
            }
        }
        out.push_str("\"locals\":[");
        for (i, ld) in body.local_decls.iter().enumerate() {
            if i > 0 {
                out.push(',');
            }
            let _ = write!(
                out,
                "{{\"ty\":{},\"n\":{},\"adt\":{},\"mut\":{}}}",
                esc(&self.ty_str(ld.ty)),
                match &names[i] { Some(n) => esc(n), None => "null".into() },
                match self.adt_of(ld.ty) { Some(a) => esc(&a), None => "null".into() },
                ld.mutability.is_mut()
            );
        }
        out.push_str("],\"promoted\":[");
        {
            // string / integer literals held by promoted constants (e.g. `x != "NO_COMPU_METHOD"` compares with promoted[i])
            let mut firstp = true;
            if matches!(kind, DefKind::Fn | DefKind::AssocFn | DefKind::Closure) {
                if let Some(ldid) = did.as_local() {
                    let promoted = tcx.promoted_mir(ldid.to_def_id());
                    for (pi, pb) in promoted.iter_enumerated() {
                        let mut lits: Vec<String> = Vec::new();
                        for bb in pb.basic_blocks.iter() {
                            for st in &bb.statements {
                                if let StatementKind::Assign(bx) = &st.kind {
                                    let (_, rv) = &**bx;
                                    let mut ops: Vec<&Operand<'tcx>> = Vec::new();
                                    match rv {
                                        Rvalue::Use(o, _) => ops.push(o),
                                        Rvalue::Aggregate(_, os) => { for o in os.iter() { ops.push(o); } }
                                        Rvalue::Cast(_, o, _) => ops.push(o),
                                        _ => {}
                                    }
                                    for o in ops {
                                        if let Operand::Constant(c) = o {
                                            lits.push(format!("{}", c.const_));
                                        }
                                    }
                                }
                            }
                        }
                        if !firstp { out.push(','); }
                        firstp = false;
                        let _ = write!(out, "[{},{}]", pi.as_usize(), esc(&lits.join(" ")));
                    }
                }
            }
        }
        out.push_str("],\"upvars\":[");
        for (i, (f, n)) in upvar_names.iter().enumerate() {
            if i > 0 {
                out.push(',');
            }
            let _ = write!(out, "[{},{}]", f, esc(n));
        }
        out.push_str("],\"blocks\":[");
        for (bi, bb) in body.basic_blocks.iter().enumerate() {
            if bi > 0 {
                out.push(',');
            }
            let _ = write!(out, "{{\"cleanup\":{},\"s\":[", bb.is_cleanup);
            let mut first = true;
            for st in &bb.statements {
                let (_, ln, exp) = self.line(st.source_info.span);
                let txt = match &st.kind {
                    StatementKind::Assign(b) => {
                        let (p, rv) = &**b;
                        Some(format!("{{\"k\":\"assign\",\"p\":{},\"rv\":{},\"ln\":{},\"exp\":{}}}", self.place(body, *p), self.rvalue(body, did, rv), ln, exp))
                    }
                    StatementKind::SetDiscriminant { place, variant_index } => {
                        Some(format!("{{\"k\":\"setdiscr\",\"p\":{},\"v\":{},\"ln\":{}}}", self.place(body, **place), variant_index.as_usize(), ln))
                    }
                    _ => None,
                };
                if let Some(t) = txt {
                    if !first {
                        out.push(',');
                    }
                    first = false;
                    out.push_str(&t);
                }
            }
            out.push_str("],\"t\":");
            let term = bb.terminator();
            let (_, ln, exp) = self.line(term.source_info.span);
            let bbn = |b: BasicBlock| b.as_usize();
            match &term.kind {
                TerminatorKind::Goto { target } => {
                    let _ = write!(out, "{{\"k\":\"goto\",\"t\":{}}}", bbn(*target));
                }
                TerminatorKind::SwitchInt { discr, targets } => {
                    let _ = write!(out, "{{\"k\":\"switch\",\"d\":{},\"dty\":{},\"ts\":[", self.operand(body, did, discr), esc(&self.ty_str(discr.ty(body, tcx))));
                    let mut f = true;
                    for (v, t) in targets.iter() {
                        if !f {
                            out.push(',');
                        }
                        f = false;
                        let _ = write!(out, "[{},{}]", esc(&format!("{}", v)), bbn(t));
                    }
                    let _ = write!(out, "],\"o\":{},\"ln\":{}}}", bbn(targets.otherwise()), ln);
                }
                TerminatorKind::Return => out.push_str("{\"k\":\"return\"}"),
                TerminatorKind::Unreachable => out.push_str("{\"k\":\"unreachable\"}"),
                TerminatorKind::UnwindResume => out.push_str("{\"k\":\"resume\"}"),
                TerminatorKind::UnwindTerminate(_) => out.push_str("{\"k\":\"terminate\"}"),
                TerminatorKind::Drop { place, target, .. } => {
                    let _ = write!(out, "{{\"k\":\"drop\",\"p\":{},\"t\":{}}}", self.place(body, *place), bbn(*target));
                }
                TerminatorKind::Call { func, args, destination, target, fn_span, .. } => {
                    let a: Vec<String> = args.iter().map(|x| self.operand(body, did, &x.node)).collect();
                    let fty = func.ty(body, tcx);
                    let (fd, res, gargs) = match fty.kind() {
                        ty::FnDef(d, ga) => (esc(&self.path(*d)), esc(&self.resolve(did, *d, ga)), esc(&format!("{:?}", ga))),
                        _ => ("null".to_string(), "null".to_string(), "null".to_string()),
                    };
                    let _ = write!(
                        out,
                        "{{\"k\":\"call\",\"f\":{},\"fn\":{},\"res\":{},\"ga\":{},\"args\":[{}],\"dest\":{},\"t\":{},\"ln\":{},\"exp\":{},\"src\":{},\"fsrc\":{}}}",
                        self.operand(body, did, func),
                        fd,
                        res,
                        gargs,
                        a.join(","),
                        self.place(body, *destination),
                        match target { Some(t) => format!("{}", bbn(*t)), None => "null".into() },
                        ln,
                        exp,
                        esc(&self.snippet(term.source_info.span)),
                        esc(&self.snippet(*fn_span))
                    );
                }
                TerminatorKind::TailCall { .. } => out.push_str("{\"k\":\"tailcall\"}"),
                TerminatorKind::Assert { cond, expected, msg, target, .. } => {
                    let (ak, ops): (&str, Vec<String>) = match &**msg {
                        AssertKind::BoundsCheck { len, index } => ("BoundsCheck", vec![self.operand(body, did, len), self.operand(body, did, index)]),
                        AssertKind::Overflow(op, a, b) => {
                            let _ = op;
                            ("Overflow", vec![self.operand(body, did, a), self.operand(body, did, b)])
                        }
                        AssertKind::OverflowNeg(a) => ("OverflowNeg", vec![self.operand(body, did, a)]),
                        AssertKind::DivisionByZero(a) => ("DivisionByZero", vec![self.operand(body, did, a)]),
                        AssertKind::RemainderByZero(a) => ("RemainderByZero", vec![self.operand(body, did, a)]),
                        AssertKind::MisalignedPointerDereference { .. } => ("MisalignedPointerDereference", vec![]),
                        AssertKind::NullPointerDereference => ("NullPointerDereference", vec![]),
                        AssertKind::InvalidEnumConstruction(_) => ("InvalidEnumConstruction", vec![]),
                        _ => ("Other", vec![]),
                    };
                    let op = match &**msg {
                        AssertKind::Overflow(op, ..) => format!("{:?}", op),
                        _ => String::new(),
                    };
                    let _ = write!(
                        out,
                        "{{\"k\":\"assert\",\"cond\":{},\"exp\":{},\"ak\":\"{}\",\"op\":\"{}\",\"ops\":[{}],\"t\":{},\"ln\":{},\"mexp\":{},\"src\":{}}}",
                        self.operand(body, did, cond),
                        expected,
                        ak,
                        op,
                        ops.join(","),
                        bbn(*target),
                        ln,
                        exp,
                        esc(&self.snippet(term.source_info.span))
                    );
                }
                TerminatorKind::FalseEdge { real_target, .. } => {
                    let _ = write!(out, "{{\"k\":\"goto\",\"t\":{}}}", bbn(*real_target));
                }
                TerminatorKind::FalseUnwind { real_target, .. } => {
                    let _ = write!(out, "{{\"k\":\"goto\",\"t\":{}}}", bbn(*real_target));
                }
                _ => out.push_str("{\"k\":\"other\"}"),
            }
            out.push('}');
        }
        out.push_str("]}");
    }

    fn adts(&self, out: &mut String) {
        let tcx = self.tcx;
        let mut first = true;
        for id in tcx.hir_crate_items(()).definitions() {
            let did = id.to_def_id();
            let kind = tcx.def_kind(did);
            if !matches!(kind, DefKind::Struct | DefKind::Enum | DefKind::Union) {
                continue;
            }
            let def = tcx.adt_def(did);
            if !first {
                out.push(',');
            }
            first = false;
            let (file, line, _) = self.line(tcx.def_span(did));
            let _ = write!(out, "{{\"id\":{},\"kind\":\"{:?}\",\"pub\":{},\"file\":{},\"line\":{},\"variants\":[", esc(&self.path(did)), kind, tcx.visibility(did).is_public(), esc(&file), line);
            let mut fv = true;
            for v in def.variants() {
                if !fv {
                    out.push(',');
                }
                fv = false;
                let _ = write!(out, "{{\"name\":{},\"fields\":[", esc(v.name.as_str()));
                let mut ff = true;
                for f in &v.fields {
                    if !ff {
                        out.push(',');
                    }
                    ff = false;
                    let fty = tcx.type_of(f.did).instantiate_identity().skip_norm_wip();
                    let _ = write!(out, "{{\"name\":{},\"ty\":{},\"pub\":{}}}", esc(f.name.as_str()), esc(&self.ty_str(fty)), f.vis.is_public());
                }
                out.push_str("]}");
            }
            out.push_str("]}");
        }
    }
}

struct Cb;
impl rustc_driver::Callbacks for Cb {
    fn after_analysis<'tcx>(&mut self, _c: &Compiler, tcx: TyCtxt<'tcx>) -> Compilation {
        let krate = tcx.crate_name(LOCAL_CRATE).to_string();
        let want = std::env::var("MIRFACTS_CRATE").unwrap_or_else(|_| "a2lfile".into());
        if krate != want {
            return Compilation::Continue;
        }
        let outdir = match std::env::var("MIRFACTS_OUT") {
            Ok(d) => d,
            Err(_) => return Compilation::Continue,
        };
        let ex = Ex { tcx };
        let mut out = String::with_capacity(64 << 20);
        out.push_str("{\"crate\":");
        out.push_str(&esc(&krate));
        out.push_str(",\"adts\":[");
        ex.adts(&mut out);
        out.push_str("],\"bodies\":[");
        let mut n = 0usize;
        for def_id in tcx.mir_keys(()) {
            let did = def_id.to_def_id();
            let kind = tcx.def_kind(did);
            if !matches!(kind, DefKind::Fn | DefKind::AssocFn | DefKind::Closure) {
                continue;
            }
            if n > 0 {
                out.push(',');
            }
            n += 1;
            out.push('\n');
            ex.body(did, &mut out);
        }
        let _ = write!(out, "],\"nbodies\":{}}}\n", n);
        let tag = std::env::var("MIRFACTS_TAG").unwrap_or_else(|_| "default".into());
        let path = format!("{}/{}.{}.json", outdir, krate, tag);
        std::fs::write(&path, out).expect("mirfacts: cannot write fact file");
        Compilation::Continue
    }
}

fn main() {
    let mut args: Vec<String> = std::env::args().collect();
    // RUSTC_WORKSPACE_WRAPPER: argv[1] is the path of the real rustc; drop it
    if args.len() > 1 && (args[1].ends_with("rustc") || args[1].contains("/rustc")) {
        args.remove(1);
    }
    rustc_driver::run_compiler(&args, &mut Cb);
}
